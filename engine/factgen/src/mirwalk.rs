//! MIR facts: resolved call graph, assert terminators, casts, closure creation, fn references.
use crate::json::J;
use crate::Ctx;
use rustc_hir::def::DefKind;
use rustc_hir::def_id::{DefId, LocalDefId};
use rustc_middle::mir::{self, AggregateKind, AssertKind, Operand, Rvalue, StatementKind, TerminatorKind};
use rustc_middle::ty::{self, TypingEnv};

pub fn all_mir<'tcx>(cx: &mut Ctx<'tcx>) -> Vec<J> {
    let tcx = cx.tcx;
    let mut out = Vec::new();
    let owners: Vec<LocalDefId> = tcx.hir_body_owners().collect();
    for def in owners {
        let kind = tcx.def_kind(def);
        if tcx.typeck(def).tainted_by_errors.is_some() {
            continue;
        }
        let body: &mir::Body<'tcx> = match kind {
            DefKind::Fn | DefKind::AssocFn | DefKind::Closure => {
                if !tcx.is_mir_available(def.to_def_id()) {
                    continue;
                }
                tcx.optimized_mir(def)
            }
            DefKind::Const { .. } | DefKind::AssocConst { .. } | DefKind::Static { .. } => tcx.mir_for_ctfe(def),
            _ => continue,
        };
        let mut j = J::obj();
        j.set("path", J::s(cx.def_path(def.to_def_id())));
        j.set("kind", J::s(format!("{:?}", kind)));
        if matches!(kind, DefKind::Closure) {
            // nearest non-closure ancestor
            let root = tcx.typeck_root_def_id(def.to_def_id());
            j.set("root", J::s(cx.def_path(root)));
            j.set("parent", J::s(cx.def_path(tcx.parent(def.to_def_id()))));
        }
        let mut calls = Vec::new();
        let mut asserts = Vec::new();
        let mut casts = Vec::new();
        let mut closures = Vec::new();
        let mut fnrefs = Vec::new();
        let env = TypingEnv::post_analysis(tcx, def);

        let mut note_operand_fnref = |cx: &mut Ctx<'tcx>, op: &Operand<'tcx>, fnrefs: &mut Vec<J>| {
            if let Operand::Constant(c) = op {
                if let ty::FnDef(d, args) = c.const_.ty().kind() {
                    let mut fj = J::obj();
                    callee_fields(cx, &mut fj, env, *d, args);
                    fnrefs.push(fj);
                }
            }
        };

        for (bb, data) in body.basic_blocks.iter_enumerated() {
            for st in &data.statements {
                if let StatementKind::Assign(b) = &st.kind {
                    let (_, rv) = &**b;
                    match rv {
                        Rvalue::Cast(k, op, to) => {
                            let from = op.ty(&body.local_decls, tcx);
                            let ks = format!("{:?}", k);
                            let kname = ks.split('(').next().unwrap_or("").to_string();
                            if matches!(
                                kname.as_str(),
                                "IntToInt" | "FloatToInt" | "FloatToFloat" | "IntToFloat" | "PointerExposeProvenance" | "PointerWithExposedProvenance" | "Transmute" | "PtrToPtr" | "FnPtrToPtr"
                            ) {
                                let mut cj = J::obj();
                                cj.set("kind", J::s(kname));
                                cj.set("from", J::s(cx.ty_str(from)));
                                cj.set("to", J::s(cx.ty_str(*to)));
                                cj.set("sp", cx.span(st.source_info.span));
                                let m = cx.mac(st.source_info.span);
                                if !matches!(m, J::Null) {
                                    cj.set("mac", m);
                                }
                                casts.push(cj);
                            }
                            note_operand_fnref(cx, op, &mut fnrefs);
                        }
                        Rvalue::Aggregate(ak, ops) => {
                            if let AggregateKind::Closure(cd, _) = **ak {
                                closures.push(J::s(cx.def_path(cd)));
                            }
                            for op in ops.iter() {
                                note_operand_fnref(cx, op, &mut fnrefs);
                            }
                        }
                        Rvalue::Use(op, ..) => note_operand_fnref(cx, op, &mut fnrefs),
                        _ => {}
                    }
                }
            }
            let Some(term) = &data.terminator else { continue };
            match &term.kind {
                TerminatorKind::Call { func, args, fn_span, .. } | TerminatorKind::TailCall { func, args, fn_span } => {
                    let mut cj = J::obj();
                    cj.set("bb", J::Num(bb.as_u32() as i64));
                    let fty = func.ty(&body.local_decls, tcx);
                    match fty.kind() {
                        ty::FnDef(d, gargs) => {
                            callee_fields(cx, &mut cj, env, *d, gargs);
                        }
                        other => {
                            cj.set("callee", J::s("<indirect>"));
                            cj.set("fty", J::s(cx.ty_str(fty)));
                            let _ = other;
                        }
                    }
                    cj.set("sp", cx.span(*fn_span));
                    let m = cx.mac(term.source_info.span);
                    if !matches!(m, J::Null) {
                        cj.set("mac", m);
                    }
                    // first argument type (receiver) helps classify Index/unwrap sites
                    if let Some(a0) = args.first() {
                        let t = a0.node.ty(&body.local_decls, tcx);
                        cj.set("arg0_ty", J::s(cx.ty_str(t)));
                    }
                    for a in args.iter() {
                        note_operand_fnref(cx, &a.node, &mut fnrefs);
                    }
                    calls.push(cj);
                }
                TerminatorKind::Assert { msg, .. } => {
                    let kind = match &**msg {
                        AssertKind::BoundsCheck { .. } => "bounds".to_string(),
                        AssertKind::Overflow(op, ..) => format!("overflow:{:?}", op),
                        AssertKind::OverflowNeg(_) => "overflow:Neg".to_string(),
                        AssertKind::DivisionByZero(_) => "div_zero".to_string(),
                        AssertKind::RemainderByZero(_) => "rem_zero".to_string(),
                        AssertKind::MisalignedPointerDereference { .. } => "misaligned".to_string(),
                        AssertKind::NullPointerDereference => "nullptr".to_string(),
                        AssertKind::InvalidEnumConstruction(_) => "invalid_enum".to_string(),
                        _ => "other".to_string(),
                    };
                    let mut aj = J::obj();
                    aj.set("kind", J::s(kind));
                    aj.set("sp", cx.span(term.source_info.span));
                    let m = cx.mac(term.source_info.span);
                    if !matches!(m, J::Null) {
                        aj.set("mac", m);
                    }
                    asserts.push(aj);
                }
                _ => {}
            }
        }
        j.set("calls", J::Arr(calls));
        j.set("asserts", J::Arr(asserts));
        j.set("casts", J::Arr(casts));
        j.set("closures", J::Arr(closures));
        j.set("fnrefs", J::Arr(fnrefs));
        j.set("blocks", J::Num(body.basic_blocks.len() as i64));
        out.push(j);
    }
    out
}

fn callee_fields<'tcx>(
    cx: &mut Ctx<'tcx>,
    j: &mut J,
    env: TypingEnv<'tcx>,
    def: DefId,
    args: ty::GenericArgsRef<'tcx>,
) {
    let tcx = cx.tcx;
    j.set("callee", J::s(cx.def_path(def)));
    let args_e = tcx.erase_and_anonymize_regions(args);
    let mut resolved_def = None;
    let arity_ok = tcx.generics_of(def).count() == args.len();
    if !arity_ok {
        j.set("arity_mismatch", J::Bool(true));
    } else if let Ok(Some(inst)) = ty::Instance::try_resolve(tcx, env, def, args_e) {
        let d = inst.def_id();
        if d != def {
            j.set("resolved", J::s(cx.def_path(d)));
        }
        if let ty::InstanceKind::Virtual(..) = inst.def {
            j.set("virtual", J::Bool(true));
        }
        resolved_def = Some(d);
    }
    if let Some(assoc) = tcx.opt_associated_item(def) {
        let container = tcx.parent(def);
        if matches!(tcx.def_kind(container), DefKind::Trait) {
            j.set("trait", J::s(cx.def_path(container)));
            if let Some(st) = args.types().next() {
                j.set("self_ty", J::s(cx.ty_str(st)));
            }
            // unresolved trait call (generic / dyn): stays opaque
            if resolved_def.is_none() || resolved_def == Some(def) {
                let has_default = assoc.defaultness(tcx).has_value();
                if !has_default || resolved_def.is_none() {
                    j.set("opaque", J::Bool(true));
                }
            }
        }
        j.set("name", J::s(assoc.name().to_string()));
    } else if let Some(n) = tcx.opt_item_name(def) {
        j.set("name", J::s(n.to_string()));
    }
    let ga: Vec<J> = args.iter().filter_map(|a| a.as_type()).map(|t| J::s(cx.ty_str(t))).collect();
    if !ga.is_empty() {
        j.set("gargs", J::Arr(ga));
    }
}
