//! ADT table, trait impl table, statics.
use crate::json::J;
use crate::Ctx;
use rustc_hir as hir;
use rustc_middle::ty::print::PrintTraitRefExt;
use rustc_hir::def::DefKind;
use rustc_middle::ty::{self, Ty};

fn adt_paths_in<'tcx>(cx: &Ctx<'tcx>, t: Ty<'tcx>) -> Vec<String> {
    let mut v = Vec::new();
    for ga in t.walk() {
        if let Some(t) = ga.as_type() {
            match t.kind() {
                ty::Adt(adt, _) => v.push(cx.def_path(adt.did())),
                ty::Dynamic(preds, ..) => {
                    if let Some(p) = preds.principal_def_id() {
                        v.push(format!("dyn {}", cx.def_path(p)));
                    }
                }
                ty::RawPtr(..) => v.push("*ptr".to_string()),
                ty::FnPtr(..) => v.push("fnptr".to_string()),
                _ => {}
            }
        }
    }
    v.sort();
    v.dedup();
    v
}

fn attrs_of<'tcx>(cx: &Ctx<'tcx>, id: hir::HirId) -> Vec<J> {
    let sm = cx.tcx.sess.source_map();
    let mut out = Vec::new();
    for a in cx.tcx.hir_attrs(id) {
        if let hir::Attribute::Unparsed(_) = a {
            let sp = a.span();
            if let Ok(s) = sm.span_to_snippet(sp) {
                out.push(J::s(s));
            }
        }
    }
    out
}

pub fn all_items<'tcx>(cx: &mut Ctx<'tcx>) -> (Vec<J>, Vec<J>, Vec<J>) {
    let tcx = cx.tcx;
    let mut adts = Vec::new();
    let mut impls = Vec::new();
    let mut statics = Vec::new();

    for id in tcx.hir_free_items() {
        let item = tcx.hir_item(id);
        let def = item.owner_id.def_id;
        match tcx.def_kind(def) {
            DefKind::Struct | DefKind::Enum | DefKind::Union => {
                let adt = tcx.adt_def(def);
                let mut j = J::obj();
                j.set("path", J::s(cx.def_path(def.to_def_id())));
                j.set("kind", J::s(format!("{:?}", tcx.def_kind(def))));
                j.set("sp", cx.span(item.span));
                j.set("attrs", J::Arr(attrs_of(cx, item.hir_id())));
                j.set("vis", J::s(if tcx.visibility(def).is_public() { "pub" } else { "restricted" }));
                let mut vs = Vec::new();
                for (vi, v) in adt.variants().iter_enumerated() {
                    let mut vj = J::obj();
                    vj.set("name", J::s(v.name.as_str()));
                    vj.set("idx", J::Num(vi.as_u32() as i64));
                    if let Some(ld) = v.def_id.as_local() {
                        if adt.is_enum() {
                            vj.set("attrs", J::Arr(attrs_of(cx, tcx.local_def_id_to_hir_id(ld))));
                        }
                    }
                    let mut fs = Vec::new();
                    for f in v.fields.iter() {
                        let ft = tcx.type_of(f.did).instantiate_identity().skip_norm_wip();
                        let mut fj = J::obj();
                        fj.set("name", J::s(f.name.as_str()));
                        fj.set("ty", J::s(cx.ty_str(ft)));
                        fj.set("adts", J::Arr(adt_paths_in(cx, ft).into_iter().map(J::s).collect()));
                        fj.set("pub", J::Bool(f.vis.is_public()));
                        if let Some(ld) = f.did.as_local() {
                            fj.set("attrs", J::Arr(attrs_of(cx, tcx.local_def_id_to_hir_id(ld))));
                        }
                        fs.push(fj);
                    }
                    vj.set("fields", J::Arr(fs));
                    vs.push(vj);
                }
                j.set("variants", J::Arr(vs));
                adts.push(j);
            }
            DefKind::Impl { of_trait } => {
                let mut j = J::obj();
                let st = tcx.type_of(def).instantiate_identity().skip_norm_wip();
                j.set("self_ty", J::s(cx.ty_str(st)));
                if let ty::Adt(adt, _) = st.kind() {
                    j.set("self_adt", J::s(cx.def_path(adt.did())));
                }
                if of_trait {
                    let tref = tcx.impl_trait_ref(def).instantiate_identity().skip_norm_wip();
                    j.set("trait", J::s(cx.def_path(tref.def_id)));
                    j.set("trait_full", J::s({ let s = format!("{}", tref.print_only_trait_path()); cx.fix_crate(s) }));
                    let pol = tcx.impl_polarity(def);
                    if !matches!(pol, ty::ImplPolarity::Positive) {
                        j.set("polarity", J::s(format!("{:?}", pol)));
                    }
                }
                j.set("sp", cx.span(item.span));
                let m = cx.mac(item.span);
                if !matches!(m, J::Null) {
                    j.set("mac", m);
                }
                if let hir::ItemKind::Impl(im) = &item.kind {
                    if matches!(im.of_trait.map(|t| t.safety), Some(hir::Safety::Unsafe)) {
                        j.set("unsafe", J::Bool(true));
                    }
                }
                let mut ms = Vec::new();
                for ai in tcx.associated_items(def).in_definition_order() {
                    ms.push(
                        J::obj()
                            .with("name", J::s(ai.name().to_string()))
                            .with("path", J::s(cx.def_path(ai.def_id)))
                            .with("kind", J::s(format!("{:?}", ai.kind).split(|c| c == ' ' || c == '{' || c == '(').next().unwrap_or("").to_string())),
                    );
                }
                j.set("items", J::Arr(ms));
                impls.push(j);
            }
            DefKind::Static { mutability, .. } => {
                let mut j = J::obj();
                j.set("path", J::s(cx.def_path(def.to_def_id())));
                let t = tcx.type_of(def).instantiate_identity().skip_norm_wip();
                j.set("ty", J::s(cx.ty_str(t)));
                j.set("adts", J::Arr(adt_paths_in(cx, t).into_iter().map(J::s).collect()));
                j.set("mut", J::Bool(mutability.is_mut()));
                j.set("thread_local", J::Bool(tcx.is_thread_local_static(def.to_def_id())));
                j.set("sp", cx.span(item.span));
                let m = cx.mac(item.span);
                if !matches!(m, J::Null) {
                    j.set("mac", m);
                }
                statics.push(j);
            }
            _ => {}
        }
    }
    (adts, impls, statics)
}
