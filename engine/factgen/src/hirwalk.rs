//! Typed AST of every body (fn / method / const / static), closures embedded in place.
use crate::json::J;
use crate::Ctx;
use rustc_hir as hir;
use rustc_middle::ty::print::PrintTraitRefExt;
use rustc_hir::def::{CtorOf, DefKind, Res};
use rustc_hir::def_id::{DefId, LocalDefId};
use rustc_middle::ty::{self, Ty, TypeckResults, TypingEnv};

pub struct W<'a, 'tcx> {
    pub cx: &'a mut Ctx<'tcx>,
    pub tr: &'tcx TypeckResults<'tcx>,
    pub owner: LocalDefId,
}

pub fn all_bodies<'tcx>(cx: &mut Ctx<'tcx>) -> Vec<J> {
    let tcx = cx.tcx;
    let mut out = Vec::new();
    let owners: Vec<LocalDefId> = tcx.hir_body_owners().collect();
    for def in owners {
        let kind = tcx.def_kind(def);
        // closures are embedded in their parents
        if matches!(kind, DefKind::Closure | DefKind::InlineConst | DefKind::AnonConst) {
            continue;
        }
        let Some(body) = tcx.hir_maybe_body_owned_by(def) else { continue };
        let tr = tcx.typeck(def);
        if tr.tainted_by_errors.is_some() {
            continue;
        }
        let mut j = J::obj();
        j.set("path", J::s(cx.def_path(def.to_def_id())));
        j.set("kind", J::s(format!("{:?}", kind)));
        j.set("sp", cx.span(tcx.def_span(def)));
        j.set("vis", J::s(vis_str(cx, def)));
        // trait impl info
        if let Some(assoc) = tcx.opt_associated_item(def.to_def_id()) {
            j.set("name", J::s(assoc.name().to_string()));
            let container = tcx.parent(def.to_def_id());
            match tcx.def_kind(container) {
                DefKind::Impl { of_trait: true } => {
                    let tref = tcx.impl_trait_ref(container).instantiate_identity().skip_norm_wip();
                    j.set("impl_trait", J::s(cx.def_path(tref.def_id)));
                    j.set("impl_trait_full", J::s({ let s = format!("{}", tref.print_only_trait_path()); cx.fix_crate(s) }));
                    j.set("self_ty", J::s(cx.ty_str(tref.self_ty())));
                }
                DefKind::Impl { of_trait: false } => {
                    let st = tcx.type_of(container).instantiate_identity().skip_norm_wip();
                    j.set("self_ty", J::s(cx.ty_str(st)));
                }
                DefKind::Trait => {
                    j.set("in_trait", J::s(cx.def_path(container)));
                }
                _ => {}
            }
        } else {
            j.set("name", J::s(tcx.item_name(def.to_def_id()).to_string()));
        }
        let mut w = W { cx, tr, owner: def };
        let params: Vec<J> = body.params.iter().map(|p| w.pat(p.pat)).collect();
        j.set("params", J::Arr(params));
        if matches!(kind, DefKind::Fn | DefKind::AssocFn) {
            let sig = tcx.fn_sig(def).instantiate_identity().skip_norm_wip();
            let ret = sig.output().skip_binder();
            j.set("ret_ty", w.ty(ret));
        }
        j.set("body", w.expr(body.value));
        out.push(j);
    }
    out
}

fn vis_str(cx: &Ctx<'_>, def: LocalDefId) -> String {
    let tcx = cx.tcx;
    match tcx.def_kind(def) {
        DefKind::Fn | DefKind::AssocFn | DefKind::Const { .. } | DefKind::Static { .. } | DefKind::AssocConst { .. } => {
            let v = tcx.visibility(def);
            if v.is_public() { "pub".into() } else { "restricted".into() }
        }
        _ => "".into(),
    }
}

impl<'a, 'tcx> W<'a, 'tcx> {
    pub fn ty(&mut self, t: Ty<'tcx>) -> J {
        let s = self.cx.ty_str(t);
        self.cx.sid(s)
    }

    fn node(&mut self, k: &'static str, e: &hir::Expr<'tcx>) -> J {
        let mut j = J::obj().with("k", J::s(k));
        let t = self.tr.expr_ty_opt(e);
        if let Some(t) = t {
            j.set("ty", self.ty(t));
        }
        j.set("sp", self.cx.span(e.span));
        let m = self.cx.mac(e.span);
        if !matches!(m, J::Null) {
            j.set("mac", m);
        }
        j
    }

    fn bid(&self, id: hir::HirId) -> J {
        // HirIds inside one item share the owner; local_id is unique within it.
        J::Num(id.local_id.as_u32() as i64)
    }

    /// Resolve (def, args) to the concrete instance where possible; returns def path of the
    /// resolved item (impl method) or None when it stays generic / is not a fn.
    fn resolve(&mut self, def: DefId, args: ty::GenericArgsRef<'tcx>) -> Option<String> {
        let tcx = self.cx.tcx;
        if !matches!(tcx.def_kind(def), DefKind::Fn | DefKind::AssocFn) {
            return None;
        }
        if tcx.generics_of(def).count() != args.len() {
            return None;
        }
        let env = TypingEnv::post_analysis(tcx, self.owner);
        let args = tcx.erase_and_anonymize_regions(args);
        match ty::Instance::try_resolve(tcx, env, def, args) {
            Ok(Some(inst)) => {
                let d = inst.def_id();
                if d != def {
                    Some(self.cx.def_path(d))
                } else {
                    None
                }
            }
            _ => None,
        }
    }

    fn callee_fields(&mut self, j: &mut J, def: DefId, args: ty::GenericArgsRef<'tcx>) {
        let tcx = self.cx.tcx;
        j.set("callee", J::s(self.cx.def_path(def)));
        if let Some(r) = self.resolve(def, args) {
            j.set("resolved", J::s(r));
        }
        // For trait methods record the trait and the Self type (first generic arg).
        if let Some(assoc) = tcx.opt_associated_item(def) {
            let container = tcx.parent(def);
            if matches!(tcx.def_kind(container), DefKind::Trait) {
                j.set("trait", J::s(self.cx.def_path(container)));
                if let Some(st) = args.types().next() {
                    j.set("self_ty", self.ty(st));
                }
            } else if let DefKind::Impl { .. } = tcx.def_kind(container) {
                let st = tcx.type_of(container).instantiate_identity().skip_norm_wip();
                j.set("impl_self", self.ty(st));
            }
            j.set("name", J::s(assoc.name().to_string()));
        } else if let Some(n) = tcx.opt_item_name(def) {
            j.set("name", J::s(n.to_string()));
        }
        let ga: Vec<J> = args
            .iter()
            .filter_map(|a| a.as_type())
            .map(|t| self.ty(t))
            .collect();
        if !ga.is_empty() {
            j.set("gargs", J::Arr(ga));
        }
    }

    fn variant_of(&mut self, res: Res, ty: Ty<'tcx>) -> Option<(String, String)> {
        let tcx = self.cx.tcx;
        let ty = ty.peel_refs();
        if let ty::Adt(adt, _) = ty.kind() {
            let ok = match res {
                Res::Def(DefKind::Variant | DefKind::Struct | DefKind::Union | DefKind::TyAlias | DefKind::AssocTy, _) => true,
                Res::Def(DefKind::Ctor(..), _) => true,
                Res::SelfTyAlias { .. } | Res::SelfTyParam { .. } | Res::SelfCtor(_) => true,
                _ => false,
            };
            if !ok {
                return None;
            }
            let v = if adt.is_enum() {
                match res {
                    Res::Def(DefKind::Variant, id) => adt.variant_with_id(id),
                    Res::Def(DefKind::Ctor(CtorOf::Variant, _), id) => adt.variant_with_ctor_id(id),
                    _ => return None,
                }
            } else {
                adt.non_enum_variant()
            };
            let _ = tcx;
            return Some((self.cx.def_path(adt.did()), v.name.to_string()));
        }
        None
    }

    fn lit(&mut self, l: &hir::Lit, j: &mut J) {
        use rustc_ast::ast::LitKind;
        match l.node {
            LitKind::Str(s, _) => j.set("v", J::s(s.as_str())),
            LitKind::Int(n, _) => {
                let n = n.get();
                if n <= i64::MAX as u128 {
                    j.set("v", J::Num(n as i64))
                } else {
                    j.set("v", J::s(n.to_string()))
                }
            }
            LitKind::Bool(b) => j.set("v", J::Bool(b)),
            LitKind::Char(c) => j.set("v", J::s(c.to_string())),
            LitKind::Float(s, _) => j.set("v", J::s(s.as_str())),
            LitKind::Byte(b) => j.set("v", J::Num(b as i64)),
            LitKind::ByteStr(ref bytes, _) => {
                j.set("v", J::Arr(bytes.as_byte_str().iter().map(|b| J::Num(*b as i64)).collect()))
            }
            _ => j.set("v", J::Null),
        }
        j.set(
            "lk",
            J::s(match l.node {
                LitKind::Str(..) => "str",
                LitKind::Int(..) => "int",
                LitKind::Bool(..) => "bool",
                LitKind::Char(..) => "char",
                LitKind::Float(..) => "float",
                LitKind::Byte(..) => "byte",
                LitKind::ByteStr(..) => "bytes",
                _ => "other",
            }),
        );
    }

    fn path_expr(&mut self, e: &hir::Expr<'tcx>, qp: &hir::QPath<'tcx>) -> J {
        let res = self.tr.qpath_res(qp, e.hir_id);
        match res {
            Res::Local(id) => {
                let mut j = self.node("local", e);
                j.set("bid", self.bid(id));
                let name = self.cx.tcx.hir_name(id).to_string();
                j.set("name", J::s(name));
                j
            }
            Res::Def(kind, def) => {
                let mut j = self.node("path", e);
                j.set("dk", J::s(format!("{:?}", kind)));
                let args = self.tr.node_args(e.hir_id);
                match kind {
                    DefKind::Ctor(..) => {
                        let t = self.tr.expr_ty(e);
                        // for unit variants the type is the ADT; for fn-like ctors the fn output
                        let adt_ty = match t.kind() {
                            ty::FnDef(..) => t.fn_sig(self.cx.tcx).output().skip_binder(),
                            _ => t,
                        };
                        if let Some((a, v)) = self.variant_of(res, adt_ty) {
                            j.set("adt", J::s(a));
                            j.set("variant", J::s(v));
                        }
                        j.set("def", J::s(self.cx.def_path(def)));
                    }
                    DefKind::Fn | DefKind::AssocFn => {
                        self.callee_fields(&mut j, def, args);
                        j.set("def", J::s(self.cx.def_path(def)));
                    }
                    _ => {
                        j.set("def", J::s(self.cx.def_path(def)));
                    }
                }
                j
            }
            Res::SelfCtor(_) => {
                let mut j = self.node("path", e);
                j.set("dk", J::s("SelfCtor"));
                j
            }
            _ => {
                let mut j = self.node("path", e);
                j.set("dk", J::s(format!("{:?}", res)));
                j
            }
        }
    }

    pub fn block(&mut self, b: &hir::Block<'tcx>) -> J {
        let mut stmts = Vec::new();
        for s in b.stmts {
            match s.kind {
                hir::StmtKind::Let(l) => {
                    let mut j = J::obj().with("k", J::s("let"));
                    j.set("sp", self.cx.span(s.span));
                    let m = self.cx.mac(s.span);
                    if !matches!(m, J::Null) {
                        j.set("mac", m);
                    }
                    j.set("pat", self.pat(l.pat));
                    if let Some(i) = l.init {
                        j.set("init", self.expr(i));
                    }
                    if let Some(e) = l.els {
                        j.set("els", self.block(e));
                    }
                    stmts.push(j);
                }
                hir::StmtKind::Item(_) => {}
                hir::StmtKind::Expr(e) => stmts.push(self.expr(e)),
                hir::StmtKind::Semi(e) => {
                    let mut j = self.expr(e);
                    j.set("semi", J::Bool(true));
                    stmts.push(j);
                }
            }
        }
        let mut j = J::obj().with("k", J::s("block")).with("stmts", J::Arr(stmts));
        j.set("sp", self.cx.span(b.span));
        if let Some(e) = b.expr {
            j.set("tail", self.expr(e));
        }
        if !matches!(b.rules, hir::BlockCheckMode::DefaultBlock) {
            j.set("unsafe", J::Bool(true));
        }
        j
    }

    pub fn pat(&mut self, p: &hir::Pat<'tcx>) -> J {
        let mut j = J::obj();
        let pty = self.tr.pat_ty(p);
        match p.kind {
            hir::PatKind::Wild | hir::PatKind::Missing | hir::PatKind::Never => {
                j.set("k", J::s("wild"));
            }
            hir::PatKind::Binding(mode, id, ident, sub) => {
                j.set("k", J::s("bind"));
                j.set("bid", self.bid(id));
                j.set("name", J::s(ident.name.as_str()));
                j.set("ty", self.ty(pty));
                let by_ref = !matches!(mode.0, hir::ByRef::No);
                if by_ref {
                    j.set("by_ref", J::Bool(true));
                }
                if mode.1.is_mut() {
                    j.set("mut", J::Bool(true));
                }
                if let Some(s) = sub {
                    j.set("sub", self.pat(s));
                }
            }
            hir::PatKind::Struct(ref qp, fields, _) => {
                j.set("k", J::s("pstruct"));
                let res = self.tr.qpath_res(qp, p.hir_id);
                if let Some((a, v)) = self.variant_of(res, pty) {
                    j.set("adt", J::s(a));
                    j.set("variant", J::s(v));
                }
                let fs: Vec<J> = fields
                    .iter()
                    .map(|f| J::obj().with("name", J::s(f.ident.name.as_str())).with("pat", self.pat(f.pat)))
                    .collect();
                j.set("fields", J::Arr(fs));
            }
            hir::PatKind::TupleStruct(ref qp, pats, ddpos) => {
                j.set("k", J::s("pvariant"));
                let res = self.tr.qpath_res(qp, p.hir_id);
                if let Some((a, v)) = self.variant_of(res, pty) {
                    j.set("adt", J::s(a));
                    j.set("variant", J::s(v));
                }
                let subs: Vec<J> = pats.iter().map(|s| self.pat(s)).collect();
                j.set("sub", J::Arr(subs));
                if let Some(d) = ddpos.as_opt_usize() {
                    j.set("dotdot", J::Num(d as i64));
                }
            }
            hir::PatKind::Or(pats) => {
                j.set("k", J::s("por"));
                let subs: Vec<J> = pats.iter().map(|s| self.pat(s)).collect();
                j.set("alts", J::Arr(subs));
            }
            hir::PatKind::Tuple(pats, ddpos) => {
                j.set("k", J::s("ptuple"));
                let subs: Vec<J> = pats.iter().map(|s| self.pat(s)).collect();
                j.set("sub", J::Arr(subs));
                if let Some(d) = ddpos.as_opt_usize() {
                    j.set("dotdot", J::Num(d as i64));
                }
            }
            hir::PatKind::Box(s) | hir::PatKind::Deref(s) | hir::PatKind::Ref(s, _, _) => {
                j.set("k", J::s("pref"));
                j.set("sub", self.pat(s));
            }
            hir::PatKind::Expr(pe) => match pe.kind {
                hir::PatExprKind::Lit { lit, negated } => {
                    j.set("k", J::s("plit"));
                    self.lit(&lit, &mut j);
                    if negated {
                        j.set("neg", J::Bool(true));
                    }
                }
                hir::PatExprKind::Path(ref qp) => {
                    let res = self.tr.qpath_res(qp, pe.hir_id);
                    if let Some((a, v)) = self.variant_of(res, pty) {
                        j.set("k", J::s("pvariant"));
                        j.set("adt", J::s(a));
                        j.set("variant", J::s(v));
                        j.set("sub", J::Arr(vec![]));
                    } else if let Res::Def(_, d) = res {
                        j.set("k", J::s("pconst"));
                        j.set("def", J::s(self.cx.def_path(d)));
                    } else {
                        j.set("k", J::s("pother"));
                    }
                }
            },
            hir::PatKind::Guard(s, g) => {
                j.set("k", J::s("pguard"));
                j.set("sub", self.pat(s));
                j.set("guard", self.expr(g));
            }
            hir::PatKind::Range(..) => {
                j.set("k", J::s("prange"));
            }
            hir::PatKind::Slice(a, m, b) => {
                j.set("k", J::s("pslice"));
                let pre: Vec<J> = a.iter().map(|s| self.pat(s)).collect();
                let post: Vec<J> = b.iter().map(|s| self.pat(s)).collect();
                j.set("pre", J::Arr(pre));
                if let Some(m) = m {
                    j.set("mid", self.pat(m));
                }
                j.set("post", J::Arr(post));
            }
            hir::PatKind::Err(_) => {
                j.set("k", J::s("pother"));
            }
        }
        j.set("pty", self.ty(pty));
        j
    }

    fn exprs(&mut self, es: &[hir::Expr<'tcx>]) -> J {
        J::Arr(es.iter().map(|e| self.expr(e)).collect())
    }

    pub fn expr(&mut self, e: &hir::Expr<'tcx>) -> J {
        use hir::ExprKind as K;
        let tcx = self.cx.tcx;
        match e.kind {
            K::DropTemps(inner) | K::Use(inner, _) | K::Type(inner, _) => self.expr(inner),
            K::ConstBlock(_) => self.node("other", e).with("what", J::s("constblock")),
            K::Array(es) => {
                let mut j = self.node("array", e);
                j.set("elems", self.exprs(es));
                j
            }
            K::Tup(es) => {
                let mut j = self.node("tuple", e);
                j.set("elems", self.exprs(es));
                j
            }
            K::Call(f, args) => {
                if let K::Path(ref qp) = f.kind {
                    let res = self.tr.qpath_res(qp, f.hir_id);
                    match res {
                        Res::Def(DefKind::Fn | DefKind::AssocFn, def) => {
                            let mut j = self.node("call", e);
                            let ga = self.tr.node_args(f.hir_id);
                            self.callee_fields(&mut j, def, ga);
                            j.set("args", self.exprs(args));
                            return j;
                        }
                        Res::Def(DefKind::Ctor(..), def) => {
                            let mut j = self.node("ctor", e);
                            let t = self.tr.expr_ty(e);
                            if let Some((a, v)) = self.variant_of(res, t) {
                                j.set("adt", J::s(a));
                                j.set("variant", J::s(v));
                            }
                            j.set("def", J::s(self.cx.def_path(def)));
                            j.set("args", self.exprs(args));
                            return j;
                        }
                        Res::SelfCtor(_) => {
                            let mut j = self.node("ctor", e);
                            let t = self.tr.expr_ty(e);
                            if let ty::Adt(adt, _) = t.kind() {
                                j.set("adt", J::s(self.cx.def_path(adt.did())));
                                j.set("variant", J::s(adt.non_enum_variant().name.to_string()));
                            }
                            j.set("args", self.exprs(args));
                            return j;
                        }
                        _ => {}
                    }
                }
                // call of a local / field / closure value
                let mut j = self.node("ucall", e);
                // overloaded call via Fn* traits
                if let Some(def) = self.tr.type_dependent_def_id(e.hir_id) {
                    j.set("via", J::s(self.cx.def_path(def)));
                }
                j.set("f", self.expr(f));
                j.set("args", self.exprs(args));
                j
            }
            K::MethodCall(seg, recv, args, _) => {
                let mut j = self.node("mcall", e);
                if let Some(def) = self.tr.type_dependent_def_id(e.hir_id) {
                    let ga = self.tr.node_args(e.hir_id);
                    self.callee_fields(&mut j, def, ga);
                } else {
                    j.set("name", J::s(seg.ident.name.as_str()));
                }
                j.set("recv_ty", {
                    let t = self.tr.expr_ty_adjusted(recv);
                    self.ty(t)
                });
                j.set("recv", self.expr(recv));
                j.set("args", self.exprs(args));
                j
            }
            K::Binary(op, l, r) => {
                let mut j = self.node("bin", e);
                j.set("op", J::s(op.node.as_str()));
                if self.tr.is_method_call(e) {
                    if let Some(def) = self.tr.type_dependent_def_id(e.hir_id) {
                        let ga = self.tr.node_args(e.hir_id);
                        self.callee_fields(&mut j, def, ga);
                    }
                }
                j.set("l", self.expr(l));
                j.set("r", self.expr(r));
                j
            }
            K::Unary(op, inner) => {
                let mut j = self.node("un", e);
                j.set(
                    "op",
                    J::s(match op {
                        hir::UnOp::Deref => "*",
                        hir::UnOp::Not => "!",
                        hir::UnOp::Neg => "-",
                    }),
                );
                if self.tr.is_method_call(e) {
                    if let Some(def) = self.tr.type_dependent_def_id(e.hir_id) {
                        let ga = self.tr.node_args(e.hir_id);
                        self.callee_fields(&mut j, def, ga);
                    }
                }
                j.set("e", self.expr(inner));
                j
            }
            K::Lit(l) => {
                let mut j = self.node("lit", e);
                self.lit(&l, &mut j);
                j
            }
            K::Cast(inner, _) => {
                let mut j = self.node("cast", e);
                let from = self.tr.expr_ty(inner);
                j.set("from", self.ty(from));
                j.set("e", self.expr(inner));
                j
            }
            K::Let(l) => {
                let mut j = self.node("letx", e);
                j.set("pat", self.pat(l.pat));
                j.set("init", self.expr(l.init));
                j
            }
            K::If(c, t, els) => {
                let mut j = self.node("if", e);
                j.set("cond", self.expr(c));
                j.set("then", self.expr(t));
                if let Some(x) = els {
                    j.set("els", self.expr(x));
                }
                j
            }
            K::Loop(b, _, src, _) => {
                let mut j = self.node("loop", e);
                j.set("src", J::s(format!("{:?}", src)));
                j.set("body", self.block(b));
                j
            }
            K::Match(scrut, arms, src) => {
                let mut j = self.node("match", e);
                j.set("src", J::s(format!("{:?}", src).split('(').next().unwrap_or("").to_string()));
                j.set("scrut", self.expr(scrut));
                let arms: Vec<J> = arms
                    .iter()
                    .map(|a| {
                        let mut aj = J::obj();
                        aj.set("sp", self.cx.span(a.span));
                        aj.set("pat", self.pat(a.pat));
                        if let Some(g) = a.guard {
                            aj.set("guard", self.expr(g));
                        }
                        aj.set("body", self.expr(a.body));
                        aj
                    })
                    .collect();
                j.set("arms", J::Arr(arms));
                j
            }
            K::Closure(c) => {
                let mut j = self.node("closure", e);
                let cdef = c.def_id;
                j.set("def", J::s(self.cx.def_path(cdef.to_def_id())));
                let body = tcx.hir_body(c.body);
                let params: Vec<J> = body.params.iter().map(|p| self.pat(p.pat)).collect();
                j.set("params", J::Arr(params));
                j.set("move", J::Bool(matches!(c.capture_clause, hir::CaptureBy::Value { .. })));
                let mut caps = Vec::new();
                for cap in self.tr.closure_min_captures_flattened(cdef) {
                    let mut cj = J::obj();
                    cj.set("name", J::s(cap.var_ident.name.as_str()));
                    if let rustc_middle::hir::place::PlaceBase::Upvar(up) = cap.place.base {
                        cj.set("bid", self.bid(up.var_path.hir_id));
                    }
                    cj.set("place", J::s(cap.to_string(tcx)));
                    cj.set("by", J::s(format!("{:?}", cap.info.capture_kind)));
                    let pt = cap.place.ty();
                    cj.set("ty", self.ty(pt));
                    cj.set("base_ty", self.ty(cap.place.base_ty));
                    caps.push(cj);
                }
                j.set("caps", J::Arr(caps));
                j.set("body", self.expr(body.value));
                j
            }
            K::Block(b, _) => {
                let mut j = self.block(b);
                if let Some(t) = self.tr.expr_ty_opt(e) {
                    j.set("ty", self.ty(t));
                }
                j
            }
            K::Assign(l, r, _) => {
                let mut j = self.node("assign", e);
                j.set("place", self.expr(l));
                j.set("e", self.expr(r));
                j
            }
            K::AssignOp(op, l, r) => {
                let mut j = self.node("assign", e);
                j.set("op", J::s(op.node.as_str()));
                if self.tr.is_method_call(e) {
                    if let Some(def) = self.tr.type_dependent_def_id(e.hir_id) {
                        let ga = self.tr.node_args(e.hir_id);
                        self.callee_fields(&mut j, def, ga);
                    }
                }
                j.set("place", self.expr(l));
                j.set("e", self.expr(r));
                j
            }
            K::Field(base, ident) => {
                let mut j = self.node("field", e);
                let bt = self.tr.expr_ty_adjusted(base);
                // peel refs and auto-deref through Box/Rc/Arc is recorded by adjustments; find ADT
                let mut t = bt;
                let mut adt_path = None;
                for _ in 0..8 {
                    match t.kind() {
                        ty::Ref(_, inner, _) => t = *inner,
                        ty::Adt(adt, args) => {
                            // does this ADT have the field?
                            if !adt.is_enum()
                                && adt.non_enum_variant().fields.iter().any(|f| f.name == ident.name)
                            {
                                adt_path = Some(self.cx.def_path(adt.did()));
                                break;
                            }
                            // smart pointer: deref to first type arg
                            if let Some(inner) = args.types().next() {
                                t = inner;
                            } else {
                                break;
                            }
                        }
                        _ => break,
                    }
                }
                if let Some(a) = adt_path {
                    j.set("adt", J::s(a));
                }
                j.set("name", J::s(ident.name.as_str()));
                j.set("base", self.expr(base));
                j
            }
            K::Index(base, idx, _) => {
                let mut j = self.node("index", e);
                if self.tr.is_method_call(e) {
                    if let Some(def) = self.tr.type_dependent_def_id(e.hir_id) {
                        let ga = self.tr.node_args(e.hir_id);
                        self.callee_fields(&mut j, def, ga);
                    }
                }
                let bt = self.tr.expr_ty_adjusted(base);
                j.set("base_ty", self.ty(bt));
                j.set("base", self.expr(base));
                j.set("idx", self.expr(idx));
                j
            }
            K::Path(ref qp) => self.path_expr(e, qp),
            K::AddrOf(_, m, inner) => {
                let mut j = self.node("ref", e);
                if m.is_mut() {
                    j.set("mut", J::Bool(true));
                }
                j.set("e", self.expr(inner));
                j
            }
            K::Break(_, v) => {
                let mut j = self.node("break", e);
                if let Some(v) = v {
                    j.set("e", self.expr(v));
                }
                j
            }
            K::Continue(_) => self.node("continue", e),
            K::Ret(v) => {
                let mut j = self.node("ret", e);
                if let Some(v) = v {
                    j.set("e", self.expr(v));
                }
                j
            }
            K::Struct(qp, fields, tail) => {
                let mut j = self.node("struct", e);
                let res = self.tr.qpath_res(qp, e.hir_id);
                let t = self.tr.expr_ty(e);
                if let Some((a, v)) = self.variant_of(res, t) {
                    j.set("adt", J::s(a));
                    j.set("variant", J::s(v));
                } else if let ty::Adt(adt, _) = t.kind() {
                    j.set("adt", J::s(self.cx.def_path(adt.did())));
                }
                let fs: Vec<J> = fields
                    .iter()
                    .map(|f| {
                        let mut fj = J::obj().with("name", J::s(f.ident.name.as_str()));
                        if f.is_shorthand {
                            fj.set("short", J::Bool(true));
                        }
                        fj.set("e", self.expr(f.expr));
                        fj
                    })
                    .collect();
                j.set("fields", J::Arr(fs));
                if let hir::StructTailExpr::Base(b) = tail {
                    j.set("base", self.expr(b));
                }
                j
            }
            K::Repeat(inner, _) => {
                let mut j = self.node("repeat", e);
                j.set("e", self.expr(inner));
                j
            }
            K::Yield(inner, _) => {
                let mut j = self.node("other", e);
                j.set("what", J::s("yield"));
                j.set("e", self.expr(inner));
                j
            }
            K::Become(inner) => {
                let mut j = self.node("other", e);
                j.set("what", J::s("become"));
                j.set("e", self.expr(inner));
                j
            }
            K::InlineAsm(_) => self.node("other", e).with("what", J::s("asm")),
            K::OffsetOf(..) => self.node("other", e).with("what", J::s("offset_of")),
            K::UnsafeBinderCast(..) => self.node("other", e).with("what", J::s("unsafe_binder")),
            K::Err(_) => self.node("other", e).with("what", J::s("err")),
        }
    }
}
