//! factgen: rustc_private driver, used as RUSTC_WORKSPACE_WRAPPER under `cargo +nightly check`.
//! For every workspace crate it writes one JSON fact file into $FACTGEN_OUT:
//!   typed AST (HIR + TypeckResults) of every body, MIR call graph / asserts / casts,
//!   ADT table, trait impl table, statics.
//! It never runs analysed code; it only reads rustc's resolved, type-checked representation.
#![feature(rustc_private)]

extern crate rustc_abi;
extern crate rustc_ast;
extern crate rustc_driver;
extern crate rustc_hir;
extern crate rustc_interface;
extern crate rustc_middle;
extern crate rustc_session;
extern crate rustc_span;

mod json;
mod hirwalk;
mod mirwalk;
mod items;

use json::J;
use rustc_driver::Compilation;
use rustc_middle::ty::TyCtxt;
use std::collections::HashMap;

pub struct Interner {
    map: HashMap<String, usize>,
    pub list: Vec<String>,
}
impl Interner {
    fn new() -> Self {
        Interner { map: HashMap::new(), list: Vec::new() }
    }
    pub fn id(&mut self, s: String) -> i64 {
        if let Some(i) = self.map.get(&s) {
            return *i as i64;
        }
        let i = self.list.len();
        self.map.insert(s.clone(), i);
        self.list.push(s);
        i as i64
    }
}

pub struct Ctx<'tcx> {
    pub tcx: TyCtxt<'tcx>,
    pub strs: Interner,
    pub crate_name: String,
}

impl<'tcx> Ctx<'tcx> {
    pub fn sid<T: Into<String>>(&mut self, s: T) -> J {
        J::Num(self.strs.id(s.into()))
    }
    /// `crate::` -> `<crate name>::` (only at identifier boundaries).
    pub fn fix_crate(&self, s: String) -> String {
        if !s.contains("crate::") {
            return s;
        }
        let mut out = String::with_capacity(s.len() + 16);
        let b = s.as_bytes();
        let mut i = 0;
        while i < b.len() {
            if s[i..].starts_with("crate::")
                && (i == 0 || !(b[i - 1].is_ascii_alphanumeric() || b[i - 1] == b'_'))
            {
                out.push_str(&self.crate_name);
                out.push_str("::");
                i += 7;
            } else {
                let ch = s[i..].chars().next().unwrap();
                out.push(ch);
                i += ch.len_utf8();
            }
        }
        out
    }
    pub fn def_path(&self, id: rustc_hir::def_id::DefId) -> String {
        use rustc_middle::ty::print::{with_crate_prefix, with_no_trimmed_paths, with_no_visible_paths};
        let s = with_no_visible_paths!(with_no_trimmed_paths!(with_crate_prefix!(self.tcx.def_path_str(id))));
        self.fix_crate(s)
    }
    pub fn ty_str(&self, t: rustc_middle::ty::Ty<'tcx>) -> String {
        use rustc_middle::ty::print::{with_crate_prefix, with_no_trimmed_paths, with_no_visible_paths};
        let s = with_no_visible_paths!(with_no_trimmed_paths!(with_crate_prefix!(format!("{}", t))));
        self.fix_crate(s)
    }
    /// [file-id, line] of the outermost call site of the span (source position of macro uses).
    pub fn span(&mut self, sp: rustc_span::Span) -> J {
        let sp = sp.source_callsite();
        let sm = self.tcx.sess.source_map();
        if sp.is_dummy() {
            return J::Null;
        }
        let loc = sm.lookup_char_pos(sp.lo());
        let name = format!("{}", loc.file.name.prefer_local_unconditionally());
        let f = self.strs.id(name);
        J::Arr(vec![J::Num(f), J::Num(loc.line as i64)])
    }
    /// Macro expansion chain (innermost first), e.g. ["unreachable","panic"]; Null if none.
    pub fn mac(&mut self, sp: rustc_span::Span) -> J {
        if !sp.from_expansion() {
            return J::Null;
        }
        let mut names: Vec<String> = Vec::new();
        for ex in sp.macro_backtrace() {
            use rustc_span::hygiene::ExpnKind;
            let n = match ex.kind {
                ExpnKind::Macro(_, name) => name.to_string(),
                ExpnKind::Desugaring(k) => format!("desugar:{:?}", k),
                ExpnKind::AstPass(p) => format!("astpass:{:?}", p),
                ExpnKind::Root => continue,
            };
            names.push(n);
        }
        if names.is_empty() {
            // desugarings are not part of macro_backtrace
            if let Some(k) = sp.desugaring_kind() {
                names.push(format!("desugar:{:?}", k));
            } else {
                return J::Null;
            }
        }
        let joined = names.join(">");
        self.sid(joined)
    }
}

struct Cb;

impl rustc_driver::Callbacks for Cb {
    fn after_analysis<'tcx>(
        &mut self,
        _compiler: &rustc_interface::interface::Compiler,
        tcx: TyCtxt<'tcx>,
    ) -> Compilation {
        let out_dir = match std::env::var("FACTGEN_OUT") {
            Ok(d) => d,
            Err(_) => return Compilation::Continue,
        };
        let crate_name = tcx.crate_name(rustc_hir::def_id::LOCAL_CRATE).to_string();
        if crate_name.starts_with("build_script") {
            return Compilation::Continue;
        }
        if let Ok(only) = std::env::var("FACTGEN_CRATES") {
            if !only.split(',').any(|c| c == crate_name) {
                return Compilation::Continue;
            }
        }
        let is_test = tcx.sess.opts.test;
        let crate_types: Vec<String> =
            tcx.crate_types().iter().map(|c| format!("{:?}", c)).collect();
        let mut cx = Ctx { tcx, strs: Interner::new(), crate_name: crate_name.clone() };

        let fns = hirwalk::all_bodies(&mut cx);
        let mir = mirwalk::all_mir(&mut cx);
        let (adts, impls, statics) = items::all_items(&mut cx);

        let mut cfgs: Vec<String> = tcx
            .sess
            .config
            .iter()
            .filter_map(|(k, v)| {
                let k = k.to_string();
                if k == "feature" || k.contains("verif") || k == "test" || k == "debug_assertions" {
                    Some(match v {
                        Some(v) => format!("{}={}", k, v),
                        None => k,
                    })
                } else {
                    None
                }
            })
            .collect();
        cfgs.sort();

        let meta = J::obj()
            .with("crate", J::s(&crate_name))
            .with("pkg", J::s(std::env::var("CARGO_PKG_NAME").unwrap_or_default()))
            .with("test", J::Bool(is_test))
            .with("crate_types", J::Arr(crate_types.iter().map(J::s).collect()))
            .with("cfg", J::Arr(cfgs.iter().map(J::s).collect()))
            .with("tree_hash", J::s(std::env::var("FACTGEN_TREE_HASH").unwrap_or_default()))
            .with("rustc", J::s(option_env!("CFG_VERSION").unwrap_or("nightly")));
        let strs = J::Arr(cx.strs.list.iter().map(J::s).collect());
        let doc = J::obj()
            .with("meta", meta)
            .with("fns", J::Arr(fns))
            .with("mir", J::Arr(mir))
            .with("adts", J::Arr(adts))
            .with("impls", J::Arr(impls))
            .with("statics", J::Arr(statics))
            .with("strs", strs);
        let mut s = String::with_capacity(1 << 24);
        doc.write(&mut s);
        let kind = if is_test {
            "test".to_string()
        } else {
            crate_types.first().cloned().unwrap_or_default().to_lowercase()
        };
        let feat = {
            let f: Vec<&String> = cfgs.iter().filter(|c| c.starts_with("feature=")).collect();
            if f.is_empty() {
                String::new()
            } else {
                format!(
                    "-{}",
                    f.iter().map(|c| c.trim_start_matches("feature=")).collect::<Vec<_>>().join("+")
                )
            }
        };
        let pkg = std::env::var("CARGO_PKG_NAME").unwrap_or_else(|_| "nopkg".to_string());
        let path = format!("{}/{}--{}-{}{}.json", out_dir, pkg, crate_name, kind, feat);
        let tmp = format!("{}.tmp{}", path, std::process::id());
        std::fs::write(&tmp, s).expect("factgen: cannot write fact file");
        std::fs::rename(&tmp, &path).expect("factgen: cannot rename fact file");
        Compilation::Continue
    }
}

fn main() -> std::process::ExitCode {
    let mut args: Vec<String> = std::env::args().collect();
    // RUSTC_WORKSPACE_WRAPPER: argv[1] is the path of the real rustc; drop it.
    if args.len() > 1 && (args[1].ends_with("rustc") || args[1].contains("/rustc")) {
        args.remove(1);
    }
    rustc_driver::install_ice_hook("factgen", |_| ());
    let code = rustc_driver::catch_with_exit_code(|| {
        rustc_driver::run_compiler(&args, &mut Cb);
    });
    code
}
