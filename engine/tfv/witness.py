"""Compile-time witness crates (RK7): type-check a tiny crate against /repo's current trustfall_core.

The witness is copied to the cache with its path dependency pointed at the tree under analysis and
the tree's Cargo.lock, then `cargo +nightly check` (quick) / `cargo +nightly test --doc` (thorough;
compile_fail doctests with an error code + compiling `no_run` twins) decide the obligations.
"""
import os
import re
import shutil
import subprocess

from . import facts


def prepare(name):
    src = os.path.join(facts.VERIF, "witness", name)
    dst = os.path.join(facts.CACHE, "witness", name)
    if os.path.exists(dst):
        shutil.rmtree(dst)
    shutil.copytree(src, dst, ignore=shutil.ignore_patterns("target", "Cargo.lock"))
    toml = open(os.path.join(dst, "Cargo.toml")).read().replace("/repo/", facts.REPO.rstrip("/") + "/")
    open(os.path.join(dst, "Cargo.toml"), "w").write(toml)
    shutil.copy(os.path.join(facts.REPO, "Cargo.lock"), os.path.join(dst, "Cargo.lock"))
    return dst


def _env():
    env = dict(os.environ, CARGO_NET_OFFLINE="true", CARGO_INCREMENTAL="0",
               CARGO_TARGET_DIR=os.environ.get("TFV_WTARGET") or os.path.join(facts.CACHE, "wtarget"))
    env.pop("RUSTC_WORKSPACE_WRAPPER", None)
    env.pop("RUSTFLAGS", None)
    return env


def check(name):
    """Type-check the witness. Returns (ok, output)."""
    d = prepare(name)
    cmd = ["cargo", "+nightly", "check", "--offline", "--quiet"]
    r = subprocess.run(cmd, cwd=d, env=_env(), stdout=subprocess.PIPE, stderr=subprocess.STDOUT, text=True)
    return r.returncode == 0, r.stdout, " ".join(cmd)


def doctests(name):
    """compile_fail witnesses + twins. Returns (ok, passed, failed, output)."""
    d = prepare(name)
    cmd = ["cargo", "+nightly", "test", "--doc", "--offline"]
    r = subprocess.run(cmd, cwd=d, env=_env(), stdout=subprocess.PIPE, stderr=subprocess.STDOUT, text=True)
    m = re.search(r"test result: (\w+)\. (\d+) passed; (\d+) failed", r.stdout)
    if not m:
        return False, 0, 0, r.stdout, " ".join(cmd)
    return r.returncode == 0 and m.group(1) == "ok", int(m.group(2)), int(m.group(3)), r.stdout, " ".join(cmd)


def obligations(name, fn_marker="assert_send_sync::<"):
    src = open(os.path.join(facts.VERIF, "witness", name, "src", "lib.rs")).read()
    body = src[src.index("pub fn obligations()"):]
    body = body[:body.index("\n}\n")]
    return [l.strip() for l in body.split("\n") if "::<" in l and l.strip().startswith("assert_")]
