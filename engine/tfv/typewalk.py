"""Type-structure walks over the ADT table (RK6)."""

CELLS = {
    "core::cell::Cell", "core::cell::RefCell", "core::cell::UnsafeCell", "core::cell::once::OnceCell",
    "core::cell::lazy::LazyCell", "core::cell::SyncUnsafeCell",
}
LOCKS = {
    "std::sync::mutex::Mutex", "std::sync::poison::mutex::Mutex", "std::sync::rwlock::RwLock",
    "std::sync::poison::rwlock::RwLock", "std::sync::once_lock::OnceLock", "std::sync::lazy_lock::LazyLock",
    "std::sync::once::Once", "std::sync::poison::once::Once", "std::sync::condvar::Condvar",
    "std::sync::nonpoison::mutex::Mutex", "std::sync::nonpoison::rwlock::RwLock",
}
RC = {"alloc::rc::Rc", "alloc::rc::Weak"}
PTRS = {"*ptr"}

FORBIDDEN_SHARED = CELLS | LOCKS | RC | PTRS

HASH = {"std::collections::hash::map::HashMap", "std::collections::hash::set::HashSet",
        "hashbrown::map::HashMap", "hashbrown::set::HashSet"}


def is_atomic(p):
    return p.startswith("core::sync::atomic::")


def reach(C, root, forbidden=None, stop_at=None):
    """Walk local ADTs reachable from `root` through field types.
    Returns (local ADT paths, foreign ADT paths, [(adt, field, field type, forbidden thing)])."""
    forbidden = FORBIDDEN_SHARED if forbidden is None else forbidden
    seen, foreign, bad = set(), set(), []
    todo = [root]
    while todo:
        p = todo.pop()
        if p in seen:
            continue
        seen.add(p)
        a = C.adt_by_path.get(p)
        if a is None:
            continue
        for v in a["variants"]:
            for f in v["fields"]:
                for t in f["adts"]:
                    if t in forbidden or (forbidden is FORBIDDEN_SHARED and is_atomic(t)):
                        bad.append((p, f["name"], f["ty"], t))
                    if t in C.adt_by_path:
                        if stop_at and t in stop_at:
                            continue
                        todo.append(t)
                    else:
                        foreign.add(t)
    return seen, foreign, bad
