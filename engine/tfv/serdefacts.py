"""Facts about serde-derived impls, read from the *expanded* derive code in the typed HIR
(rustc drops derive helper attributes from HIR, and the expansion is what actually runs).

ser_skips(C, adt)   -> {field: (wire name, resolved predicate callee)}   from `if !P(&self.f) { serialize_field } else { skip_field }`
de_missing(C, adt)  -> {field: ("default", resolved callee) | ("required", None)}  from visit_map's `None =>` arms
variant_order(C, adt), untagged(C, adt)
"""
from .tast import walk, strip, calls_in


def _impl_fns(C, trait_suffix, adt, name):
    out = []
    needle = "%s for %s" % (trait_suffix, adt)
    for f in C.fns:
        p = f["path"]
        if f.get("name") == name and needle in p:
            out.append(f)
    return out


def ser_fn(C, adt):
    fs = [f for f in _impl_fns(C, "serde_core::ser::Serialize", adt, "serialize")
          if f["path"].endswith(">::serialize") and ("Serialize for %s>" % adt in f["path"] or "Serialize for %s<" % adt in f["path"])]
    return fs[0] if fs else None


def ser_skips(C, adt):
    f = ser_fn(C, adt)
    if f is None:
        return None
    out = {}
    for n in walk(f["body"]):
        if n.get("k") != "if" or "els" not in n:
            continue
        c = strip(n["cond"])
        neg = False
        while c.get("k") == "un" and c.get("op") == "!":
            neg = not neg
            c = strip(c["e"])
        if c.get("k") != "call" or not c.get("args"):
            continue
        a = strip(c["args"][0])
        if a.get("k") != "field" or a.get("adt") != adt:
            continue
        ser_branch = n["then"] if neg else n["els"]
        names = [x for x in calls_in(ser_branch) if x.get("name") == "serialize_field"]
        if not names:
            continue
        wire = strip(names[0]["args"][1]).get("v") if len(names[0]["args"]) > 1 else None
        out[a["name"]] = (wire, c.get("resolved") or c.get("callee"))
    return out


def serialized_fields(C, adt):
    f = ser_fn(C, adt)
    if f is None:
        return None
    out = []
    for c in calls_in(f["body"]):
        if c.get("name") == "serialize_field" and len(c["args"]) >= 3:
            a = strip(c["args"][2])
            if a.get("k") == "field":
                out.append((strip(c["args"][1]).get("v"), a["name"]))
    return out


def de_missing(C, adt):
    """field -> ("default", callee) / ("required", None), from the derived visit_map."""
    vm = [f for f in C.fns if f.get("name") == "visit_map" and ("Deserialize<'de> for %s>" % adt in f["path"]
                                                                or "Deserialize<'de> for %s<" % adt in f["path"])]
    vm = [f for f in vm if f["path"].count("__Visitor") == 1]
    if not vm:
        return None
    f = vm[0]
    # final construction: field -> local name
    ctor = None
    for n in walk(f["body"]):
        if n.get("k") == "struct" and n.get("adt") == adt:
            ctor = n
    if ctor is None:
        return None
    local_of = {}
    for fl in ctor["fields"]:
        e = strip(fl["e"])
        if e.get("k") == "local":
            local_of[e["bid"]] = fl["name"]
    out = {}
    for n in walk(f["body"]):
        if n.get("k") == "let" and n["pat"].get("k") == "bind" and n["pat"]["bid"] in local_of and "init" in n:
            init = strip(n["init"])
            if init.get("k") != "match":
                continue
            for a in init["arms"]:
                if a["pat"].get("variant") == "None":
                    cs = list(calls_in(a["body"]))
                    miss = [c for c in cs if c.get("name") == "missing_field"]
                    dfl = [c for c in cs if c.get("name") == "default"]
                    if miss:
                        out[local_of[n["pat"]["bid"]]] = ("required", None)
                    elif dfl:
                        out[local_of[n["pat"]["bid"]]] = ("default", dfl[0].get("resolved") or dfl[0].get("callee"))
                    else:
                        out[local_of[n["pat"]["bid"]]] = ("other", [c.get("callee") for c in cs][:3])
    return out
