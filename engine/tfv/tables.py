"""Dispatch-table extraction (RK1)."""
from .tast import pat_variants, walk, strip


def pat_key(p):
    """Short key of a pattern: variant name, '_' for wildcard/binding, literal value."""
    k = p.get("k")
    if k == "pref":
        return pat_key(p["sub"])
    if k in ("pvariant", "pstruct"):
        return p.get("variant", "?")
    if k == "wild":
        return "_"
    if k == "bind":
        if "sub" in p:
            return pat_key(p["sub"])
        return "_"
    if k == "plit":
        return ("lit", p.get("v"))
    if k == "ptuple":
        return tuple(pat_key(s) for s in p["sub"])
    if k == "pguard":
        return pat_key(p["sub"])
    return "?" + str(k)


def pat_adt(p):
    k = p.get("k")
    if k in ("pref", "pguard"):
        return pat_adt(p["sub"])
    if k == "bind" and "sub" in p:
        return pat_adt(p["sub"])
    if k in ("pvariant", "pstruct"):
        return p.get("adt")
    return None


def arms_flat(m):
    """[(key, arm, pattern)] with or-patterns flattened; key from pat_key."""
    out = []
    for a in m["arms"]:
        for p in pat_variants(a["pat"]):
            out.append((pat_key(p), a, p))
    return out


def matches_over(body, adt, min_arms=2, into_closures=True):
    """All `match` nodes in body whose arms (at top level of the pattern) are variants of `adt`."""
    res = []
    for n in walk(body, into_closures):
        if n.get("k") != "match":
            continue
        cnt = 0
        for a in n["arms"]:
            for p in pat_variants(a["pat"]):
                if pat_adt(p) == adt:
                    cnt += 1
        if cnt >= min_arms:
            res.append(n)
    return res


def matches_over_tuple(body, adts, min_arms=2):
    """`match (a, b)` nodes whose arm patterns are tuples with variant patterns of the given adts."""
    res = []
    for n in walk(body):
        if n.get("k") != "match":
            continue
        cnt = 0
        for a in n["arms"]:
            for p in pat_variants(a["pat"]):
                if p.get("k") == "ptuple" and any(pat_adt(s) in adts for s in p["sub"]):
                    cnt += 1
        if cnt >= min_arms:
            res.append(n)
    return res


def str_matches(body, min_arms=2):
    res = []
    for n in walk(body):
        if n.get("k") != "match":
            continue
        cnt = sum(1 for a in n["arms"] for p in pat_variants(a["pat"])
                  if p.get("k") == "plit" and p.get("lk") == "str")
        if cnt >= min_arms:
            res.append(n)
    return res


def variant_table(m, adt):
    """variant name -> list of arms (list because guards may split a variant)."""
    t = {}
    for key, arm, p in arms_flat(m):
        if pat_adt(p) == adt:
            t.setdefault(key, []).append(arm)
        elif key == "_":
            t.setdefault("_", []).append(arm)
    return t


def adt_variants(C, adt):
    a = C.adt_by_path.get(adt)
    if not a:
        return None
    return [v["name"] for v in a["variants"]]


def arm_value(arm_body):
    """Peel blocks: value expression of an arm."""
    n = arm_body
    while isinstance(n, dict) and n.get("k") == "block" and not n.get("stmts") and "tail" in n:
        n = n["tail"]
    return n


def is_panic_arm(C, body):
    """Arm that only panics via unreachable!/panic!/unimplemented!/todo!."""
    for n in walk(body):
        m = n.get("mac")
        if m is not None:
            ch = C.S(m).split(">")
            if any(x in ("unreachable", "panic", "unimplemented", "todo") for x in ch):
                return True
        break
    # first node without macro: look at any call to panicking fns
    for n in walk(body):
        c = n.get("callee") or ""
        if c.startswith("core::panicking::") or c.startswith("std::rt::begin_panic"):
            return True
    return False
