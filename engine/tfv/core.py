"""Rule-engine core: report collection, known findings, evidence, exit status."""
import importlib
import json
import os
import sys
import time
import traceback

from . import facts

VERIF = facts.VERIF
EVDIR = os.environ.get("TFV_EVIDENCE_DIR") or os.path.join(VERIF, "evidence")


class Report:
    def __init__(self, prop, tier, seed):
        self.prop = prop
        self.tier = tier
        self.seed = seed
        self.t0 = time.time()
        self.instances = []      # (rule, instance-key, detail)  evaluated rule instances
        self.nontrivial = set()  # distinct non-vacuous instance keys
        self.violations = []     # dicts
        self.rules = {}          # rule id -> description
        self.floors = []         # (rule, what, got, floor)
        self.units = {}
        self.samples = []
        self.notes = []
        self.extra = {}
        self.level = "other"

    def rule(self, rid, text):
        self.rules[rid] = text

    def ok(self, rule, inst, detail=None, nontrivial=True):
        """Record one evaluated rule instance that holds."""
        self.instances.append((rule, inst))
        if nontrivial:
            self.nontrivial.add((rule, inst))
        if detail is not None and len(self.samples) < 60:
            self.samples.append({"rule": rule, "instance": inst, "holds": True, "detail": detail})

    def fail(self, rule, key, where, msg, detail=None):
        """Record a violated rule instance. `key` must be stable (no line numbers)."""
        self.instances.append((rule, key))
        self.nontrivial.add((rule, key))
        self.violations.append({"property": self.prop, "rule": rule, "key": "%s %s" % (rule, key),
                                "where": where, "msg": msg, "detail": detail})

    def floor(self, rule, what, got, floor):
        """Fail closed if fewer instances than counted by hand were found."""
        self.floors.append({"rule": rule, "what": what, "got": got, "floor": floor})
        if got < floor:
            self.fail(rule, "floor:%s" % what, "-",
                      "instance count for '%s' fell to %d, below the floor %d confirmed by hand "
                      "(anchor missing or rule no longer matches; fail closed)" % (what, got, floor))

    def check(self, cond, rule, key, where, msg, detail=None):
        if cond:
            self.ok(rule, key, detail)
        else:
            self.fail(rule, key, where, msg, detail)
        return cond


def load_known():
    p = os.path.join(VERIF, "known_findings.json")
    if not os.path.exists(p):
        return []
    with open(p) as f:
        return json.load(f)


def run_selftest(prop):
    """Run the scripted mutants of one property (selftest/mutate.py) and summarise; validates the checker, not the property."""
    import subprocess
    base = "/tmp/tfv-selftest-%s-%d" % (prop, os.getpid())
    env = dict(os.environ, TFV_SELFTEST_DIR=base, VERIF_TIER="quick")
    jobs = os.environ.get("TFV_SELFTEST_JOBS", "8")
    try:
        r = subprocess.run([sys.executable, os.path.join(VERIF, "selftest", "mutate.py"), prop, "--jobs", jobs],
                           env=env, cwd=VERIF, stdout=subprocess.PIPE, stderr=subprocess.STDOUT, text=True, timeout=3 * 3600)
    except subprocess.TimeoutExpired:
        return {"error": "timeout"}
    finally:
        import shutil
        shutil.rmtree(base, ignore_errors=True)
    lines = r.stdout.strip().splitlines()
    summary = {}
    try:
        summary = json.loads(lines[-1])
    except (ValueError, IndexError):
        summary = {"error": r.stdout[-500:]}
    summary["results"] = [l[:140] for l in lines[:-1]][:60]
    for b in summary.get("bad", []):
        print("SELFTEST-WEAK: property=%s mutant %s: %s (the check missed or mislabelled a scripted breakage; this is about the "
              "checker's strength, not a violation on the current tree)" % (prop, b[0], b[1]))
    print("%s selftest: %s mutants, %s caught, %s silent-ok (behaviour-preserving), %s skipped" % (
        prop, summary.get("total"), summary.get("caught"), summary.get("silent_ok"), summary.get("skipped")))
    return summary


def run_property(prop, tier, seed, only_key=None):
    R = Report(prop, tier, seed)
    factdir, th, nfiles = facts.ensure_facts(tier)
    mod = importlib.import_module("rules." + prop)
    ctx = Ctx(factdir, tier, th)
    # a rule that does not terminate must not hang the check: after TFV_RULE_TIMEOUT seconds (default 30 min; the slowest rule
    # takes about 2 min on a heavily loaded machine) the evaluation is abandoned and reported (fail closed)
    import signal

    def _timeout(signum, frame):
        raise TimeoutError("rule evaluation exceeded %s s" % os.environ.get("TFV_RULE_TIMEOUT", "1800"))
    try:
        signal.signal(signal.SIGALRM, _timeout)
        signal.alarm(int(os.environ.get("TFV_RULE_TIMEOUT", "1800")))
    except (ValueError, AttributeError):
        pass
    try:
        mod.run(ctx, R)
        signal.alarm(0)
    except SystemExit:
        raise
    except Exception as e:  # an analysis crash is not a pass
        R.fail("engine", "exception:%s" % type(e).__name__, "-",
               "rule engine raised %r (fail closed)\n%s" % (e, traceback.format_exc()))
    finally:
        try:
            signal.alarm(0)
        except (ValueError, AttributeError):
            pass
    thorough = {}
    if tier == "thorough" and not only_key:
        # (a) the same rules on trustfall_core built with the other feature set (`__private`): cfg-gated code is parsed too
        alt = "trustfall_core--trustfall_core-rlib-__private+default.json"
        if os.path.exists(os.path.join(factdir, alt)) and prop != "C24":
            R2 = Report(prop, tier, seed)
            ctx2 = Ctx(factdir, tier, th)
            ctx2.core_file = alt
            try:
                mod.run(ctx2, R2)
            except SystemExit:
                raise
            except Exception as e:
                R2.fail("engine", "exception:%s" % type(e).__name__, "-", "rule engine raised %r on the __private feature set\n%s" % (e, traceback.format_exc()))
            have = {v["key"] for v in R.violations}
            extra = [v for v in R2.violations if v["key"] not in have]
            for v in extra:
                v["msg"] = "[feature set __private] " + v["msg"]
                R.violations.append(v)
            R.instances.extend(("alt:" + r, i) for r, i in R2.instances)
            thorough["feature_sets"] = {"default": len(R.instances) - len(R2.instances), "__private+default": len(R2.instances),
                                        "violations_only_in_alt": [v["key"] for v in extra]}
            ctx.loaded |= ctx2.loaded
        thorough["fact_files_in_workspace_set"] = len(ctx.all_fact_files())
    known = [k for k in load_known() if k["property"] == prop and k.get("status") == "known"]
    known_keys = {k["key"]: k for k in known}
    new = []
    matched = []
    for v in R.violations:
        if only_key and v["key"] != only_key:
            continue
        if v["key"] in known_keys:
            matched.append(v)
        else:
            new.append(v)
    for v in matched:
        k = known_keys[v["key"]]
        print("KNOWN-FINDING: property=%s %s — %s" % (prop, v["key"], k.get("what", v["msg"])))
    os.makedirs(os.path.join(EVDIR, "replays"), exist_ok=True)
    for i, v in enumerate(new):
        rp = os.path.join(EVDIR, "replays", "%s-%d.json" % (prop, i))
        with open(rp, "w") as f:
            json.dump(v, f, indent=1)
        print("  %s: [%s] %s\n    at %s" % (prop, v["key"], v["msg"], v["where"]))
        print("VIOLATION property=%s replay=%s" % (prop, rp))
    if tier == "thorough" and not only_key and not os.environ.get("TFV_REPO") and not os.environ.get("TFV_NO_SELFTEST"):
        # (b) E4 self-test: scripted one-instance breakages of this property's rule instances on scratch copies of /repo
        thorough["selftest"] = run_selftest(prop)
    units = {"fact_dir": os.path.basename(factdir), "tree_hash": th, "source_files_hashed": nfiles,
             "fact_files": sorted(os.path.basename(p) for p in ctx.loaded)}
    units.update(R.units)
    explanation = getattr(mod, "EXPLANATION", "") + " Rules: " + " | ".join(
        "%s: %s" % (k, v) for k, v in sorted(R.rules.items()))
    cov = {
        "explanation": explanation,
        "evaluations": len(R.instances),
        "distinct_nontrivial": len(R.nontrivial),
        "rule": "one evaluation = one rule instance (a dispatch-table arm, a call site, an ADT field, a "
                "path obligation) located by resolved path/role in rustc's typed HIR/MIR of the current "
                "tree; non-trivial = the instance exists in the tree and was compared against its "
                "reference (vacuous matches are not counted); distinct by (rule, instance key)",
        "samples": R.samples[:40] or [{"note": "no samples"}],
        "floors": R.floors,
        "units": units,
        "rules": R.rules,
        "known_findings_matched": [v["key"] for v in matched],
        "new_violations": [v["key"] for v in new],
        "exhaustive": True,
    }
    cov.update(R.extra)
    if thorough:
        cov["thorough"] = thorough
    ev = {
        "property_id": prop,
        "tier": tier,
        "seed": seed,
        "level": R.level,
        "coverage": cov,
        "assumptions": getattr(mod, "ASSUMPTIONS", []) + [
            "rustc's name resolution, type checking and MIR construction are correct",
            "std and dependency crates behave as documented",
        ],
        "wall_s": round(time.time() - R.t0, 2),
        "violations": len(new),
    }
    with open(os.path.join(EVDIR, "%s.json" % prop), "w") as f:
        json.dump(ev, f, indent=1)
    print("%s tier=%s tree=%s: %d rule instances evaluated (%d distinct non-trivial), %d known finding(s), "
          "%d new violation(s), %.1fs" % (prop, tier, th, len(R.instances), len(R.nontrivial),
                                         len(matched), len(new), time.time() - R.t0))
    return 1 if new else 0


class Ctx:
    def __init__(self, factdir, tier, th):
        self.factdir = factdir
        self.tier = tier
        self.tree_hash = th
        self.loaded = set()

    def crate(self, name):
        c = facts.load(self.factdir, name)
        self.loaded.add(name)
        if c.meta.get("tree_hash") != self.tree_hash:
            raise SystemExit("tfv: fact file %s is for tree %s, expected %s (stale facts; fail closed)"
                             % (name, c.meta.get("tree_hash"), self.tree_hash))
        return c

    core_file = facts.CORE

    @property
    def core(self):
        return self.crate(self.core_file)

    def all_fact_files(self):
        return sorted(f for f in os.listdir(self.factdir) if f.endswith(".json"))


def main(argv):
    import argparse
    ap = argparse.ArgumentParser()
    ap.add_argument("prop")
    ap.add_argument("--tier", default=os.environ.get("VERIF_TIER") or "quick")
    ap.add_argument("--replay", default=None)
    a = ap.parse_args(argv)
    seed = int(os.environ.get("VERIF_SEED", "0") or 0)
    tier = a.tier if a.tier in ("quick", "thorough") else "quick"
    only = None
    if a.replay:
        with open(a.replay) as f:
            only = json.load(f)["key"]
    sys.path.insert(0, VERIF)
    return run_property(a.prop, tier, seed, only)
