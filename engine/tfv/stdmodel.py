"""Models of the std / itertools API surface that analysed trustfall functions use (for absint).

Collections hold abstract values; BTreeMap/BTreeSet keep key order (keys must be orderable abstract
values: str, int, ranked Sym, tuples of those). Iterators are Python generators, so adapters stay lazy.
Anything not modelled raises Unsupported in the evaluator (fail closed).
"""
from . import absint as A

OPTION = "core::option::Option"
RESULT = "core::result::Result"


def some(x):
    return A.Enum(OPTION, "Some", [x])


def none():
    return A.Enum(OPTION, "None")


def ok(x):
    return A.Enum(RESULT, "Ok", [x])


def err(x):
    return A.Enum(RESULT, "Err", [x])


def unit():
    return A.Tuple([])


def sk(v):
    """Sort key of an abstract value used as a map key."""
    v = A.deref(v)
    if isinstance(v, (str, int)):
        return (0, v)
    if isinstance(v, A.Sym):
        if v.rank is None:
            raise A.Unsupported("unordered key %r" % (v,))
        return (1, v.rank)
    if isinstance(v, A.Tuple):
        return (2, tuple(sk(x) for x in v.elems))
    if isinstance(v, A.Enum):
        return (3, v.variant, tuple(sk(x) for x in v.fields))
    if isinstance(v, A.Struct):
        return (4, tuple(sk(x) for x in v.fields.values()))
    raise A.Unsupported("unordered key %r" % (v,))


class MapV:
    def __init__(self, items=()):
        self.d = {}
        for k, v in items:
            self.d[sk(k)] = (k, v)

    def get(self, k):
        e = self.d.get(sk(k))
        return None if e is None else e[1]

    def insert(self, k, v):
        old = self.d.get(sk(k))
        self.d[sk(k)] = (k, v)
        return None if old is None else old[1]

    def remove(self, k):
        e = self.d.pop(sk(k), None)
        return None if e is None else e[1]

    def items(self):
        return [self.d[k] for k in sorted(self.d)]

    def __repr__(self):
        return "map{%s}" % ", ".join("%r: %r" % kv for kv in self.items())


class SetV:
    def __init__(self, items=()):
        self.d = {}
        for k in items:
            self.d[sk(k)] = k

    def items(self):
        return [self.d[k] for k in sorted(self.d)]

    def __repr__(self):
        return "set{%s}" % ", ".join(map(repr, self.items()))


class IterV:
    def __init__(self, gen):
        self.gen = iter(gen)
        self.buf = []

    def next(self):
        if self.buf:
            return some(self.buf.pop(0))
        try:
            return some(next(self.gen))
        except StopIteration:
            return none()

    def peek(self):
        if not self.buf:
            try:
                self.buf.append(next(self.gen))
            except StopIteration:
                return none()
        return some(self.buf[0])

    def __iter__(self):
        while True:
            o = self.next()
            if o.variant == "None":
                return
            yield o.fields[0]


def to_iter(v):
    v = A.deref(v)
    if isinstance(v, IterV):
        return v
    if isinstance(v, A.VecV):
        return IterV(list(v.items))
    if isinstance(v, MapV):
        return IterV(A.Tuple([k, x]) for k, x in v.items())
    if isinstance(v, SetV):
        return IterV(v.items())
    if isinstance(v, A.Enum) and v.adt == OPTION:
        return IterV(list(v.fields))
    if isinstance(v, A.Struct) and v.adt.startswith("core::ops::range::Range") and "start" in v.fields and "end" in v.fields:
        lo, hi = A.deref(v.fields["start"]), A.deref(v.fields["end"])
        if isinstance(lo, int) and isinstance(hi, int):
            return IterV(range(lo, hi + (1 if "Inclusive" in v.adt else 0)))
    raise A.Unsupported("iteration over %r" % (v,))


def collect(ip, n, it):
    ty = ip.C.S(n.get("ty")) or ""
    items = list(to_iter(it))
    return build(ip, ty, items)


def build(ip, ty, items):
    if ty.startswith("alloc::vec::Vec<") or ty.startswith("smallvec::SmallVec<") or ty.startswith("alloc::sync::Arc<[") \
            or ty.startswith("alloc::collections::vec_deque::VecDeque<"):
        return A.VecV(items)
    if ty.startswith("alloc::collections::btree::map::BTreeMap<") or ty.startswith("std::collections::hash::map::HashMap<"):
        return MapV([(A.deref(t).elems[0], A.deref(t).elems[1]) for t in items])
    if ty.startswith("alloc::collections::btree::set::BTreeSet<") or ty.startswith("std::collections::hash::set::HashSet<"):
        return SetV(items)
    if ty.startswith("core::option::Option<"):
        inner = ty[len("core::option::Option<"):-1]
        out = []
        for x in items:
            x = A.deref(x)
            if x.variant == "None":
                return none()
            out.append(x.fields[0])
        return some(build(ip, inner, out))
    if ty.startswith("core::result::Result<"):
        inner = ty[len("core::result::Result<"):].rsplit(",", 1)[0]
        out = []
        for x in items:
            x = A.deref(x)
            if x.variant == "Err":
                return x
            out.append(x.fields[0])
        return ok(build(ip, inner, out))
    if ty.startswith("alloc::string::String"):
        return "".join(str(A.deref(x)) for x in items)
    raise A.Unsupported("collect into %s" % ty)


def call_f(ip, f, args):
    """Call a closure value or a fn-path value."""
    if isinstance(f, tuple) and f and f[0] == "closure":
        return ip.call_closure(f, args)
    if isinstance(f, tuple) and f and f[0] == "fnpath":
        return ip.call_path(f[1], args)
    raise A.Unsupported("call of %r" % (f,))


def intrinsics():
    I = {}
    IT = "core::iter::traits::iterator::Iterator::"
    VEC = "alloc::vec::Vec::<T, A>::"
    BM = "alloc::collections::btree::map::BTreeMap::<K, V, A>::"
    BS = "alloc::collections::btree::set::BTreeSet::<T, A>::"
    OPT = "core::option::Option::<T>::"
    RES = "core::result::Result::<T, E>::"
    SL = "core::slice::<impl [T]>::"

    def d(x):
        return A.deref(x)

    # ---- iterators
    I["core::iter::traits::collect::IntoIterator::into_iter"] = lambda ip, n, a: to_iter(a[0])
    DFL = "<%s as core::default::Default>::default"
    I[DFL % "alloc::collections::btree::map::BTreeMap<K, V>"] = lambda ip, n, a: MapV()
    I[DFL % "std::collections::hash::map::HashMap<K, V, S>"] = lambda ip, n, a: MapV()
    I[DFL % "alloc::collections::btree::set::BTreeSet<T>"] = lambda ip, n, a: SetV()
    I[DFL % "std::collections::hash::set::HashSet<T, S>"] = lambda ip, n, a: SetV()
    I[DFL % "alloc::vec::Vec<T>"] = lambda ip, n, a: A.VecV([])
    I[DFL % "alloc::collections::vec_deque::VecDeque<T>"] = lambda ip, n, a: A.VecV([])
    I[DFL % "alloc::string::String"] = lambda ip, n, a: ""
    I[DFL % "core::option::Option<T>"] = lambda ip, n, a: none()

    def discriminant(ip, n, a):
        """core::intrinsics::discriminant_value, as called by derived PartialEq / PartialOrd / Hash: the variant's ordinal."""
        v = d(a[0])
        if isinstance(v, A.Enum):
            adt = ip.C.adt_by_path.get(v.adt)
            names = [x["name"] for x in adt["variants"]] if adt else []
            if v.variant in names:
                return names.index(v.variant)
            if v.adt in (OPTION,):
                return {"None": 0, "Some": 1}[v.variant]
            if v.adt in (RESULT,):
                return {"Ok": 0, "Err": 1}[v.variant]
        raise A.Unsupported("discriminant of %r" % (v,))
    I["core::intrinsics::discriminant_value"] = discriminant

    def ptr_eq(ip, n, a):
        x, y = d(a[0]), d(a[1])
        if isinstance(x, (A.VecV, A.Struct, A.Enum, MapV, SetV)) and isinstance(y, (A.VecV, A.Struct, A.Enum, MapV, SetV)):
            return x is y                 # two abstract containers are one allocation only if they are one object
        raise A.Unsupported("Arc::ptr_eq on values without an allocation identity (%r, %r)" % (x, y))
    I["alloc::sync::Arc::<T, A>::ptr_eq"] = ptr_eq
    I["core::ops::range::RangeInclusive::<Idx>::new"] = lambda ip, n, a: A.Struct("core::ops::range::RangeInclusive", {"start": a[0], "end": a[1]})
    I[IT + "next"] = lambda ip, n, a: to_iter(a[0]).next()
    I[IT + "map"] = lambda ip, n, a: IterV(call_f(ip, a[1], [x]) for x in to_iter(a[0]))
    I[IT + "filter"] = lambda ip, n, a: IterV(x for x in to_iter(a[0]) if ip.truth(call_f(ip, a[1], [x])))

    def filter_map(ip, n, a):
        def g():
            for x in to_iter(a[0]):
                o = d(call_f(ip, a[1], [x]))
                if o.variant == "Some":
                    yield o.fields[0]
        return IterV(g())
    I[IT + "filter_map"] = filter_map

    def flat_map(ip, n, a):
        def g():
            for x in to_iter(a[0]):
                for y in to_iter(call_f(ip, a[1], [x])):
                    yield y
        return IterV(g())
    I[IT + "flat_map"] = flat_map
    I[IT + "flatten"] = lambda ip, n, a: IterV(y for x in to_iter(a[0]) for y in to_iter(x))
    I[IT + "chain"] = lambda ip, n, a: IterV(list(to_iter(a[0])) + list(to_iter(a[1]))) if False else IterV(_chain(a[0], a[1]))
    I[IT + "cloned"] = lambda ip, n, a: to_iter(a[0])
    I[IT + "copied"] = lambda ip, n, a: to_iter(a[0])
    I[IT + "by_ref"] = lambda ip, n, a: to_iter(a[0])
    I[IT + "peekable"] = lambda ip, n, a: to_iter(a[0])
    I["core::iter::adapters::peekable::Peekable::<I>::peek"] = lambda ip, n, a: to_iter(a[0]).peek()
    I[IT + "enumerate"] = lambda ip, n, a: IterV(A.Tuple([i, x]) for i, x in enumerate(to_iter(a[0])))
    I[IT + "rev"] = lambda ip, n, a: IterV(reversed(list(to_iter(a[0]))))
    I[IT + "zip"] = lambda ip, n, a: IterV(A.Tuple([x, y]) for x, y in zip(to_iter(a[0]), to_iter(a[1])))
    I[IT + "take"] = lambda ip, n, a: IterV(x for _, x in zip(range(d(a[1])), to_iter(a[0])))
    I[IT + "skip"] = lambda ip, n, a: IterV(x for i, x in enumerate(to_iter(a[0])) if i >= d(a[1]))
    I[IT + "collect"] = lambda ip, n, a: collect(ip, n, a[0])
    I["itertools::Itertools::collect_vec"] = lambda ip, n, a: A.VecV(list(to_iter(a[0])))
    I[IT + "all"] = lambda ip, n, a: all(ip.truth(call_f(ip, a[1], [x])) for x in to_iter(a[0]))
    I[IT + "any"] = lambda ip, n, a: any(ip.truth(call_f(ip, a[1], [x])) for x in to_iter(a[0]))
    I[IT + "count"] = lambda ip, n, a: len(list(to_iter(a[0])))
    I[IT + "last"] = lambda ip, n, a: (lambda l: some(l[-1]) if l else none())(list(to_iter(a[0])))

    def find(ip, n, a):
        for x in to_iter(a[0]):
            if ip.truth(call_f(ip, a[1], [x])):
                return some(x)
        return none()
    I[IT + "find"] = find

    def find_map(ip, n, a):
        for x in to_iter(a[0]):
            o = d(call_f(ip, a[1], [x]))
            if o.variant == "Some":
                return o
        return none()
    I[IT + "find_map"] = find_map

    def fold(ip, n, a):
        acc = a[1]
        for x in to_iter(a[0]):
            acc = call_f(ip, a[2], [acc, x])
        return acc
    I[IT + "fold"] = fold

    def for_each(ip, n, a):
        for x in to_iter(a[0]):
            call_f(ip, a[1], [x])
        return unit()
    I[IT + "for_each"] = for_each

    def sorted_by_key(ip, n, a):
        items = list(to_iter(a[0]))
        items.sort(key=lambda x: sk(call_f(ip, a[1], [x])))
        return IterV(items)
    I["itertools::Itertools::sorted_by_key"] = sorted_by_key
    I["itertools::Itertools::sorted"] = lambda ip, n, a: IterV(sorted(list(to_iter(a[0])), key=sk))
    I["core::iter::sources::empty::empty"] = lambda ip, n, a: IterV([])
    I["core::iter::sources::once::once"] = lambda ip, n, a: IterV([a[0]])

    # ---- Vec / slices / VecDeque
    I[VEC + "new"] = lambda ip, n, a: A.VecV([])
    I[VEC + "with_capacity"] = lambda ip, n, a: A.VecV([])
    I["alloc::vec::Vec::<T>::new"] = lambda ip, n, a: A.VecV([])
    I["alloc::vec::Vec::<T>::with_capacity"] = lambda ip, n, a: A.VecV([])
    I[VEC + "push"] = lambda ip, n, a: (d(a[0]).items.append(a[1]), unit())[1]
    I[VEC + "pop"] = lambda ip, n, a: some(d(a[0]).items.pop()) if d(a[0]).items else none()
    I[VEC + "len"] = lambda ip, n, a: len(d(a[0]).items)
    I[VEC + "is_empty"] = lambda ip, n, a: len(d(a[0]).items) == 0
    def extend(ip, n, a):
        c = d(a[0])
        new = list(to_iter(a[1]))
        if isinstance(c, A.VecV):
            c.items.extend(new)
        elif isinstance(c, MapV):
            for t in new:
                t = d(t)
                c.insert(t.elems[0], t.elems[1])
        elif isinstance(c, SetV):
            for x in new:
                c.d[sk(x)] = x
        else:
            raise A.Unsupported("extend of %r" % (c,))
        return unit()
    I[VEC + "extend"] = extend
    I["core::iter::traits::collect::Extend::extend"] = I[VEC + "extend"]
    I[VEC + "clear"] = lambda ip, n, a: (d(a[0]).items.clear(), unit())[1]
    I[VEC + "retain"] = lambda ip, n, a: (d(a[0]).items.__setitem__(slice(None), [x for x in d(a[0]).items if ip.truth(call_f(ip, a[1], [x]))]), unit())[1]
    I[VEC + "as_slice"] = lambda ip, n, a: a[0]
    I[SL + "iter"] = lambda ip, n, a: to_iter(a[0])
    I[SL + "len"] = lambda ip, n, a: len(d(a[0]).items)
    I[SL + "is_empty"] = lambda ip, n, a: len(d(a[0]).items) == 0
    I[SL + "first"] = lambda ip, n, a: some(d(a[0]).items[0]) if d(a[0]).items else none()
    I[SL + "last"] = lambda ip, n, a: some(d(a[0]).items[-1]) if d(a[0]).items else none()
    I[SL + "contains"] = lambda ip, n, a: any(ip.binop("==", x, a[1], n) for x in d(a[0]).items)
    I[SL + "get"] = lambda ip, n, a: some(d(a[0]).items[d(a[1])]) if isinstance(d(a[1]), int) and 0 <= d(a[1]) < len(d(a[0]).items) else none()
    I[SL + "to_vec"] = lambda ip, n, a: A.VecV(list(d(a[0]).items))
    I[SL + "get_mut"] = I[SL + "get"]
    I[SL + "last_mut"] = I[SL + "last"]
    I[SL + "first_mut"] = I[SL + "first"]

    # ---- BTreeMap / BTreeSet (HashMap modelled alike)
    for M in (BM, "std::collections::hash::map::HashMap::<K, V, S>::", "std::collections::hash::map::HashMap::<K, V, S, A>::"):
        I[M + "new"] = lambda ip, n, a: MapV()
        I[M + "get"] = lambda ip, n, a: (lambda v: some(v) if v is not None else none())(d(a[0]).get(a[1]))
        I[M + "contains_key"] = lambda ip, n, a: d(a[0]).get(a[1]) is not None
        I[M + "insert"] = lambda ip, n, a: (lambda v: some(v) if v is not None else none())(d(a[0]).insert(a[1], a[2]))
        I[M + "remove"] = lambda ip, n, a: (lambda v: some(v) if v is not None else none())(d(a[0]).remove(a[1]))
        I[M + "is_empty"] = lambda ip, n, a: len(d(a[0]).d) == 0
        I[M + "len"] = lambda ip, n, a: len(d(a[0]).d)
        I[M + "keys"] = lambda ip, n, a: IterV(k for k, _ in d(a[0]).items())
        I[M + "values"] = lambda ip, n, a: IterV(v for _, v in d(a[0]).items())
        I[M + "iter"] = lambda ip, n, a: to_iter(a[0])
    I[BM.replace("::<K, V, A>::", "::<K, V>::") + "new"] = lambda ip, n, a: MapV()

    def _bounds(rng):
        """(lo, lo_inclusive, hi, hi_inclusive) sort keys of a RangeBounds value (tuple of Bound, or a std range struct)."""
        rng = d(rng)
        lo = hi = None
        loi = hii = True
        if isinstance(rng, A.Tuple) and len(rng.elems) == 2:
            for side, b in enumerate(rng.elems):
                b = d(b)
                if not isinstance(b, A.Enum) or b.variant not in ("Included", "Excluded", "Unbounded"):
                    raise A.Unsupported("range bound %r" % (b,))
                if b.variant != "Unbounded":
                    k = sk(b.fields[0])
                    if side == 0:
                        lo, loi = k, b.variant == "Included"
                    else:
                        hi, hii = k, b.variant == "Included"
            return lo, loi, hi, hii
        if isinstance(rng, A.Struct) and rng.adt.startswith("core::ops::range::Range"):
            if "start" in rng.fields:
                lo = sk(rng.fields["start"])
            if "end" in rng.fields:
                hi, hii = sk(rng.fields["end"]), "Inclusive" in rng.adt
            return lo, loi, hi, hii
        raise A.Unsupported("range argument %r" % (rng,))

    def map_range(ip, n, a):
        lo, loi, hi, hii = _bounds(a[1])

        def inside(k):
            kk = sk(k)
            if lo is not None and (kk < lo or (kk == lo and not loi)):
                return False
            if hi is not None and (kk > hi or (kk == hi and not hii)):
                return False
            return True
        return IterV(A.Tuple([k, v]) for k, v in d(a[0]).items() if inside(k))
    I[BM + "range"] = map_range
    I["std::collections::hash::set::HashSet::<T>::new"] = lambda ip, n, a: SetV()
    I["std::collections::hash::map::HashMap::<K, V>::new"] = lambda ip, n, a: MapV()
    for S in (BS, "std::collections::hash::set::HashSet::<T, S>::", "std::collections::hash::set::HashSet::<T, S, A>::"):
        I[S + "new"] = lambda ip, n, a: SetV()
        I[S + "contains"] = lambda ip, n, a: sk(a[1]) in d(a[0]).d
        I[S + "insert"] = lambda ip, n, a: (lambda s, k: (False if sk(k) in s.d else (s.d.__setitem__(sk(k), k), True)[1]))(d(a[0]), a[1])
        I[S + "is_empty"] = lambda ip, n, a: len(d(a[0]).d) == 0
        I[S + "len"] = lambda ip, n, a: len(d(a[0]).d)
        I[S + "iter"] = lambda ip, n, a: to_iter(a[0])
    I[BS.replace("::<T, A>::", "::<T>::") + "new"] = lambda ip, n, a: SetV()

    def insert_or_error(ip, n, a):
        m = d(a[0])
        if m.get(a[1]) is not None:
            return err(A.Struct("OccupiedError", {"value": a[2]}))
        m.insert(a[1], a[2])
        return ok(a[2])
    I["trustfall_core::util::BTreeMapTryInsertExt::insert_or_error"] = insert_or_error
    I["trustfall_core::util::HashMapTryInsertExt::insert_or_error"] = insert_or_error
    I["core::ptr::eq"] = lambda ip, n, a: d(a[0]) is d(a[1])
    I["core::num::nonzero::NonZero::<T>::get"] = lambda ip, n, a: d(a[0])

    def index(ip, n, a):
        base, idx = d(a[0]), d(a[1])
        if isinstance(base, A.Struct) and len(base.fields) == 1 and isinstance(list(base.fields.values())[0], A.VecV):
            base = list(base.fields.values())[0]          # newtype around a Vec with an Index impl (ComponentPath)
        if isinstance(base, A.VecV) and isinstance(idx, A.Struct) and idx.adt.startswith("core::ops::range::Range"):
            lo = d(idx.fields.get("start", 0)) if "start" in idx.fields else 0
            hi = d(idx.fields["end"]) if "end" in idx.fields else len(base.items)
            if not (0 <= lo <= hi <= len(base.items)):
                raise A.PanicReached("slice index out of range")
            return A.VecV(base.items[lo:hi])
        if isinstance(base, MapV):
            v = base.get(idx)
            if v is None:
                raise A.PanicReached("index: key not present")
            return v
        if isinstance(base, A.VecV) and isinstance(idx, int):
            if not 0 <= idx < len(base.items):
                raise A.PanicReached("index out of bounds")
            return base.items[idx]
        raise A.Unsupported("index %r[%r]" % (base, idx))
    I["index"] = index

    # ---- Option / Result
    I[OPT + "is_some"] = lambda ip, n, a: d(a[0]).variant == "Some"
    I[OPT + "is_none"] = lambda ip, n, a: d(a[0]).variant == "None"
    I[OPT + "as_ref"] = lambda ip, n, a: d(a[0])
    I[OPT + "as_deref"] = lambda ip, n, a: d(a[0])
    I[OPT + "as_mut"] = lambda ip, n, a: d(a[0])
    I[OPT + "cloned"] = lambda ip, n, a: d(a[0])
    I[OPT + "copied"] = lambda ip, n, a: d(a[0])
    I[OPT + "map"] = lambda ip, n, a: some(call_f(ip, a[1], [d(a[0]).fields[0]])) if d(a[0]).variant == "Some" else none()
    I[OPT + "and_then"] = lambda ip, n, a: call_f(ip, a[1], [d(a[0]).fields[0]]) if d(a[0]).variant == "Some" else none()
    I[OPT + "filter"] = lambda ip, n, a: d(a[0]) if d(a[0]).variant == "Some" and ip.truth(call_f(ip, a[1], [d(a[0]).fields[0]])) else none()
    I[OPT + "unwrap_or"] = lambda ip, n, a: d(a[0]).fields[0] if d(a[0]).variant == "Some" else a[1]
    I[OPT + "unwrap_or_else"] = lambda ip, n, a: d(a[0]).fields[0] if d(a[0]).variant == "Some" else call_f(ip, a[1], [])
    I[OPT + "unwrap_or_default"] = lambda ip, n, a: d(a[0]).fields[0] if d(a[0]).variant == "Some" else _default(ip, n)
    I[OPT + "map_or"] = lambda ip, n, a: call_f(ip, a[2], [d(a[0]).fields[0]]) if d(a[0]).variant == "Some" else a[1]
    I[OPT + "ok_or"] = lambda ip, n, a: ok(d(a[0]).fields[0]) if d(a[0]).variant == "Some" else err(a[1])
    I[OPT + "ok_or_else"] = lambda ip, n, a: ok(d(a[0]).fields[0]) if d(a[0]).variant == "Some" else err(call_f(ip, a[1], []))
    I[OPT + "or"] = lambda ip, n, a: d(a[0]) if d(a[0]).variant == "Some" else d(a[1])
    I[OPT + "and"] = lambda ip, n, a: d(a[1]) if d(a[0]).variant == "Some" else none()
    I[OPT + "or_else"] =lambda ip, n, a: d(a[0]) if d(a[0]).variant == "Some" else call_f(ip, a[1], [])
    I[OPT + "is_some_and"] = lambda ip, n, a: d(a[0]).variant == "Some" and ip.truth(call_f(ip, a[1], [d(a[0]).fields[0]]))
    I[OPT + "is_none_or"] = lambda ip, n, a: d(a[0]).variant == "None" or ip.truth(call_f(ip, a[1], [d(a[0]).fields[0]]))
    I[OPT + "map_or_else"] = lambda ip, n, a: call_f(ip, a[2], [d(a[0]).fields[0]]) if d(a[0]).variant == "Some" else call_f(ip, a[1], [])
    I[OPT + "xor"] = lambda ip, n, a: (d(a[0]) if d(a[1]).variant == "None" else none()) if d(a[0]).variant == "Some" else (d(a[1]) if d(a[1]).variant == "Some" else none())
    I[OPT + "zip"] = lambda ip, n, a: some(A.Tuple([d(a[0]).fields[0], d(a[1]).fields[0]])) if d(a[0]).variant == "Some" and d(a[1]).variant == "Some" else none()
    I[OPT + "flatten"] = lambda ip, n, a: d(d(a[0]).fields[0]) if d(a[0]).variant == "Some" else none()
    I[OPT + "inspect"] = lambda ip, n, a: (call_f(ip, a[1], [d(a[0]).fields[0]]), d(a[0]))[1] if d(a[0]).variant == "Some" else d(a[0])

    def transpose(ip, n, a):
        o = d(a[0])
        if o.variant == "None":
            return ok(none())
        r = d(o.fields[0])
        return ok(some(r.fields[0])) if r.variant == "Ok" else r
    I[OPT + "transpose"] = transpose
    I["core::option::Option::<core::result::Result<T, E>>::transpose"] = transpose

    def transpose_r(ip, n, a):
        r = d(a[0])
        if r.variant == "Err":
            return some(r)
        o = d(r.fields[0])
        return some(ok(o.fields[0])) if o.variant == "Some" else none()
    I["core::result::Result::<core::option::Option<T>, E>::transpose"] = transpose_r
    I[RES + "is_ok_and"] = lambda ip, n, a: d(a[0]).variant == "Ok" and ip.truth(call_f(ip, a[1], [d(a[0]).fields[0]]))
    I[RES + "is_err_and"] = lambda ip, n, a: d(a[0]).variant == "Err" and ip.truth(call_f(ip, a[1], [d(a[0]).fields[0]]))
    I[RES + "err"] = lambda ip, n, a: some(d(a[0]).fields[0]) if d(a[0]).variant == "Err" else none()
    I[RES + "unwrap_or"] = lambda ip, n, a: d(a[0]).fields[0] if d(a[0]).variant == "Ok" else a[1]
    I[RES + "unwrap_or_else"] = lambda ip, n, a: d(a[0]).fields[0] if d(a[0]).variant == "Ok" else call_f(ip, a[1], [d(a[0]).fields[0]])
    I[RES + "map_or"] = lambda ip, n, a: call_f(ip, a[2], [d(a[0]).fields[0]]) if d(a[0]).variant == "Ok" else a[1]
    I[RES + "or_else"] = lambda ip, n, a: d(a[0]) if d(a[0]).variant == "Ok" else call_f(ip, a[1], [d(a[0]).fields[0]])
    I[OPT + "take"] = lambda ip, n, a: _take(a[0])

    def unwrap(ip, n, a):
        o = d(a[0])
        if o.variant in ("Some", "Ok"):
            return o.fields[0]
        raise A.PanicReached("unwrap/expect on %s" % o.variant)
    for nm in ("unwrap", "expect"):
        I[OPT + nm] = unwrap
        I[RES + nm] = unwrap
    I[RES + "is_ok"] = lambda ip, n, a: d(a[0]).variant == "Ok"
    I[RES + "is_err"] = lambda ip, n, a: d(a[0]).variant == "Err"
    I[RES + "ok"] = lambda ip, n, a: some(d(a[0]).fields[0]) if d(a[0]).variant == "Ok" else none()
    I[RES + "map"] = lambda ip, n, a: ok(call_f(ip, a[1], [d(a[0]).fields[0]])) if d(a[0]).variant == "Ok" else d(a[0])
    I[RES + "map_err"] = lambda ip, n, a: d(a[0]) if d(a[0]).variant == "Ok" else err(call_f(ip, a[1], [d(a[0]).fields[0]]))
    I[RES + "and_then"] = lambda ip, n, a: call_f(ip, a[1], [d(a[0]).fields[0]]) if d(a[0]).variant == "Ok" else d(a[0])
    I["core::bool::<impl bool>::then_some"] = lambda ip, n, a: some(a[1]) if ip.truth(a[0]) else none()
    I["core::bool::<impl bool>::then"] = lambda ip, n, a: some(call_f(ip, a[1], [])) if ip.truth(a[0]) else none()

    # ---- `?` desugaring and conversions
    def branch(ip, n, a):
        v = d(a[0])
        CF = "core::ops::control_flow::ControlFlow"
        if v.variant in ("Ok", "Some"):
            return A.Enum(CF, "Continue", [v.fields[0]])
        return A.Enum(CF, "Break", [v])
    I["core::ops::try_trait::Try::branch"] = branch

    def from_residual(ip, n, a):
        v = d(a[0])
        if v.variant == "Err":
            # error conversion through From, if a local impl exists
            return v
        return v
    I["core::ops::try_trait::FromResidual::from_residual"] = from_residual
    I["core::ops::try_trait::Try::from_output"] = lambda ip, n, a: ok(a[0])

    # ---- integers
    def _ints(a):
        xs = [d(x) for x in a]
        if all(isinstance(x, int) and not isinstance(x, bool) for x in xs):
            return xs
        raise A.Unsupported("integer operation on %r" % (xs,))
    # floats are opaque symbols; a symbol may carry props["fclass"] in {"finite" (normal, non-zero), "zero", "subnormal", "nan", "inf",
    # "-inf"} (default finite)
    fcl = lambda x: getattr(d(x), "props", {}).get("fclass", "finite")
    I["core::f64::<impl f64>::is_finite"] = lambda ip, n, a: fcl(a[0]) in ("finite", "zero", "subnormal")
    I["core::f64::<impl f64>::is_normal"] = lambda ip, n, a: fcl(a[0]) == "finite"
    I["core::f64::<impl f64>::is_subnormal"] = lambda ip, n, a: fcl(a[0]) == "subnormal"
    I["core::f64::<impl f64>::is_nan"] = lambda ip, n, a: fcl(a[0]) == "nan"
    I["core::f64::<impl f64>::is_infinite"] = lambda ip, n, a: fcl(a[0]) in ("inf", "-inf")
    I["core::cmp::Ord::max"] = lambda ip, n, a: max(_ints(a))
    I["core::cmp::Ord::min"] = lambda ip, n, a: min(_ints(a))
    for t in ("usize", "u64", "u32", "i64"):
        I["core::num::<impl %s>::saturating_sub" % t] = lambda ip, n, a: max(0, _ints(a)[0] - _ints(a)[1])
        I["core::num::<impl %s>::saturating_add" % t] = lambda ip, n, a: _ints(a)[0] + _ints(a)[1]
        I["core::num::<impl %s>::checked_add" % t] = lambda ip, n, a: some(_ints(a)[0] + _ints(a)[1])
    I[IT + "max"] = lambda ip, n, a: (lambda l: some(max(_ints(l))) if l else none())(list(to_iter(a[0])))
    I[IT + "min"] = lambda ip, n, a: (lambda l: some(min(_ints(l))) if l else none())(list(to_iter(a[0])))
    I[IT + "sum"] = lambda ip, n, a: sum(_ints(list(to_iter(a[0]))))

    def try_from_int(ip, n, a):
        x = d(a[0])
        if isinstance(x, int) and not isinstance(x, bool):
            ty = ip.C.S(n.get("ty")) or ""
            unsigned = ty.startswith("core::result::Result<u")
            if unsigned and x < 0:
                return err(A.Sym("TryFromIntError"))
            return ok(x)
        raise A.Unsupported("try_from on %r" % (x,))
    I["core::convert::TryFrom::try_from"] = try_from_int
    I["core::convert::TryInto::try_into"] = try_from_int

    # ---- strings (names are modelled as Python str)
    I["alloc::string::ToString::to_string"] = lambda ip, n, a: d(a[0])
    I["alloc::borrow::ToOwned::to_owned"] = lambda ip, n, a: d(a[0])
    I["core::convert::AsRef::as_ref"] = lambda ip, n, a: d(a[0])
    I["alloc::sync::Arc::<T>::new"] = lambda ip, n, a: a[0]
    I["alloc::sync::Arc::<T, A>::new"] = lambda ip, n, a: a[0]
    I["alloc::boxed::Box::<T>::new"] = lambda ip, n, a: a[0]
    I["core::mem::take"] = lambda ip, n, a: _mem_take(ip, n, a[0])
    return I


def _chain(a, b):
    for x in to_iter(a):
        yield x
    for x in to_iter(b):
        yield x


def _take(ref):
    if not isinstance(ref, A.Ref):
        raise A.Unsupported("Option::take on a non-place")
    v = A.deref(ref)
    ref.set(none())
    return v


def _mem_take(ip, n, ref):
    if not isinstance(ref, A.Ref):
        raise A.Unsupported("mem::take on a non-place")
    v = A.deref(ref)
    if isinstance(v, A.VecV):
        ref.set(A.VecV([]))
    elif isinstance(v, MapV):
        ref.set(MapV())
    else:
        raise A.Unsupported("mem::take of %r" % (v,))
    return v


def _default(ip, n):
    ty = ip.C.S(n.get("ty")) or ""
    if ty.startswith("alloc::vec::Vec<"):
        return A.VecV([])
    if ty in ("u64", "usize", "i64", "u32", "i32"):
        return 0
    if ty == "bool":
        return False
    raise A.Unsupported("default of %s" % ty)


# ---- strings and chars (identifier mangling code): String = Python str held in a place, char = 1-char str ----------

def decode_format_template(tpl):
    """Decode core::fmt::Arguments' template bytes (see library/core/src/fmt/mod.rs) into
    a list of pieces: str (literal) or ("arg", index). Only option-free placeholders are supported."""
    out = []
    i = 0
    nxt = 0
    while i < len(tpl):
        b = tpl[i]
        i += 1
        if b == 0:
            if i != len(tpl):
                raise A.Unsupported("format template: data after terminator")
            return out
        if b < 0x80:
            out.append(bytes(tpl[i:i + b]).decode("utf-8"))
            i += b
        elif b == 0x80:
            ln = tpl[i] | (tpl[i + 1] << 8)
            i += 2
            out.append(bytes(tpl[i:i + ln]).decode("utf-8"))
            i += ln
        elif b & 0xC0 == 0xC0:
            if b & 0x37:
                raise A.Unsupported("format placeholder with flags/width/precision")
            idx = nxt
            if b & 0x08:
                idx = tpl[i] | (tpl[i + 1] << 8)
                i += 2
            out.append(("arg", idx))
            nxt = idx + 1
        else:
            raise A.Unsupported("format template byte %#x" % b)
    raise A.Unsupported("format template without terminator")


def _display(v):
    v = A.deref(v)
    if isinstance(v, bool):
        return "true" if v else "false"
    if isinstance(v, (str, int)):
        return str(v)
    if isinstance(v, A.Sym) and (v.ty == "f64" or "fclass" in (v.props or {})):
        return "<%s>" % v.name           # an abstract float in a message: its class name stands for the digits
    raise A.Unsupported("Display of %r" % (v,))


def string_intrinsics():
    I = {}
    d = A.deref
    STR = "core::str::<impl str>::"
    CH = "core::char::methods::<impl char>::"
    S = "alloc::string::String::"

    def set_place(ref, v):
        if not isinstance(ref, A.Ref):
            raise A.Unsupported("string mutation on a non-place")
        ref.set(v)
        return unit()

    def need_str(v):
        v = d(v)
        if not isinstance(v, str):
            raise A.Unsupported("string operation on %r" % (v,))
        return v

    I[S + "new"] = lambda ip, n, a: ""
    I[S + "with_capacity"] = lambda ip, n, a: ""
    I[S + "as_str"] = lambda ip, n, a: need_str(a[0])
    I[S + "len"] = lambda ip, n, a: len(need_str(a[0]).encode("utf-8"))
    I[S + "push"] = lambda ip, n, a: set_place(a[0], need_str(a[0]) + need_str(a[1]))
    I[S + "push_str"] = lambda ip, n, a: set_place(a[0], need_str(a[0]) + need_str(a[1]))
    I[S + "is_empty"] = lambda ip, n, a: need_str(a[0]) == ""
    I["<alloc::string::String as core::iter::traits::collect::Extend<char>>::extend"] = \
        lambda ip, n, a: set_place(a[0], need_str(a[0]) + "".join(need_str(x) for x in to_iter(a[1])))
    I[STR + "len"] = lambda ip, n, a: len(need_str(a[0]).encode("utf-8"))
    I[STR + "is_empty"] = lambda ip, n, a: need_str(a[0]) == ""
    I[STR + "chars"] = lambda ip, n, a: IterV(list(need_str(a[0])))
    I[STR + "to_lowercase"] = lambda ip, n, a: need_str(a[0]).lower()
    I[STR + "to_uppercase"] = lambda ip, n, a: need_str(a[0]).upper()
    I[STR + "to_ascii_lowercase"] = lambda ip, n, a: "".join(c.lower() if c.isascii() else c for c in need_str(a[0]))
    I[STR + "to_ascii_uppercase"] = lambda ip, n, a: "".join(c.upper() if c.isascii() else c for c in need_str(a[0]))
    for nm in ("to_lowercase", "to_uppercase", "to_ascii_lowercase", "to_ascii_uppercase"):
        I["alloc::str::<impl str>::" + nm] = I[STR + nm]
    I[STR + "starts_with"] = lambda ip, n, a: need_str(a[0]).startswith(need_str(a[1]))
    I[STR + "ends_with"] = lambda ip, n, a: need_str(a[0]).endswith(need_str(a[1]))
    I[STR + "strip_prefix"] = lambda ip, n, a: some(need_str(a[0])[len(need_str(a[1])):]) if need_str(a[0]).startswith(need_str(a[1])) else none()
    I[STR + "strip_suffix"] = lambda ip, n, a: some(need_str(a[0])[:len(need_str(a[0])) - len(need_str(a[1]))]) if need_str(a[0]).endswith(need_str(a[1])) else none()
    I[STR + "contains"] = lambda ip, n, a: need_str(a[1]) in need_str(a[0])
    I[STR + "find"] = lambda ip, n, a: some(len(need_str(a[0])[:need_str(a[0]).index(need_str(a[1]))].encode())) if need_str(a[1]) in need_str(a[0]) else none()
    def trim_matches(side):
        def f(ip, n, a):
            s, p = need_str(a[0]), need_str(a[1])
            if len(p) != 1:      # a char or one-char &str pattern: repeated removal = strip of that character
                raise A.Unsupported("trim_%s_matches with a pattern that is not one character" % side)
            return s.rstrip(p) if side == "end" else s.lstrip(p)
        return f
    I[STR + "trim_end_matches"] = trim_matches("end")
    I[STR + "trim_start_matches"] = trim_matches("start")
    I[STR + "to_string"] = lambda ip, n, a: need_str(a[0])
    I[STR + "to_owned"] = lambda ip, n, a: need_str(a[0])
    I[CH + "is_uppercase"] = lambda ip, n, a: need_str(a[0]).isupper()
    I[CH + "is_lowercase"] = lambda ip, n, a: need_str(a[0]).islower()
    I[CH + "is_ascii_uppercase"] = lambda ip, n, a: need_str(a[0]).isascii() and need_str(a[0]).isupper()
    I[CH + "is_ascii_lowercase"] = lambda ip, n, a: need_str(a[0]).isascii() and need_str(a[0]).islower()
    I[CH + "is_alphabetic"] = lambda ip, n, a: need_str(a[0]).isalpha()
    I[CH + "is_numeric"] = lambda ip, n, a: need_str(a[0]).isnumeric()
    I[CH + "is_ascii_digit"] = lambda ip, n, a: need_str(a[0]) in "0123456789"
    I[CH + "is_alphanumeric"] = lambda ip, n, a: need_str(a[0]).isalnum()
    I[CH + "to_lowercase"] = lambda ip, n, a: IterV(list(need_str(a[0]).lower()))
    I[CH + "to_uppercase"] = lambda ip, n, a: IterV(list(need_str(a[0]).upper()))
    I[CH + "to_ascii_uppercase"] = lambda ip, n, a: need_str(a[0]).upper() if need_str(a[0]).isascii() else need_str(a[0])
    I[CH + "to_ascii_lowercase"] = lambda ip, n, a: need_str(a[0]).lower() if need_str(a[0]).isascii() else need_str(a[0])

    # format!(..): hint::must_use(fmt::format(Arguments::new(template, &[Argument::new_display(&x), ..])))
    I["core::hint::must_use"] = lambda ip, n, a: a[0]
    I["alloc::fmt::format"] = lambda ip, n, a: need_str(a[0])
    I["core::fmt::rt::Argument::<'_>::new_display"] = lambda ip, n, a: _display(a[0])

    def arguments_new(ip, n, a):
        tpl = d(a[0])
        args = d(a[1])
        if not isinstance(tpl, list) or not isinstance(args, A.VecV):
            raise A.Unsupported("fmt::Arguments::new with %r" % (tpl,))
        out = []
        for p in decode_format_template(tpl):
            if isinstance(p, str):
                out.append(p)
            else:
                if p[1] >= len(args.items):
                    raise A.Unsupported("format argument index")
                out.append(need_str(args.items[p[1]]))
        return "".join(out)
    I["core::fmt::Arguments::<'a>::new"] = arguments_new
    I["core::fmt::Arguments::<'a>::from_str"] = lambda ip, n, a: need_str(a[0])
    return I
