"""Helpers over the typed AST emitted by factgen."""

CHILD_KEYS = ("init", "els", "tail", "recv", "f", "l", "r", "e", "cond", "then", "scrut",
              "body", "place", "base", "idx", "guard")
LIST_KEYS = ("stmts", "args", "elems")


def children(n):
    """Direct child expression nodes (not patterns), in evaluation order as far as it matters."""
    if not isinstance(n, dict):
        return
    k = n.get("k")
    if k == "match":
        yield n["scrut"]
        for a in n["arms"]:
            if "guard" in a:
                yield a["guard"]
            yield a["body"]
        return
    if k == "struct":
        for f in n["fields"]:
            yield f["e"]
        if "base" in n:
            yield n["base"]
        return
    for key in ("recv", "f", "scrut", "cond", "l", "place", "base", "init"):
        v = n.get(key)
        if isinstance(v, dict):
            yield v
    for key in LIST_KEYS:
        v = n.get(key)
        if isinstance(v, list):
            for x in v:
                if isinstance(x, dict):
                    yield x
    for key in ("idx", "r", "e", "then", "els", "body", "tail"):
        v = n.get(key)
        if isinstance(v, dict):
            yield v
    if k in ("let", "letx"):
        # pattern guards can hold expressions
        for g in pat_guards(n.get("pat")):
            yield g


def pat_guards(p):
    if not isinstance(p, dict):
        return
    if p.get("k") == "pguard":
        yield p["guard"]
    for key in ("sub", "alts", "pre", "post"):
        v = p.get(key)
        if isinstance(v, list):
            for x in v:
                yield from pat_guards(x)
        elif isinstance(v, dict):
            yield from pat_guards(v)
    for f in p.get("fields", []) or []:
        yield from pat_guards(f.get("pat"))


def walk(n, into_closures=True):
    """Pre-order walk over expression nodes."""
    stack = [n]
    while stack:
        x = stack.pop()
        if not isinstance(x, dict):
            continue
        yield x
        if x.get("k") == "closure" and not into_closures:
            continue
        cs = list(children(x))
        cs.reverse()
        stack.extend(cs)


def walk_with_ctx(n, ctx=(), into_closures=True):
    """Pre-order walk yielding (node, ancestors tuple)."""
    yield n, ctx
    if n.get("k") == "closure" and not into_closures:
        return
    c2 = ctx + (n,)
    for c in children(n):
        yield from walk_with_ctx(c, c2, into_closures)


def pat_binds(p):
    """All bindings introduced by a pattern: list of (bid, name)."""
    out = []

    def rec(p):
        if not isinstance(p, dict):
            return
        if p.get("k") == "bind":
            out.append((p["bid"], p["name"]))
            if "sub" in p:
                rec(p["sub"])
            return
        for key in ("sub", "alts", "pre", "post"):
            v = p.get(key)
            if isinstance(v, list):
                for x in v:
                    rec(x)
            elif isinstance(v, dict):
                rec(v)
        if "mid" in p:
            rec(p["mid"])
        for f in p.get("fields", []) or []:
            rec(f.get("pat"))
    rec(p)
    return out


def pat_variants(p):
    """Flatten or-patterns: list of alternative patterns."""
    if p.get("k") == "por":
        out = []
        for a in p["alts"]:
            out.extend(pat_variants(a))
        return out
    if p.get("k") == "pref":
        return pat_variants(p["sub"])
    return [p]


def strip(n):
    """Peel reference / deref / transparent wrappers that do not change the value."""
    while isinstance(n, dict):
        k = n.get("k")
        if k == "ref":
            n = n["e"]
        elif k == "un" and n.get("op") == "*" and "callee" not in n:
            n = n["e"]
        elif k == "un" and n.get("op") == "*":
            n = n["e"]
        elif k == "block" and not n.get("stmts") and "tail" in n:
            n = n["tail"]
        elif k == "cast":
            return n
        else:
            return n
    return n


TRANSPARENT_METHODS = {
    "clone", "as_ref", "as_deref", "deref", "borrow", "to_owned", "into", "as_str", "as_slice",
    "as_mut", "deref_mut", "borrow_mut", "to_string", "copied", "cloned", "by_ref", "as_mut_slice",
}


def ekey(n, C=None, depth=0):
    """Canonical structural key of an expression (ignores spans, refs, derefs, clones)."""
    n = strip(n)
    if not isinstance(n, dict) or depth > 12:
        return "?"
    k = n.get("k")
    if k == "local":
        return n["name"]
    if k == "field":
        return ekey(n["base"], C, depth + 1) + "." + n["name"]
    if k == "lit":
        return repr(n.get("v"))
    if k == "path":
        if "variant" in n:
            return n["adt"].split("::")[-1] + "::" + n["variant"]
        return n.get("def") or n.get("callee") or n.get("dk", "path")
    if k == "mcall":
        name = n.get("name", "?")
        if name in TRANSPARENT_METHODS and not n["args"]:
            return ekey(n["recv"], C, depth + 1)
        return "%s.%s(%s)" % (ekey(n["recv"], C, depth + 1), name,
                               ",".join(ekey(a, C, depth + 1) for a in n["args"]))
    if k == "call":
        return "%s(%s)" % (n.get("callee", "?"), ",".join(ekey(a, C, depth + 1) for a in n["args"]))
    if k == "ctor":
        return "%s::%s(%s)" % (n.get("adt", "?").split("::")[-1], n.get("variant", "?"),
                                ",".join(ekey(a, C, depth + 1) for a in n["args"]))
    if k == "bin":
        return "(%s %s %s)" % (ekey(n["l"], C, depth + 1), n["op"], ekey(n["r"], C, depth + 1))
    if k == "un":
        return "(%s%s)" % (n["op"], ekey(n["e"], C, depth + 1))
    if k == "index":
        return "%s[%s]" % (ekey(n["base"], C, depth + 1), ekey(n["idx"], C, depth + 1))
    if k == "tuple":
        return "(%s)" % ",".join(ekey(a, C, depth + 1) for a in n["elems"])
    if k == "ucall":
        return "%s(%s)" % (ekey(n["f"], C, depth + 1), ",".join(ekey(a, C, depth + 1) for a in n["args"]))
    return k or "?"


def callee_of(n):
    """Resolved callee path of a call-like node (impl method if resolved, else declared)."""
    return n.get("resolved") or n.get("callee")


def is_call_to(n, *suffixes):
    if n.get("k") not in ("call", "mcall", "bin", "un", "index", "assign", "path"):
        return False
    c = n.get("callee")
    r = n.get("resolved")
    for s in suffixes:
        if (c and c.endswith(s)) or (r and r.endswith(s)):
            return True
    return False


def calls_in(n, into_closures=True):
    for x in walk(n, into_closures):
        if x.get("k") in ("call", "mcall") or (x.get("k") in ("bin", "un", "index", "assign") and "callee" in x):
            yield x


def mac_chain(C, n):
    m = n.get("mac")
    if m is None:
        return []
    return C.S(m).split(">")


def in_macro(C, n, name):
    return name in mac_chain(C, n)


# ---- boolean formulas -------------------------------------------------------------------------

def bool_formula(n, atom_key):
    """Turn a boolean expression into a nested tuple formula over atoms.
    atom_key(node) -> hashable key (or None to use ekey)."""
    n = strip(n)
    k = n.get("k")
    if k == "bin" and n["op"] in ("&&", "||") and "callee" not in n:
        return (n["op"], bool_formula(n["l"], atom_key), bool_formula(n["r"], atom_key))
    if k == "bin" and n["op"] in ("&", "|") and "callee" not in n:
        return ("&&" if n["op"] == "&" else "||", bool_formula(n["l"], atom_key), bool_formula(n["r"], atom_key))
    if k == "un" and n["op"] == "!" and "callee" not in n:
        return ("!", bool_formula(n["e"], atom_key))
    if k == "lit" and n.get("lk") == "bool":
        return ("const", bool(n["v"]))
    if k == "if" and "els" in n:
        c = bool_formula(n["cond"], atom_key)
        t = bool_formula(n["then"], atom_key)
        e = bool_formula(n["els"], atom_key)
        return ("||", ("&&", c, t), ("&&", ("!", c), e))
    a = atom_key(n)
    return ("atom", a if a is not None else ekey(n))


def formula_atoms(f, out=None):
    if out is None:
        out = []
    if f[0] == "atom":
        if f[1] not in out:
            out.append(f[1])
    elif f[0] == "const":
        pass
    else:
        for x in f[1:]:
            formula_atoms(x, out)
    return out


def eval_formula(f, env):
    t = f[0]
    if t == "atom":
        return env[f[1]]
    if t == "const":
        return f[1]
    if t == "!":
        return not eval_formula(f[1], env)
    if t == "&&":
        return eval_formula(f[1], env) and eval_formula(f[2], env)
    if t == "||":
        return eval_formula(f[1], env) or eval_formula(f[2], env)
    raise ValueError(t)


def truth_table(f, atoms):
    """dict: tuple of atom values -> bool"""
    import itertools
    tt = {}
    for vals in itertools.product([False, True], repeat=len(atoms)):
        env = dict(zip(atoms, vals))
        tt[vals] = eval_formula(f, env)
    return tt


# ---- comparisons ------------------------------------------------------------------------------

FLIP = {"<": ">", "<=": ">=", ">": "<", ">=": "<=", "==": "==", "!=": "!="}
NEG = {"<": ">=", "<=": ">", ">": "<=", ">=": "<", "==": "!=", "!=": "=="}
CMP_METHODS = {"lt": "<", "le": "<=", "gt": ">", "ge": ">=", "eq": "==", "ne": "!="}


def comparison(n):
    """If n is a comparison return (op, left, right) else None. Handles `a < b`, a.lt(b)."""
    n = strip(n)
    k = n.get("k")
    if k == "bin" and n["op"] in FLIP:
        return n["op"], n["l"], n["r"]
    if k == "mcall" and n.get("name") in CMP_METHODS and len(n["args"]) == 1 and \
            (n.get("trait") or "").startswith("core::cmp::Partial"):
        return CMP_METHODS[n["name"]], n["recv"], n["args"][0]
    if k == "call" and n.get("name") in CMP_METHODS and len(n["args"]) == 2 and \
            (n.get("trait") or "").startswith("core::cmp::Partial"):
        return CMP_METHODS[n["name"]], n["args"][0], n["args"][1]
    return None
