"""Fact extraction (drives factgen under cargo +nightly check) and loading.

Nothing here runs trustfall code: cargo *checks* /repo with the factgen driver as
RUSTC_WORKSPACE_WRAPPER, which dumps rustc's resolved HIR/MIR facts as JSON.
"""
import fcntl
import glob
import hashlib
import json
import os
import re
import shutil
import subprocess
import sys
import time

VERIF = os.path.dirname(os.path.dirname(os.path.dirname(os.path.abspath(__file__))))
REPO = os.environ.get("TFV_REPO", "/repo")
CACHE = os.environ.get("TFV_CACHE") or os.path.join(VERIF, ".cache")
DRIVER = os.path.join(VERIF, "engine", "factgen", "target", "release", "factgen")

MEMBERS = [
    "trustfall", "trustfall_core", "trustfall_testbin", "trustfall_filetests_macros",
    "trustfall_derive", "trustfall_stubgen", "trustfall_wasm", "pytrustfall",
    "demo-hytradboi", "schemaless", "schemaless_wasm",
]
# crate (lib) names of the members, for fingerprint deletion
MEMBER_FPRINT = MEMBERS + ["demo_hytradboi"]

QUICK_PKGS = ["trustfall_core", "trustfall_stubgen", "pytrustfall"]


def tree_hash(repo=None):
    repo = repo or REPO
    h = hashlib.sha256()
    files = []
    for root, dirs, fs in os.walk(repo):
        dirs[:] = sorted(d for d in dirs if d not in ("target", ".git", "node_modules", ".venv"))
        for f in sorted(fs):
            if f.endswith((".rs", ".toml", ".graphql", ".lock")):
                files.append(os.path.join(root, f))
    for p in files:
        try:
            with open(p, "rb") as fh:
                data = fh.read()
        except OSError:
            continue
        h.update(os.path.relpath(p, repo).encode())
        h.update(b"\0")
        h.update(hashlib.sha256(data).digest())
    return h.hexdigest()[:20], len(files)


def _sysroot():
    return subprocess.check_output(["rustc", "+nightly", "--print", "sysroot"], text=True).strip()


def build_driver():
    env = dict(os.environ, CARGO_NET_OFFLINE="true")
    r = subprocess.run(
        ["cargo", "build", "--release", "--offline"],
        cwd=os.path.join(VERIF, "engine", "factgen"), env=env,
        stdout=subprocess.PIPE, stderr=subprocess.STDOUT, text=True)
    if r.returncode != 0 or not os.path.exists(DRIVER):
        sys.stderr.write(r.stdout)
        raise SystemExit("tfv: cannot build factgen driver")


def _driver_stamp():
    h = hashlib.sha256()
    for p in sorted(glob.glob(os.path.join(VERIF, "engine", "factgen", "src", "*.rs"))):
        h.update(open(p, "rb").read())
    return h.hexdigest()[:12]


def ensure_facts(tier="quick", repo=None, cache=None, log=None):
    """Return the directory holding the fact files for the current tree of `repo`.

    quick: lib targets of QUICK_PKGS.  thorough: whole workspace, all targets.
    Facts are keyed by a content hash of the tree, so every edit to /repo forces a new extraction.
    """
    repo = repo or REPO
    cache = cache or CACHE
    os.makedirs(cache, exist_ok=True)
    lock = open(os.path.join(cache, "lock"), "w")
    fcntl.flock(lock, fcntl.LOCK_EX)
    try:
        if not os.path.exists(DRIVER) or _stale_driver(cache):
            build_driver()
            with open(os.path.join(cache, "driver.stamp"), "w") as f:
                f.write(_driver_stamp())
        th, nfiles = tree_hash(repo)
        key = "%s-%s-%s" % (th, _driver_stamp(), tier)
        out = os.path.join(cache, "facts", key)
        done = os.path.join(out, "DONE")
        if os.path.exists(done):
            return out, th, nfiles
        # a thorough fact set also serves quick
        alt = os.path.join(cache, "facts", "%s-%s-thorough" % (th, _driver_stamp()))
        if tier == "quick" and os.path.exists(os.path.join(alt, "DONE")):
            return alt, th, nfiles
        if os.path.exists(out):
            shutil.rmtree(out)
        os.makedirs(out)
        target = os.environ.get("TFV_TARGET") or os.path.join(cache, "target")
        fp = os.path.join(target, "debug", ".fingerprint")
        if os.path.isdir(fp):
            for d in os.listdir(fp):
                base = d.rsplit("-", 1)[0]
                if base in MEMBER_FPRINT:
                    shutil.rmtree(os.path.join(fp, d), ignore_errors=True)
        env = dict(os.environ)
        env.update({
            "LD_LIBRARY_PATH": _sysroot() + "/lib",
            "RUSTFLAGS": "-Zmir-opt-level=0 -Awarnings",
            "RUSTC_WORKSPACE_WRAPPER": DRIVER,
            "FACTGEN_OUT": out,
            "FACTGEN_TREE_HASH": th,
            "CARGO_TARGET_DIR": target,
            "CARGO_NET_OFFLINE": "true",
            "CARGO_INCREMENTAL": "0",
        })
        env.pop("RUSTC_WRAPPER", None)
        cmd = ["cargo", "+nightly", "check", "--offline"]
        if tier == "thorough":
            cmd += ["--workspace", "--all-targets"]
        else:
            for p in QUICK_PKGS:
                cmd += ["-p", p]
        t0 = time.time()
        r = subprocess.run(cmd, cwd=repo, env=env, stdout=subprocess.PIPE,
                           stderr=subprocess.STDOUT, text=True)
        if r.returncode != 0:
            sys.stderr.write(r.stdout[-6000:])
            shutil.rmtree(out, ignore_errors=True)
            raise SystemExit("tfv: cargo check of %s failed (tree does not build); no verdict" % repo)
        need = ["trustfall_core--trustfall_core-rlib-default.json"]
        for n in need:
            if not os.path.exists(os.path.join(out, n)):
                shutil.rmtree(out, ignore_errors=True)
                raise SystemExit("tfv: expected fact file %s was not produced (driver skipped?)" % n)
        with open(done, "w") as f:
            f.write(json.dumps({"tree_hash": th, "files": nfiles, "extract_s": round(time.time() - t0, 1),
                                "cmd": " ".join(cmd)}))
        _prune(os.path.join(cache, "facts"), keep=4)
        return out, th, nfiles
    finally:
        fcntl.flock(lock, fcntl.LOCK_UN)
        lock.close()


def _stale_driver(cache):
    try:
        return open(os.path.join(cache, "driver.stamp")).read().strip() != _driver_stamp()
    except OSError:
        return True


def _prune(d, keep):
    ents = [os.path.join(d, e) for e in os.listdir(d)]
    ents.sort(key=lambda p: os.path.getmtime(p), reverse=True)
    for p in ents[keep:]:
        shutil.rmtree(p, ignore_errors=True)


class Crate:
    """One fact file, with interned strings resolved on access."""

    def __init__(self, path):
        with open(path) as f:
            d = json.load(f)
        self.file = os.path.basename(path)
        self.meta = d["meta"]
        self.strs = d["strs"]
        self.fns = d["fns"]
        self.mir = d["mir"]
        self.adts = d["adts"]
        self.impls = d["impls"]
        self.statics = d["statics"]
        if self.meta.get("tree_hash") is None:
            raise SystemExit("fact file without tree hash: " + path)
        self._canonicalise_renames()
        self._by_path = {}
        for f in self.fns:
            self._by_path.setdefault(f["path"], []).append(f)
        self.mir_by_path = {m["path"]: m for m in self.mir}
        self.adt_by_path = _MovedLookup({a["path"]: a for a in self.adts})

    def S(self, i):
        if i is None:
            return None
        if isinstance(i, int):
            return self.strs[i]
        return i

    def loc(self, sp):
        if not sp:
            return "?"
        return "%s:%d" % (self.strs[sp[0]], sp[1])

    _LT = re.compile(r"(?<=[<&( ,])'[a-z_][a-z0-9_]*(?=[>, ])")

    def fn(self, path):
        fs = self._by_path.get(path)
        if not fs and "'" in path:
            # lifetime parameter names are not identity (`Edge::<'a>::to_many` = `Edge::<'schema>::to_many`)
            if not hasattr(self, "_by_norm"):
                self._by_norm = {}
                for f in self.fns:
                    self._by_norm.setdefault(self._LT.sub("'_", f["path"]), []).append(f)
            fs = self._by_norm.get(self._LT.sub("'_", path))
        if not fs:
            fs = self._moved_fn(path)
        if not fs:
            return None
        return fs[0]

    # ---- renamed / moved functions --------------------------------------------------------------------------------------
    # rules/anchors_ref.json holds, for every non-test function of the reference tree (the tree the rules were confirmed on), a
    # fingerprint of its body: the names it calls, the fields it reads, the variants and string literals it mentions. When a rule
    # asks for a function by a path that no longer exists, the function that took its place is looked for among the functions
    # whose path did not exist in the reference tree: the one whose fingerprint is closest, if it is close (Jaccard >= 0.6) and
    # clearly closer than the runner-up. That is a rename or a move; anything less certain stays "not found" (fail closed).
    def fingerprint(self, f):
        toks = set()
        stack = [f.get("body")]
        while stack:
            n = stack.pop()
            if isinstance(n, list):
                stack.extend(n)
                continue
            if not isinstance(n, dict):
                continue
            k = n.get("k")
            if k in ("call", "mcall") and n.get("name"):
                toks.add("c:" + str(n["name"]))
            elif k == "field" and n.get("name"):
                toks.add("f:" + str(n["name"]))
            elif k == "lit" and n.get("lk") == "str" and isinstance(n.get("v"), str) and len(n["v"]) < 60:
                toks.add("s:" + n["v"])
            if n.get("variant"):
                toks.add("v:" + str(n["variant"]))
            for key, v in n.items():
                if key not in ("ty", "sp") and isinstance(v, (dict, list)):
                    stack.append(v)
        toks.add("p:%d" % len(f.get("params") or []))
        return sorted(toks)

    def _ref(self):
        if not hasattr(self, "_ref_cache"):
            p = os.path.join(VERIF, "rules", "anchors_ref.json")
            self._ref_cache = {}
            if os.path.exists(p):
                with open(p) as fh:
                    self._ref_cache = json.load(fh).get(self.file.split("--")[0], {})
        return self._ref_cache

    def renamed_from(self, f):
        """Reference path of a function of the current tree that is a rename / move of a reference-tree function (else its own path)."""
        self._match_renames()
        return self._new_to_old.get(f["path"], f["path"])

    def _match_renames(self):
        if hasattr(self, "_old_to_new"):
            return
        self._old_to_new, self._new_to_old = {}, {}
        ref = self._ref()
        if not ref:
            return
        cur = {f["path"]: f for f in self.fns if "::tests::" not in f["path"] and "::test::" not in f["path"] and f.get("body")}
        gone = [p for p in ref if not p.startswith("__") and p not in cur and self._LT.sub("'_", p) not in {self._LT.sub("'_", q) for q in cur}]
        new = [p for p in cur if p not in ref and "{" not in p]
        if not gone or not new:
            return
        fps = {p: set(self.fingerprint(cur[p])) for p in new}
        pairs = []
        for g in gone:
            a = set(ref[g])
            if len(a) < 3:
                continue
            scored = sorted(((len(a & fps[p]) / float(len(a | fps[p]) or 1), p) for p in new), reverse=True)
            if scored and scored[0][0] >= 0.6 and (len(scored) == 1 or scored[0][0] - scored[1][0] >= 0.1):
                pairs.append((scored[0][0], g, scored[0][1]))
        for s, g, p in sorted(pairs, reverse=True):
            if g not in self._old_to_new and p not in self._new_to_old:
                self._old_to_new[g] = p
                self._new_to_old[p] = g

    def _canonicalise_moved_types(self):
        """A struct / enum of the reference tree that is gone from its path while exactly one type of the same name exists at a path
        the reference tree did not have was moved to another module: every occurrence of its new path (type texts, `adt` fields,
        paths of its methods and impls) is rewritten to the reference path."""
        self.moved_types = {}
        ref = self._ref().get("__adts__") if isinstance(self._ref(), dict) else None
        if not ref:
            return
        cur = {a["path"] for a in self.adts}
        refset = set(ref)
        for old in ref:
            if old in cur or "::tests::" in old:
                continue
            name = old.rsplit("::", 1)[-1]
            cand = [p for p in cur if p.rsplit("::", 1)[-1] == name and p not in refset and p.split("::")[0] == old.split("::")[0] and "::tests::" not in p]
            if len(cand) == 1:
                self.moved_types[cand[0]] = old
        if not self.moved_types:
            return
        pats = [(re.compile(r"(?<![A-Za-z0-9_:])" + re.escape(new) + r"(?![A-Za-z0-9_])"), old) for new, old in self.moved_types.items()]

        def sub(s):
            for pat, old in pats:
                if pat.pattern and old.rsplit("::", 1)[-1] in s:
                    s = pat.sub(old, s)
            return s

        stack = [self.strs, self.fns, self.mir, self.adts, self.impls, self.statics]
        while stack:
            x = stack.pop()
            it = x.items() if isinstance(x, dict) else enumerate(x)
            for k, v in list(it):
                if isinstance(v, str):
                    if "::" in v:
                        x[k] = sub(v)
                elif isinstance(v, (dict, list)):
                    stack.append(v)

    def _canonicalise_renames(self):
        """Present every function recognised as a rename / move of a reference-tree function under its reference path - in its own
        record, in every call / path node that names it and in the MIR call lists - so that rules, audit keys and known-finding keys
        written against the reference names keep matching. Source locations are untouched (reports point at the real code)."""
        self._canonicalise_moved_types()
        self._match_renames()
        m = self._new_to_old
        self.renames = dict(m)
        self.renames.update(self.moved_types)
        if not m:
            return

        def fix(s):
            if not isinstance(s, str):
                return s
            if s in m:
                return m[s]
            for new, old in m.items():
                if s.startswith(new + "::{"):
                    return old + s[len(new):]
            return s
        for f in self.fns:
            stack = [f.get("body")]
            while stack:
                n = stack.pop()
                if isinstance(n, list):
                    stack.extend(n)
                    continue
                if not isinstance(n, dict):
                    continue
                for key in ("callee", "resolved", "def"):
                    v = n.get(key)
                    if isinstance(v, str):
                        w = fix(v)
                        if w != v:
                            n[key] = w
                            if key == "callee" and n.get("k") in ("call", "mcall"):
                                n["name"] = w.rsplit("::", 1)[-1]
                for key, v in n.items():
                    if key not in ("ty", "sp") and isinstance(v, (dict, list)):
                        stack.append(v)
            p = fix(f["path"])
            if p != f["path"]:
                f["path"] = p
                if "{" not in p.rsplit("::", 1)[-1]:
                    f["name"] = p.rsplit("::", 1)[-1]
        for mrec in self.mir:
            mrec["path"] = fix(mrec["path"])
            for c in mrec.get("calls", []) + mrec.get("fnrefs", []):
                for key in ("callee", "resolved"):
                    if isinstance(c.get(key), str):
                        c[key] = fix(c[key])

    def _renamed_fn(self, path):
        self._match_renames()
        p = self._old_to_new.get(path)
        return self._by_path.get(p) if p else None

    def _moved_fn(self, path):
        r = self._renamed_fn(path)
        if r:
            return r
        return self._moved_unique(path)

    def _moved_unique(self, path):
        """A *free* function that was moved to another module of the same crate keeps its identity when its name is unique among
        the crate's free functions (outside test modules). Methods are addressed through their type, which has its own rule."""
        if "<" in path or path.count("::") < 2:
            return None
        crate, name = path.split("::")[0], path.rsplit("::", 1)[-1]
        if not hasattr(self, "_free_by_name"):
            self._free_by_name = {}
            for f in self.fns:
                p = f["path"]
                if "<" in p or "{" in p or "::tests::" in p or "::test::" in p or f.get("self_ty") or f.get("impl_trait"):
                    continue
                self._free_by_name.setdefault((p.split("::")[0], p.rsplit("::", 1)[-1]), []).append(f)
        c = self._free_by_name.get((crate, name), [])
        return c if len(c) == 1 else None

    def fns_where(self, pred):
        return [f for f in self.fns if pred(f)]


class _MovedLookup(dict):
    """path -> ADT. A type that was moved to another module of the same crate keeps its identity when no other type of the crate
    has its name: a lookup by the old path finds it (so does `in` / `get`)."""

    def _alt(self, k):
        if not isinstance(k, str) or "::" not in k:
            return None
        crate, name = k.split("::")[0], k.rsplit("::", 1)[-1]
        c = [p for p in dict.keys(self) if p.split("::")[0] == crate and p.rsplit("::", 1)[-1] == name and "::tests::" not in p]
        return c[0] if len(c) == 1 else None

    def __missing__(self, k):
        a = self._alt(k)
        if a is None:
            raise KeyError(k)
        return dict.__getitem__(self, a)

    def __contains__(self, k):
        return dict.__contains__(self, k) or self._alt(k) is not None

    def get(self, k, default=None):
        if dict.__contains__(self, k):
            return dict.__getitem__(self, k)
        a = self._alt(k)
        return dict.__getitem__(self, a) if a is not None else default


_CRATES = {}


def load(factdir, name):
    """name: file name without directory, e.g. 'trustfall_core--trustfall_core-rlib-default.json'"""
    p = os.path.join(factdir, name)
    if p not in _CRATES:
        if not os.path.exists(p):
            raise SystemExit("tfv: missing fact file %s (fail closed)" % p)
        _CRATES[p] = Crate(p)
    return _CRATES[p]


CORE = "trustfall_core--trustfall_core-rlib-default.json"
STUBGEN = "trustfall_stubgen--trustfall_stubgen-rlib-cli+default.json"
PYTF = "pytrustfall--trustfall-cdylib.json"
