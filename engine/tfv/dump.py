"""Debug pretty printer:  python3 -m tfv.dump <factfile> <substring of fn path>"""
import sys
from . import facts
from .tables import pat_key


def pp(C, n, ind=0, out=None):
    P = "  " * ind
    k = n.get("k")
    mac = (" «%s»" % C.S(n["mac"])) if n.get("mac") is not None else ""
    def line(s):
        print("%s%s%s  @%s" % (P, s, mac, n.get("sp", [0, 0])[1] if n.get("sp") else "?"))
    if k == "block":
        line("block")
        for s in n["stmts"]:
            pp(C, s, ind + 1)
        if "tail" in n:
            print(P + "  tail:")
            pp(C, n["tail"], ind + 2)
    elif k == "let":
        line("let %s :" % (patstr(n["pat"])))
        if "init" in n:
            pp(C, n["init"], ind + 1)
        if "els" in n:
            print(P + " else"); pp(C, n["els"], ind + 1)
    elif k == "match":
        line("match[%s]" % n["src"])
        pp(C, n["scrut"], ind + 2)
        for a in n["arms"]:
            print("%s  | %s%s =>" % (P, patstr(a["pat"]), " if ..." if "guard" in a else ""))
            if "guard" in a:
                pp(C, a["guard"], ind + 3)
            pp(C, a["body"], ind + 2)
    elif k in ("call", "mcall"):
        line("%s %s%s" % (k, n.get("callee"), (" -> " + n["resolved"]) if "resolved" in n else ""))
        if k == "mcall":
            pp(C, n["recv"], ind + 1)
        for a in n["args"]:
            pp(C, a, ind + 1)
    elif k == "closure":
        line("closure %s (%s) caps=%s" % (n["def"].split("::")[-1], ",".join(patstr(p) for p in n["params"]),
                                         [(c["name"], c["by"]) for c in n["caps"]]))
        pp(C, n["body"], ind + 1)
    elif k == "local":
        line("local %s#%d : %s" % (n["name"], n["bid"], C.S(n.get("ty"))))
    elif k == "lit":
        line("lit %r" % (n.get("v"),))
    elif k == "field":
        line("field .%s of %s" % (n["name"], n.get("adt")))
        pp(C, n["base"], ind + 1)
    elif k == "path":
        line("path %s %s" % (n.get("dk"), n.get("def") or n.get("variant")))
    elif k in ("ctor", "struct"):
        line("%s %s::%s" % (k, n.get("adt"), n.get("variant")))
        for a in n.get("args", []):
            pp(C, a, ind + 1)
        for f in n.get("fields", []):
            print("%s  .%s =" % (P, f["name"])); pp(C, f["e"], ind + 2)
    else:
        extra = ""
        if "op" in n:
            extra += " " + n["op"]
        if "callee" in n:
            extra += " " + n["callee"]
        line("%s%s" % (k, extra))
        from .tast import children
        for c in children(n):
            pp(C, c, ind + 1)


def patstr(p):
    k = p.get("k")
    if k == "bind":
        return "%s#%d" % (p["name"], p["bid"]) + (("@" + patstr(p["sub"])) if "sub" in p else "")
    if k == "pvariant":
        return "%s(%s)" % (p.get("variant"), ",".join(patstr(s) for s in p["sub"]))
    if k == "pstruct":
        return "%s{%s}" % (p.get("variant"), ",".join("%s:%s" % (f["name"], patstr(f["pat"])) for f in p["fields"]))
    if k == "ptuple":
        return "(%s)" % ",".join(patstr(s) for s in p["sub"])
    if k == "pref":
        return "&" + patstr(p["sub"])
    if k == "por":
        return " | ".join(patstr(s) for s in p["alts"])
    if k == "wild":
        return "_"
    if k == "plit":
        return repr(p.get("v"))
    return k


if __name__ == "__main__":
    C = facts.Crate(sys.argv[1])
    for f in C.fns:
        if sys.argv[2] in f["path"]:
            print("==", f["path"], C.loc(f["sp"]))
            print("  params:", [patstr(p) for p in f["params"]])
            pp(C, f["body"], 1)
