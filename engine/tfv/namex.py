"""Name expressions: how a generated identifier is computed from one schema name.

extract() turns the first argument of an `Ident::new(..)` call (or the key of a uniqueness map) into a
small term over the crate's own string helpers:
    ("leaf", desc) | ("lit", s) | ("app", fn_path, [terms]) | ("cat", [terms]) | ("opaque", why)
`format!` is decoded from rustc's lowered `fmt::Arguments::new(template, args)`; single-definition
locals are expanded; reference / clone / to_string wrappers are transparent. evaluate() computes the
term for a concrete leaf string by abstract evaluation (absint) of the helper functions' typed AST.
Nothing is executed.
"""
from . import absint as A
from . import stdmodel as M
from .tast import strip, walk

TRANSPARENT = {"clone", "as_str", "to_string", "to_owned", "as_ref", "into", "deref", "borrow", "as_deref", "as_slice"}
TRANSPARENT_CALLS = ("alloc::string::ToString::to_string", "core::convert::From::from", "core::convert::Into::into",
                     "alloc::borrow::ToOwned::to_owned", "core::clone::Clone::clone", "core::convert::AsRef::as_ref",
                     "core::hint::must_use")


STRING_INTRINSICS = {k for k in M.string_intrinsics() if k.startswith(("core::str::<impl str>::to_", "alloc::str::<impl str>::to_", "alloc::string::String::to_"))}


def short_adt(p):
    return (p or "?").split("::")[-1]


def for_loop_source(scope, d):
    """If binding definition d is the element of a `for` loop, return (projection path, iterated expression)."""
    kind, src, path, name, idx = d
    if kind != "arm" or src is None:
        return None
    s = strip(src)
    if not (s.get("k") == "call" and (s.get("callee") or "").endswith("Iterator::next")):
        return None
    it = strip(s["args"][0]) if s.get("args") else None
    if not it or it.get("k") != "local":
        return None
    di = scope.single_def(it["bid"])
    if not di or di[0] != "arm" or di[1] is None:
        return None
    into = strip(di[1])
    if into.get("k") == "call" and (into.get("callee") or "").endswith("IntoIterator::into_iter"):
        proj = tuple(st for st in path if st[0] == "tuple")
        return proj, into["args"][0]
    return None


def parse_format(scope, blk, depth):
    """`alloc::fmt::format(<block>)` -> ("cat", pieces) or opaque."""
    b = strip(blk)
    if b.get("k") == "call" and (b.get("callee") or "").endswith("Arguments::<'a>::from_str"):
        return extract(scope, b["args"][0], depth + 1)
    if b.get("k") != "block":
        return ("opaque", "format: not a block")
    tup = None
    arr = None
    for s in b.get("stmts", []):
        if s.get("k") == "let" and "init" in s:
            i = strip(s["init"])
            if i.get("k") == "tuple":
                tup = i
            elif i.get("k") == "array":
                arr = i
    tail = b.get("tail")
    new = None
    for x in walk(tail or {}):
        if x.get("k") == "call" and (x.get("callee") or "").endswith("fmt::Arguments::<'a>::new"):
            new = x
    if new is None or arr is None or tup is None:
        return ("opaque", "format: unrecognised lowering")
    tpl = strip(new["args"][0]).get("v")
    if not isinstance(tpl, list):
        return ("opaque", "format: template not a byte string")
    try:
        pieces = M.decode_format_template(tpl)
    except A.Unsupported as e:
        return ("opaque", "format: %s" % e)
    argx = []
    for a in arr["elems"]:
        a = strip(a)
        if not (a.get("k") == "call" and (a.get("callee") or "").endswith("new_display")):
            return ("opaque", "format: non-Display argument")
        fld = strip(a["args"][0])
        if fld.get("k") != "field" or not str(fld.get("name")).isdigit():
            return ("opaque", "format: argument shape")
        argx.append(tup["elems"][int(fld["name"])])
    out = []
    for p in pieces:
        if isinstance(p, str):
            out.append(("lit", p))
        else:
            if p[1] >= len(argx):
                return ("opaque", "format: argument index")
            out.append(extract(scope, argx[p[1]], depth + 1))
    return ("cat", out)


def extract(scope, e, depth=0):
    C = scope.C
    e = strip(e)
    if not isinstance(e, dict) or depth > 30:
        return ("opaque", "depth")
    k = e.get("k")
    if k == "local":
        d = scope.single_def(e["bid"])
        if d is None:
            return ("opaque", "multiply-assigned local %s" % e.get("name"))
        kind, src, path, name, idx = d
        if kind == "let" and src is not None and not path:
            return extract(scope, src, depth + 1)
        if kind == "param" and not path:
            return ("leaf", "param#%d" % idx)
        fl = for_loop_source(scope, d)
        if fl is not None:
            proj, it = fl
            inner = extract(scope, it, depth + 1)
            base = inner[1] if inner[0] == "leaf" else "expr"
            return ("leaf", "elem%s of %s" % ("".join(".%d" % st[1] for st in proj), base))
        if kind == "cparam":
            return ("leaf", "closure-param#%d" % idx)
        return ("leaf", "bind:%s" % name)
    if k == "lit" and isinstance(e.get("v"), str):
        return ("lit", e["v"])
    if k == "field":
        return ("leaf", "field:%s.%s" % (short_adt(e.get("adt")), e["name"]))
    if k == "mcall":
        if e.get("name") in TRANSPARENT and not e["args"]:
            return extract(scope, e["recv"], depth + 1)
        if e.get("name") in ("iter", "into_iter", "chain"):
            parts = [extract(scope, e["recv"], depth + 1)] + [extract(scope, a, depth + 1) for a in e["args"]]
            descs = [p[1] for p in parts if p[0] == "leaf"]
            if len(descs) == len(parts):
                return ("leaf", "+".join(descs))
        if (e.get("callee") or "") in STRING_INTRINSICS:
            return ("app", "intrinsic:" + e["callee"], [extract(scope, e["recv"], depth + 1)] + [extract(scope, a, depth + 1) for a in e["args"]])
        return ("opaque", "method %s" % e.get("name"))
    if k == "call":
        c = e.get("callee") or ""
        if c in TRANSPARENT_CALLS and e["args"]:
            return extract(scope, e["args"][0], depth + 1)
        if c == "alloc::fmt::format":
            return parse_format(scope, e["args"][0], depth)
        if C.fn(c) is not None:
            return ("app", c, [extract(scope, a, depth + 1) for a in e["args"]])
        return ("opaque", "call %s" % c)
    if k == "block" and not e.get("stmts") and "tail" in e:
        return extract(scope, e["tail"], depth + 1)
    if k == "bin" and e.get("op") == "+":
        return ("cat", [extract(scope, e["l"], depth + 1), extract(scope, e["r"], depth + 1)])
    return ("opaque", "node %s" % k)


def leaves(t, out=None):
    if out is None:
        out = []
    if t[0] == "leaf":
        if t[1] not in out:
            out.append(t[1])
    elif t[0] == "app":
        for a in t[2]:
            leaves(a, out)
    elif t[0] == "cat":
        for a in t[1]:
            leaves(a, out)
    return out


def opaque_reasons(t, out=None):
    if out is None:
        out = []
    if t[0] == "opaque":
        out.append(t[1])
    elif t[0] == "app":
        for a in t[2]:
            opaque_reasons(a, out)
    elif t[0] == "cat":
        for a in t[1]:
            opaque_reasons(a, out)
    return out


def show(t):
    if t[0] == "leaf":
        return "<%s>" % t[1]
    if t[0] == "lit":
        return repr(t[1])
    if t[0] == "app":
        return "%s(%s)" % (t[1].split("::")[-1], ", ".join(show(a) for a in t[2]))
    if t[0] == "cat":
        return " ++ ".join(show(a) for a in t[1])
    return "?%s?" % t[1]


class Evaluator:
    """Evaluate name terms on concrete leaf strings by abstract evaluation of the helper functions."""

    def __init__(self, C):
        self.C = C
        self.I = M.intrinsics()
        self.I.update(M.string_intrinsics())
        self.memo = {}
        self.calls = 0

    def call(self, path, args):
        key = (path, tuple(args))
        if key not in self.memo and path.startswith("intrinsic:"):
            self.memo[key] = self.I[path[len("intrinsic:"):]](None, None, list(args))
        if key not in self.memo:
            f = self.C.fn(path)
            if f is None:
                raise A.Unsupported("helper %s not found" % path)
            ip = A.Interp(self.C, self.I, max_steps=200000)
            self.calls += 1
            try:
                v = A.deref(ip.call_fn(f, list(args)))
            except A.PanicReached as p:
                v = ("panic", p.what)
            self.memo[key] = v
        return self.memo[key]

    def ev(self, t, leafval):
        if t[0] == "leaf":
            return leafval
        if t[0] == "lit":
            return t[1]
        if t[0] == "cat":
            parts = [self.ev(a, leafval) for a in t[1]]
            for p in parts:
                if not isinstance(p, str):
                    return p
            return "".join(parts)
        if t[0] == "app":
            args = [self.ev(a, leafval) for a in t[2]]
            for p in args:
                if not isinstance(p, str):
                    return p
            v = self.call(t[1], args)
            if not isinstance(v, (str, tuple)):
                raise A.Unsupported("helper %s returned %r" % (t[1], v))
            return v
        raise A.Unsupported("opaque name term: %s" % (t[1],))
