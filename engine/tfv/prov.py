"""Provenance over the typed AST (RK2): where does the value of an expression come from?

Scope(f) indexes every binding of one function (incl. nested closures): let / if-let / match-arm
bindings with the projection path of the pattern, parameters, closure parameters, assignments.
tokens(expr) returns the flat set of provenance tokens reachable through local bindings:
   field:<ADT>.<name>   call:<callee>   param:<name>   cparam:<name>   lit:<v>   const:<path>
   variant:<ADT>::<V>   (pattern step or constructor)      self
canon(expr) is the canonical text of expr with single-definition locals replaced by their
initializers (used for "same origin" comparisons).
"""
from .tast import walk, strip, children, TRANSPARENT_METHODS


def _pat_bindings(p, path, out):
    """out[bid] = (name, path) for every binding in pattern p; path = tuple of projection steps."""
    if not isinstance(p, dict):
        return
    k = p.get("k")
    if k == "bind":
        out[p["bid"]] = (p["name"], path, p)
        if "sub" in p:
            _pat_bindings(p["sub"], path, out)
    elif k == "pvariant":
        for i, s in enumerate(p.get("sub", [])):
            _pat_bindings(s, path + (("variant", p.get("adt"), p.get("variant"), i),), out)
    elif k == "pstruct":
        for f in p.get("fields", []):
            _pat_bindings(f["pat"], path + (("field", p.get("adt"), f["name"], p.get("variant")),), out)
    elif k == "ptuple":
        for i, s in enumerate(p.get("sub", [])):
            _pat_bindings(s, path + (("tuple", i),), out)
    elif k in ("pref", "pguard"):
        _pat_bindings(p["sub"], path, out)
    elif k == "por":
        for s in p["alts"]:
            _pat_bindings(s, path, out)
    elif k == "pslice":
        for s in p.get("pre", []) + p.get("post", []):
            _pat_bindings(s, path + (("elem",),), out)
        if "mid" in p:
            _pat_bindings(p["mid"], path, out)


class Scope:
    def __init__(self, C, f):
        self.C = C
        self.f = f
        self.defs = {}    # bid -> list of (kind, node_or_None, path, name)
        for i, p in enumerate(f.get("params", [])):
            b = {}
            _pat_bindings(p, (), b)
            for bid, (name, path, _) in b.items():
                self.defs.setdefault(bid, []).append(("param", None, path, name, i))
        self._index(f["body"])

    def _add_pat(self, kind, pat, src):
        b = {}
        _pat_bindings(pat, (), b)
        for bid, (name, path, _) in b.items():
            self.defs.setdefault(bid, []).append((kind, src, path, name, None))

    def _index(self, body):
        for n in walk(body):
            k = n.get("k")
            if k == "let":
                self._add_pat("let", n["pat"], n.get("init"))
            elif k == "letx":
                self._add_pat("let", n["pat"], n["init"])
            elif k == "match":
                for a in n["arms"]:
                    self._add_pat("arm", a["pat"], n["scrut"])
            elif k == "closure":
                for i, p in enumerate(n["params"]):
                    b = {}
                    _pat_bindings(p, (), b)
                    for bid, (name, path, _) in b.items():
                        self.defs.setdefault(bid, []).append(("cparam", n, path, name, i))
            elif k == "assign":
                pl = strip(n["place"])
                if pl.get("k") == "local":
                    self.defs.setdefault(pl["bid"], []).append(("assign", n["e"], (), pl["name"], None))

    # -------------------------------------------------------------------------------------
    def tokens(self, e, control=False, _seen=None, depth=0):
        out = set()
        self._tok(e, out, _seen if _seen is not None else set(), control, depth)
        return out

    def _tok(self, e, out, seen, control, depth):
        if not isinstance(e, dict) or depth > 40:
            return
        k = e.get("k")
        if k == "local":
            bid = e["bid"]
            if bid in seen:
                return
            seen.add(bid)
            ds = self.defs.get(bid)
            if not ds:
                out.add("unbound:%s" % e.get("name"))
                return
            for kind, src, path, name, idx in ds:
                for st in path:
                    if st[0] == "variant":
                        out.add("variant:%s::%s" % (st[1], st[2]))
                    elif st[0] == "field":
                        out.add("field:%s.%s" % (st[1], st[2]))
                if kind == "param":
                    out.add("param:%s" % name if not path else "param#%d" % idx)
                    if name == "self":
                        out.add("self")
                elif kind == "cparam":
                    out.add("cparam:%s" % name)
                    out.add("cparam@%s#%d" % (src["def"].split("::")[-1], idx))
                elif src is not None:
                    self._tok(src, out, seen, control, depth + 1)
            return
        if k == "field":
            out.add("field:%s.%s" % (e.get("adt"), e["name"]))
            if getattr(self, "qualified", False):
                out.add("q:%s" % self.canon(e))       # base-sensitive: *whose* field is read
            self._tok(e["base"], out, seen, control, depth + 1)
            return
        if k == "lit":
            out.add("lit:%r" % (e.get("v"),))
            return
        if k == "path":
            if "variant" in e:
                out.add("variant:%s::%s" % (e.get("adt"), e["variant"]))
            elif e.get("def"):
                out.add("const:%s" % e["def"])
            return
        if k in ("call", "mcall"):
            c = e.get("callee") or e.get("name") or "?"
            out.add("call:%s" % c)
            if e.get("resolved"):
                out.add("call:%s" % e["resolved"])
            # local helper: its result depends on what its own body reads (parameters are covered by the arguments below)
            if getattr(self, "follow_local_calls", False):
                g = self.C.fn(e.get("resolved") or "") or self.C.fn(e.get("callee") or "")
                stack = getattr(self, "_call_stack", ())
                if g is not None and g["path"] not in stack and len(stack) < 4 and g["path"] != self.f["path"]:
                    sub = Scope(self.C, g)
                    sub.follow_local_calls = True
                    sub.qualified = getattr(self, "qualified", False)
                    sub._call_stack = stack + (self.f["path"],)
                    # express the callee's reads in the caller's terms: parameter -> canonical argument
                    args = list(e.get("args", []))
                    if k == "mcall":
                        args = [e["recv"]] + args
                    sub.subst = {}
                    for p, a in zip(g["params"], args):
                        if p.get("k") == "bind":
                            sub.subst[p["name"]] = self.canon(a)
                    out |= {t for t in sub.tokens(g["body"], control=control) if not t.startswith(("param", "self", "unbound", "cparam"))}
        if k in ("ctor", "struct"):
            out.add("variant:%s::%s" % (e.get("adt"), e.get("variant")))
        if k == "closure":
            # value of a closure used as data: what its body returns / reads
            self._tok(e["body"], out, seen, control, depth + 1)
            return
        if k == "if":
            if control:
                self._tok(e["cond"], out, seen, control, depth + 1)
            self._tok(e["then"], out, seen, control, depth + 1)
            if "els" in e:
                self._tok(e["els"], out, seen, control, depth + 1)
            return
        if k == "match":
            if control or e.get("src") in ("TryDesugar", "ForLoopDesugar"):
                self._tok(e["scrut"], out, seen, control, depth + 1)
            for a in e["arms"]:
                self._tok(a["body"], out, seen, control, depth + 1)
            return
        if k == "block":
            if "tail" in e:
                self._tok(e["tail"], out, seen, control, depth + 1)
            # early returns inside the block are values of the enclosing fn, not of the block
            return
        for c in children(e):
            self._tok(c, out, seen, control, depth + 1)

    # -------------------------------------------------------------------------------------
    def single_def(self, bid):
        ds = self.defs.get(bid)
        if ds and len(ds) == 1:
            return ds[0]
        return None

    def canon(self, e, depth=0, seen=()):
        """Canonical text with single-definition let-locals expanded."""
        e = strip(e)
        if not isinstance(e, dict) or depth > 25:
            return "?"
        k = e.get("k")
        if k == "local":
            d = self.single_def(e["bid"])
            if d and d[0] in ("let", "arm") and d[1] is not None and e["bid"] not in seen:
                base = self.canon(d[1], depth + 1, seen + (e["bid"],))
                for st in d[2]:
                    if st[0] == "variant":
                        base += "~%s.%d" % (st[2], st[3])
                    elif st[0] == "field":
                        base += ".%s" % st[2]
                    elif st[0] == "tuple":
                        base += ".%d" % st[1]
                return base
            if d and d[0] == "param":
                sub = getattr(self, "subst", None)
                if sub and e["name"] in sub:
                    return sub[e["name"]]
                return e["name"]
            if d and d[0] == "cparam":
                return "%s@%s" % (e["name"], d[1]["def"].split("::")[-1])
            return e["name"] + "?"
        if k == "field":
            return self.canon(e["base"], depth + 1, seen) + "." + e["name"]
        if k == "lit":
            return repr(e.get("v"))
        if k == "path":
            if "variant" in e:
                return (e.get("adt") or "?").split("::")[-1] + "::" + e["variant"]
            return e.get("def") or e.get("callee") or "path"
        if k == "mcall":
            name = e.get("name", "?")
            r = self.canon(e["recv"], depth + 1, seen)
            if name in TRANSPARENT_METHODS and not e["args"]:
                return r
            return "%s.%s(%s)" % (r, name, ",".join(self.canon(a, depth + 1, seen) for a in e["args"]))
        if k == "call":
            return "%s(%s)" % ((e.get("callee") or "?").split("::")[-1],
                               ",".join(self.canon(a, depth + 1, seen) for a in e["args"]))
        if k == "index":
            return "%s[%s]" % (self.canon(e["base"], depth + 1, seen), self.canon(e["idx"], depth + 1, seen))
        if k == "ctor":
            return "%s::%s(%s)" % ((e.get("adt") or "?").split("::")[-1], e.get("variant"),
                                    ",".join(self.canon(a, depth + 1, seen) for a in e["args"]))
        if k == "bin":
            return "(%s %s %s)" % (self.canon(e["l"], depth + 1, seen), e["op"], self.canon(e["r"], depth + 1, seen))
        if k == "un":
            return "(%s%s)" % (e["op"], self.canon(e["e"], depth + 1, seen))
        if k == "tuple":
            return "(%s)" % ",".join(self.canon(a, depth + 1, seen) for a in e["elems"])
        if k == "match" and e.get("src") == "TryDesugar":
            return self.canon(e["scrut"], depth + 1, seen)
        if k == "block" and "tail" in e and not e["stmts"]:
            return self.canon(e["tail"], depth + 1, seen)
        return k or "?"

    def expand(self, e, depth=0):
        """Follow single-definition let-locals to the defining expression (for formulas)."""
        e = strip(e)
        while isinstance(e, dict) and e.get("k") == "local" and depth < 10:
            d = self.single_def(e["bid"])
            if d and d[0] == "let" and d[1] is not None and not d[2]:
                e = strip(d[1])
                depth += 1
            else:
                break
        return e
