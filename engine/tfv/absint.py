"""Abstract evaluation of small first-order functions over a finite domain (decision-table extraction).

The evaluator interprets the typed AST (it never runs compiled code). Values of the generic/opaque
payload type are `Sym` objects that can only be compared (through an order oracle supplied by the
rule), tested for null, cloned or moved; any other operation on them raises Unsupported and the rule
reports the function as unanalysable (fail closed). Because the analysed code touches such values only
through comparisons, the result for one representative of each order class is the result for every
member of the class, so enumerating the classes yields the complete decision table of the function.
"""
import re
from .tast import strip


class Unsupported(Exception):
    pass


class PanicReached(Exception):
    def __init__(self, what):
        self.what = what


class _Return(Exception):
    def __init__(self, v):
        self.v = v


class _Break(Exception):
    def __init__(self, v=None):
        self.v = v


class _Continue(Exception):
    pass


class Sym:
    """Opaque payload value: rank for ordering (None = incomparable), null flag, optional tag."""
    def __init__(self, name, rank=None, null=False, ty=None, props=None):
        self.name = name
        self.rank = rank
        self.null = null
        self.ty = ty
        self.props = props or {}

    def __repr__(self):
        return "Sym(%s)" % self.name


class Enum:
    def __init__(self, adt, variant, fields=()):
        self.adt = adt
        self.variant = variant
        self.fields = list(fields)

    def __repr__(self):
        return "%s(%s)" % (self.variant, ",".join(map(repr, self.fields))) if self.fields else self.variant

    def key(self):
        return (self.variant,) + tuple(f.key() if hasattr(f, "key") else getattr(f, "name", f) for f in self.fields)


class Struct:
    def __init__(self, adt, fields):
        self.adt = adt
        self.fields = dict(fields)

    def __repr__(self):
        return "%s{%s}" % (self.adt.split("::")[-1], ",".join("%s:%r" % kv for kv in self.fields.items()))


class Tuple:
    def __init__(self, elems):
        self.elems = list(elems)

    def __repr__(self):
        return "(%s)" % ",".join(map(repr, self.elems))


class Cell:
    """A mutable place (local variable)."""
    def __init__(self, v):
        self.v = v


class Ref:
    """A reference to a place (needed for `*self = ...` and mem::swap)."""
    def __init__(self, get, set):
        self.get = get
        self.set = set

    def __repr__(self):
        return "&%r" % (self.get(),)


class VecV:
    def __init__(self, items):
        self.items = list(items)

    def __repr__(self):
        return "vec%r" % (self.items,)


def deref(v):
    hops = 0
    while isinstance(v, Ref):
        v = v.get()
        hops += 1
        if hops > 10000:       # a reference cycle in the abstract store would loop forever: fail closed instead
            raise Unsupported("reference cycle in the abstract store")
    return v


def veq(a, b):
    a = deref(a)
    b = deref(b)
    if isinstance(a, Sym) and isinstance(b, Sym):
        if a.null or b.null:
            return a.null and b.null
        if a.rank is None or b.rank is None:
            if a is b:
                return True
            raise Unsupported("equality of unranked symbols")
        return a.rank == b.rank
    if isinstance(a, VecV) and isinstance(b, VecV):
        return len(a.items) == len(b.items) and all(veq(x, y) for x, y in zip(a.items, b.items))
    if isinstance(a, Enum) and isinstance(b, Enum):
        return a.variant == b.variant and len(a.fields) == len(b.fields) and all(veq(x, y) for x, y in zip(a.fields, b.fields))
    if isinstance(a, Struct) and isinstance(b, Struct):
        return a.adt == b.adt and all(veq(a.fields[k], b.fields[k]) for k in a.fields)
    if isinstance(a, Tuple) and isinstance(b, Tuple):
        return all(veq(x, y) for x, y in zip(a.elems, b.elems))
    if isinstance(a, (bool, int, str)) and isinstance(b, (bool, int, str)):
        return a == b
    raise Unsupported("equality of %r and %r" % (a, b))


class Interp:
    def __init__(self, C, intrinsics=None, inline=None, skip_macros=("debug_assert", "assert", "debug_assert_eq", "assert_eq"),
                 max_steps=20000):
        self.C = C
        self.intr = intrinsics or {}
        self.inline = inline or (lambda path: C.fn(path))
        self.skip_macros = skip_macros
        self.steps = 0
        self._impls = {}
        self.max_steps = max_steps
        self.trace = []

    # -- entry
    def call_fn(self, f, args):
        env = {}
        for p, a in zip(f["params"], args):
            if not self.bind(p, a, env):
                raise Unsupported("param pattern")
        try:
            return self.ev(f["body"], env)
        except _Return as r:
            return r.v

    def call_by_type(self, f, spec):
        """Call f with arguments matched to its parameters by *type*, not by position: spec = [(type substring, value), ...] in
        today's parameter order. A private function whose parameters were reordered (a refactoring that changes no behaviour)
        is still called correctly; parameters of the same type keep their relative order; a parameter no spec entry fits, or a
        spec entry left over, means the signature really changed - Unsupported (the rule fails closed and says so)."""
        left = [tuple(s) for s in spec]
        args = []
        for p in f["params"]:
            ty = self.C.S(p.get("ty")) or ""
            # `name:<part>` matches the parameter's name instead (for parameters that share a type, e.g. a max and a min limit)
            hit = next((i for i, s in enumerate(left)
                        if (s[0][5:] in (p.get("name") or "") if s[0].startswith("name:") else s[0] in ty)), None)
            if hit is None:
                raise Unsupported("signature of %s changed: no argument for parameter `%s: %s`" % (f["path"], p.get("name"), ty))
            args.append(left.pop(hit)[1])
        # a third element "optional" marks an argument the analysed behaviour does not depend on: the parameter may have been dropped
        left = [s for s in left if not (len(s) > 2 and s[2] == "optional")]
        if left:
            raise Unsupported("signature of %s changed: %d argument(s) have no parameter (%s)" % (f["path"], len(left), [s[0] for s in left]))
        return self.call_fn(f, args)

    # -- patterns
    def bind(self, p, v, env):
        k = p.get("k")
        if k == "wild":
            return True
        if k != "bind":
            v = deref(v)
        if k == "bind":
            if "sub" in p and not self.bind(p["sub"], v, env):
                return False
            env[p["bid"]] = Cell(v)
            return True
        if k == "pref":
            return self.bind(p["sub"], v, env)
        if k == "ptuple":
            if not isinstance(v, Tuple) or len(v.elems) != len(p["sub"]):
                raise Unsupported("tuple pattern on %r" % (v,))
            return all(self.bind(s, x, env) for s, x in zip(p["sub"], v.elems))
        if k == "pvariant":
            if not isinstance(v, Enum):
                raise Unsupported("variant pattern %s on %r" % (p.get("variant"), v))
            if v.variant != p.get("variant"):
                return False
            subs = p.get("sub", [])
            if "dotdot" in p:
                return True if not subs else all(self.bind(s, x, env) for s, x in zip(subs, v.fields))
            if len(subs) != len(v.fields):
                raise Unsupported("arity of %s" % p.get("variant"))
            return all(self.bind(s, x, env) for s, x in zip(subs, v.fields))
        if k == "pstruct":
            if isinstance(v, Struct):
                return all(self.bind(f["pat"], v.fields[f["name"]], env) for f in p["fields"])
            if isinstance(v, Enum):
                if v.variant != p.get("variant"):
                    return False
                for f in p["fields"]:
                    if not f["name"].isdigit() or int(f["name"]) >= len(v.fields):
                        raise Unsupported("named field pattern on enum value")
                    if not self.bind(f["pat"], v.fields[int(f["name"])], env):
                        return False
                return True
            raise Unsupported("struct pattern on %r" % (v,))
        if k == "por":
            for a in p["alts"]:
                e2 = {}
                if self.bind(a, v, e2):
                    env.update(e2)
                    return True
            return False
        if k == "plit":
            return veq(v, p.get("v"))
        if k == "pguard":
            e2 = dict(env)
            if not self.bind(p["sub"], v, e2):
                return False
            if self.truth(self.ev(p["guard"], e2)):
                env.update(e2)
                return True
            return False
        raise Unsupported("pattern kind %s" % k)

    def truth(self, v):
        v = deref(v)
        if isinstance(v, bool):
            return v
        raise Unsupported("non-boolean condition %r" % (v,))

    # -- places
    def place_ref(self, pl, env):
        """Ref to a place expression, or None if the expression is not a place."""
        k = pl.get("k")
        if k == "local":
            c = env.get(pl["bid"])
            if c is None:
                raise Unsupported("unbound local %s" % pl.get("name"))
            if isinstance(c.v, Ref):
                return c.v
            return Ref(lambda: c.v, lambda x: setattr(c, "v", x))
        if k == "field":
            base = deref(self.ev(pl["base"], env))
            if isinstance(base, Struct):
                name = pl["name"]
                return Ref(lambda: base.fields[name], lambda x: base.fields.__setitem__(name, x))
            return None
        if k == "un" and pl.get("op") == "*":
            v = self.ev(pl["e"], env)
            if isinstance(v, Ref):
                return v
            return None
        if k == "ref":
            return self.place_ref(pl["e"], env)
        return None

    def place_set(self, pl, v, env):
        k = pl.get("k")
        if k == "local":
            env[pl["bid"]].v = v
            return
        if k == "un" and pl.get("op") == "*":
            tgt = self.ev(pl["e"], env)
            if isinstance(tgt, Ref):
                tgt.set(v)
                return
            raise Unsupported("assignment through a non-reference %r" % (tgt,))
        if k == "field":
            base = deref(self.ev(pl["base"], env))
            if isinstance(base, Struct):
                base.fields[pl["name"]] = v
                return
            raise Unsupported("field assignment on %r" % (base,))
        raise Unsupported("assignment to %s" % k)

    # -- expressions
    def ev(self, n, env):
        self.steps += 1
        if self.steps > self.max_steps:
            raise Unsupported("step limit")
        if not isinstance(n, dict):
            raise Unsupported("non-node")
        mac = n.get("mac")
        if mac is not None:
            chain = self.C.S(mac).split(">")
            if any(m in self.skip_macros for m in chain):
                return Tuple([])
            if any(m in ("unreachable", "panic", "unimplemented", "todo") for m in chain):
                raise PanicReached([m for m in chain if m in ("unreachable", "panic", "unimplemented", "todo")][-1])
        k = n.get("k")
        if k == "local":
            c = env.get(n["bid"])
            if c is None:
                raise Unsupported("unbound local %s" % n.get("name"))
            return c.v
        if k == "lit":
            return n.get("v")
        if k in ("ref",):
            if n.get("mut"):
                r = self.place_ref(n["e"], env)
                if r is not None:
                    return r
            return self.ev(n["e"], env)
        if k == "un":
            if n["op"] == "*":
                return deref(self.ev(n["e"], env))
            if n["op"] == "!":
                v = deref(self.ev(n["e"], env))
                if isinstance(v, int) and not isinstance(v, bool):
                    # bitwise not on an integer of the node's type
                    bits, signed = self.INT_BITS.get(self.C.S(n.get("ty")) or "", (64, False))
                    r = ~v & ((1 << bits) - 1)
                    return r - (1 << bits) if signed and r >= (1 << (bits - 1)) else r
                return not self.truth(v)
            if n["op"] == "-":
                v = deref(self.ev(n["e"], env))
                if isinstance(v, int) and not isinstance(v, bool):
                    return -v
            raise Unsupported("unary %s" % n["op"])
        if k == "block":
            e2 = env  # lexical shadowing is by bid, so sharing the dict is fine
            for s in n["stmts"]:
                self.stmt(s, e2)
            if "tail" in n:
                return self.ev(n["tail"], e2)
            return Tuple([])
        if k == "let":
            self.stmt(n, env)
            return Tuple([])
        if k == "if":
            c = n["cond"]
            if self.cond(c, env):
                return self.ev(n["then"], env)
            if "els" in n:
                return self.ev(n["els"], env)
            return Tuple([])
        if k == "letx":
            return self.cond(n, env)
        if k == "match":
            v = deref(self.ev(n["scrut"], env))
            for a in n["arms"]:
                e2 = {}
                if self.bind(a["pat"], v, e2):
                    env.update(e2)
                    if "guard" in a and not self.truth(self.ev(a["guard"], env)):
                        continue
                    return self.ev(a["body"], env)
            raise Unsupported("no arm matched %r" % (v,))
        if k == "tuple":
            return Tuple([self.ev(x, env) for x in n["elems"]])
        if k == "field":
            b = deref(self.ev(n["base"], env))
            if isinstance(b, Struct):
                if n["name"] not in b.fields:
                    raise Unsupported("no field %s" % n["name"])
                return b.fields[n["name"]]
            if isinstance(b, Tuple):
                return b.elems[int(n["name"])]
            if n["name"] == "0" and isinstance(b, (int, str)):
                return b                  # newtype wrappers (Vid, Eid, NonZeroUsize) are modelled by their payload
            raise Unsupported("field %s of %r" % (n["name"], b))
        if k == "path":
            dk = n.get("dk") or ""
            if "variant" in n and "Fn" in dk and dk.startswith("Ctor"):
                ty = self.C.S(n.get("ty")) or ""
                if ty.startswith("fn(") or "{" in ty:
                    return ("fnpath", n)          # tuple-variant constructor used as a function value
            if "variant" in n:
                return Enum(n.get("adt"), n["variant"])
            if dk in ("Fn", "AssocFn"):
                return ("fnpath", n)
            h = self.intr.get("const:" + (n.get("def") or ""))
            if h is not None:
                return h(self, n, [])
            f = self.C.fn(n.get("def") or "")
            if f is not None and dk.startswith(("Const", "AssocConst", "Static")):
                return self.ev(f["body"], {})
            m = re.match(r"core::num::<impl (\w+)>::(MAX|MIN|BITS)$", n.get("def") or "")
            if m and m.group(1) in self.INT_BITS:
                bits, signed = self.INT_BITS[m.group(1)]
                return bits if m.group(2) == "BITS" else \
                    ((1 << (bits - 1)) - 1 if signed else (1 << bits) - 1) if m.group(2) == "MAX" else (-(1 << (bits - 1)) if signed else 0)
            raise Unsupported("path %s" % (n.get("def"),))
        if k == "ctor":
            if n.get("adt") == "alloc::borrow::Cow" and len(n["args"]) == 1:
                return self.ev(n["args"][0], env)          # Cow::Borrowed(x) / Cow::Owned(x) denote x
            return Enum(n.get("adt"), n.get("variant"), [self.ev(a, env) for a in n["args"]])
        if k == "struct":
            if n.get("variant") and n.get("adt") and self._is_enum(n["adt"]):
                raise Unsupported("struct-like enum variant")
            fs = {f["name"]: self.ev(f["e"], env) for f in n["fields"]}
            if "base" in n:
                b = self.ev(n["base"], env)
                for kk, vv in b.fields.items():
                    fs.setdefault(kk, vv)
            return Struct(n.get("adt"), fs)
        if k == "bin":
            op = n["op"]
            if op == "&&":
                return self.cond(n["l"], env) and self.cond(n["r"], env)
            if op == "||":
                return self.cond(n["l"], env) or self.cond(n["r"], env)
            l = self.ev(n["l"], env)
            r = self.ev(n["r"], env)
            return self.binop(op, l, r, n)
        if k == "assign":
            v = self.ev(n["e"], env)
            if "op" in n:
                cur = self.ev(n["place"], env)
                c0, v0 = deref(cur), deref(v)
                if isinstance(c0, int) and isinstance(v0, int) and not isinstance(c0, bool) and not isinstance(v0, bool):
                    v = self.binop(n["op"].rstrip("="), c0, v0, n)      # integer compound assignment (|=, &=, +=, <<=, ...)
                elif n["op"] in ("&", "&=") or n["op"].startswith("&"):
                    v = self.truth(cur) and self.truth(v)
                elif n["op"].startswith("|"):
                    v = self.truth(cur) or self.truth(v)
                else:
                    raise Unsupported("assign-op %s" % n["op"])
            self.place_set(n["place"], v, env)
            return Tuple([])
        if k == "ret":
            raise _Return(self.ev(n["e"], env) if "e" in n else Tuple([]))
        if k in ("call", "mcall"):
            return self.call(n, env)
        if k == "cast":
            return self.cast(self.ev(n["e"], env), self.C.S(n.get("ty")) or "")
        if k == "loop":
            guard = 0
            while True:
                guard += 1
                if guard > 2000:
                    raise Unsupported("loop bound")
                try:
                    self.ev(n["body"], env)
                except _Break as b:
                    return b.v if b.v is not None else Tuple([])
                except _Continue:
                    continue
        if k == "break":
            raise _Break(self.ev(n["e"], env) if "e" in n else None)
        if k == "continue":
            raise _Continue()
        if k == "index":
            base = deref(self.ev(n["base"], env))
            idx = deref(self.ev(n["idx"], env))
            f = self.inline(n.get("resolved") or "") if n.get("resolved") else None
            if f is not None:
                return self.call_fn(f, [base, idx])
            h = self.intr.get("index")
            if h is not None:
                return h(self, n, [base, idx])
            raise Unsupported("indexing")
        if k == "closure":
            return ("closure", n, env)
        if k == "ucall":
            f = self.ev(n["f"], env)
            if isinstance(f, tuple) and f and f[0] == "closure":
                return self.call_closure(f, [self.ev(a, env) for a in n["args"]])
            if isinstance(f, tuple) and f and f[0] == "fnpath":
                return self.call_path(f[1], [self.ev(a, env) for a in n["args"]])
            f = deref(f)
            if callable(f):                # an abstract function value supplied by the rule (e.g. an effect counter)
                return f(*[self.ev(a, env) for a in n["args"]])
            raise Unsupported("call of a non-closure value")
        if k == "array":
            return VecV([self.ev(x, env) for x in n["elems"]])
        raise Unsupported("node kind %s" % k)

    INT_BITS = {"i8": (8, True), "i16": (16, True), "i32": (32, True), "i64": (64, True), "i128": (128, True), "isize": (64, True),
                "u8": (8, False), "u16": (16, False), "u32": (32, False), "u64": (64, False), "u128": (128, False), "usize": (64, False)}

    def cast(self, v, to):
        """`expr as T`: integer casts wrap like Rust's (two's complement truncation); other casts keep the value."""
        v0 = deref(v)
        if to in self.INT_BITS:
            bits, signed = self.INT_BITS[to]

            def wrap(x):
                x &= (1 << bits) - 1
                return x - (1 << bits) if signed and x >= (1 << (bits - 1)) else x
            if isinstance(v0, bool):
                return int(v0)
            if isinstance(v0, int):
                return wrap(v0)
            if isinstance(v0, Sym) and v0.ty in self.INT_BITS and isinstance(v0.rank, int):
                w = wrap(v0.rank)
                if w == v0.rank and v0.ty == to:
                    return v0
                return Sym("%s as %s" % (v0.name, to), rank=w, ty=to)
            if isinstance(v0, Sym) and v0.ty in ("f64", "f32"):
                raise Unsupported("float-to-int cast")
        if to in ("f64", "f32") and isinstance(v0, Sym) and v0.ty in self.INT_BITS:
            raise Unsupported("int-to-float cast")
        return v

    def call_path(self, node, args):
        """Call a function referenced by a path node (`.map(Type::new)`, `.filter(EdgeInfo::is_mandatory)`, `.map(Some)`)."""
        if "variant" in node:
            return Enum(node.get("adt"), node["variant"], list(args))
        callee = node.get("resolved") or node.get("callee") or node.get("def") or ""
        for key in (callee, node.get("callee") or "", node.get("def") or ""):
            h = self.intr.get(key)
            if h is not None:
                return h(self, node, list(args))
        f = self.inline(node.get("resolved") or "") or self.inline(node.get("def") or "")
        if f is not None:
            return self.call_fn(f, list(args))
        raise Unsupported("call through path %s" % callee)

    def _value_fits(self, v, ty):
        """Coarse check that abstract value v can be a value of the Rust type named `ty` (for From dispatch)."""
        if isinstance(v, VecV):
            return ty.startswith("alloc::vec::Vec<") or ty.startswith("&[") or ty.startswith("[")
        if isinstance(v, Enum):
            return ty.startswith(v.adt) or ty.startswith("&" + v.adt)
        if isinstance(v, Struct):
            return ty.startswith(v.adt)
        if isinstance(v, str):
            return "str" in ty or "String" in ty
        return False

    def call_closure(self, clo, args):
        _, node, env = clo
        e2 = dict(env)
        for p, a in zip(node["params"], args):
            if not self.bind(p, a, e2):
                raise Unsupported("closure param pattern")
        try:
            return self.ev(node["body"], e2)
        except _Return as r:
            return r.v

    def _is_enum(self, adt):
        a = self.C.adt_by_path.get(adt)
        return bool(a) and a["kind"] == "Enum"

    def cond(self, c, env):
        """Evaluate a condition, handling `let` chains (if let ... && ...)."""
        c0 = c
        if c0.get("k") == "letx":
            v = self.ev(c0["init"], env)
            e2 = {}
            if self.bind(c0["pat"], v, e2):
                env.update(e2)
                return True
            return False
        if c0.get("k") == "bin" and c0["op"] == "&&" and "callee" not in c0:
            return self.cond(c0["l"], env) and self.cond(c0["r"], env)
        return self.truth(self.ev(c0, env))

    def stmt(self, s, env):
        if s.get("k") == "let":
            mac = s.get("mac")
            if "init" in s:
                v = self.ev(s["init"], env)
                e2 = {}
                if self.bind(s["pat"], v, e2):
                    env.update(e2)
                elif "els" in s:
                    self.ev(s["els"], env)
                    raise Unsupported("let-else fell through")
                else:
                    raise Unsupported("refutable let")
            return
        self.ev(s, env)

    def user_impl(self, adt, trait, name):
        """Local impl of an operator trait for a local ADT (e.g. <FieldValue as PartialEq>::eq)."""
        key = (adt, trait, name)
        if key not in self._impls:
            found = None
            for f in self.C.fns:
                if f.get("impl_trait") == trait and f.get("name") == name and (f.get("self_ty") or "") == adt:
                    found = f
            self._impls[key] = found
        return self._impls[key]

    def binop(self, op, l, r, n):
        l = deref(l)
        r = deref(r)
        if isinstance(l, Enum) and isinstance(r, Enum) and l.adt == r.adt:
            if op in ("==", "!="):
                f = self.user_impl(l.adt, "core::cmp::PartialEq", "eq")
                if f is not None:
                    res = self.truth(self.call_fn(f, [l, r]))
                    return res if op == "==" else not res
            if op in ("<", "<=", ">", ">="):
                f = self.user_impl(l.adt, "core::cmp::PartialOrd", "partial_cmp")
                if f is None:
                    raise Unsupported("ordering of %s without a local PartialOrd impl" % l.adt)
                o = deref(self.call_fn(f, [l, r]))
                if o.variant == "None":
                    return False
                v = deref(o.fields[0]).variant
                return {"<": v == "Less", "<=": v in ("Less", "Equal"), ">": v == "Greater", ">=": v in ("Greater", "Equal")}[op]
        if op in ("==", "!=") and isinstance(l, VecV) and isinstance(r, VecV):
            # slice / Vec / Arc<[T]> equality: same length and elementwise `==` of the element type (its own PartialEq)
            res = len(l.items) == len(r.items) and all(self.binop("==", x, y, n) for x, y in zip(l.items, r.items))
            return res if op == "==" else not res
        if op in ("==", "!="):
            res = veq(l, r)
            return res if op == "==" else not res
        if op in ("<", "<=", ">", ">="):
            if isinstance(l, Sym) and isinstance(r, int) and not isinstance(r, bool) and l.rank is not None:
                a, b = l.rank, r
            elif isinstance(r, Sym) and isinstance(l, int) and not isinstance(l, bool) and r.rank is not None:
                a, b = l, r.rank
            elif isinstance(l, Sym) and isinstance(r, Sym):
                if l.rank is None or r.rank is None:
                    raise Unsupported("ordering of unranked symbols")
                a, b = l.rank, r.rank
            elif isinstance(l, (int, float)) and isinstance(r, (int, float)) and not isinstance(l, bool):
                a, b = l, r
            elif isinstance(l, Sym) and isinstance(r, (int,)) and "num" in l.props:
                a, b = l.props["num"], r
            else:
                raise Unsupported("ordering of %r and %r" % (l, r))
            return {"<": a < b, "<=": a <= b, ">": a > b, ">=": a >= b}[op]
        if op == "+" and isinstance(l, str) and isinstance(r, str):
            return l + r                  # String + &str
        if op in ("&", "|", "^", "<<", ">>") and isinstance(l, int) and isinstance(r, int) and not isinstance(l, bool) and not isinstance(r, bool):
            ty = (self.C.S(n.get("ty")) or "") if isinstance(n, dict) else ""
            bits, signed = self.INT_BITS.get(ty, (64, False))
            if op in ("<<", ">>") and not 0 <= r < bits:
                raise PanicReached("shift amount out of range")
            v = (l & r) if op == "&" else (l | r) if op == "|" else (l ^ r) if op == "^" else (l << r) if op == "<<" else (l >> r)
            v &= (1 << bits) - 1          # bits shifted out are lost; results stay within the operand type
            return v - (1 << bits) if signed and v >= (1 << (bits - 1)) else v
        if op in ("/", "%") and isinstance(l, int) and isinstance(r, int) and not isinstance(l, bool) and not isinstance(r, bool):
            if r == 0:
                raise PanicReached("division by zero")
            q = abs(l) // abs(r) * (1 if (l >= 0) == (r >= 0) else -1)      # Rust truncates toward zero
            return q if op == "/" else l - q * r
        if op in ("&", "|", "^") and isinstance(l, bool) and isinstance(r, bool):
            return {"&": l and r, "|": l or r, "^": l != r}[op]
        if op in ("+", "-", "*") and isinstance(l, int) and isinstance(r, int) and not isinstance(l, bool):
            v = {"+": l + r, "-": l - r, "*": l * r}[op]
            ty = (self.C.S(n.get("ty")) or "") if isinstance(n, dict) else ""
            if ty in self.INT_BITS:
                # checked arithmetic of the profile the suite runs in: a result outside the operand type panics
                bits, signed = self.INT_BITS[ty]
                lo, hi = (-(1 << (bits - 1)), (1 << (bits - 1)) - 1) if signed else (0, (1 << bits) - 1)
                if v > hi:
                    raise PanicReached("arithmetic overflow (%s %s %s in %s)" % (l, op, r, ty))
                if v < lo:
                    raise PanicReached("arithmetic underflow (%s %s %s in %s)" % (l, op, r, ty))
                return v
            if v < 0:
                raise PanicReached("arithmetic underflow")
            return v
        raise Unsupported("binary %s" % op)

    def call(self, n, env):
        mac = n.get("mac")
        if mac is not None and self.C.S(mac).split(">")[0] == "vec":
            # `vec![a, b]` (std's expansion boxes an array literal): value = the array's elements
            from .tast import walk
            for x in walk(n):
                if x.get("k") == "array":
                    return VecV([self.ev(e, env) for e in x["elems"]])
                if x.get("k") == "repeat":
                    raise Unsupported("vec![x; n]")
            return VecV([])
        name = n.get("name")
        callee = n.get("resolved") or n.get("callee") or ""
        args = []
        if n.get("k") == "mcall":
            r = self.place_ref(n["recv"], env)
            args.append(r if r is not None else self.ev(n["recv"], env))
        # closures as args are not evaluated eagerly
        for a in n["args"]:
            if strip(a).get("k") == "closure":
                args.append(("closure", strip(a), env))
            else:
                args.append(self.ev(a, env))
        for key in (callee, n.get("callee") or "", name):
            h = self.intr.get(key)
            if h is not None:
                return h(self, n, args)
        if name in ("into", "from") and (n.get("trait") or "") in ("core::convert::Into", "core::convert::From") and args:
            tgt = self.C.S(n.get("ty")) or ""
            srcv = deref(args[0])
            for f in self.C.fns:
                if f.get("impl_trait") == "core::convert::From" and f.get("name") == "from" and f.get("self_ty") == tgt \
                        and f["path"] != (n.get("_caller") or ""):
                    pty = (self.C.S(f["params"][0].get("ty")) or "")
                    if self._value_fits(srcv, pty):
                        return self.call_fn(f, [args[0]])
            return args[0]
        # transparent std helpers
        if name in ("clone", "to_owned", "cloned", "copied") and len(args) == 1:
            # a copy is a value, never a reference to the place it was copied from (storing `x.clone()` back into x's own place
            # must not create a reference cycle)
            return deref(args[0])
        if name in ("as_ref", "borrow", "deref", "as_deref", "into", "as_mut", "borrow_mut") and len(args) == 1:
            return args[0]
        if n.get("trait", "").startswith("core::cmp::PartialOrd") and name in ("lt", "le", "gt", "ge") and len(args) == 2:
            return self.binop({"lt": "<", "le": "<=", "gt": ">", "ge": ">="}[name], args[0], args[1], n)
        if n.get("trait", "").startswith("core::cmp::PartialEq") and name in ("eq", "ne") and len(args) == 2:
            return self.binop("==" if name == "eq" else "!=", args[0], args[1], n)
        f = self.inline(n.get("resolved") or "") or self.inline(n.get("callee") or "")
        if f is not None and not (f.get("in_trait") and not f.get("body")):
            if not f.get("in_trait"):
                return self.call_fn(f, args)
        # unresolved call of a local trait's method on a generic: dispatch on the abstract receiver's type
        tr = n.get("trait")
        if tr and args:
            recv = deref(args[0])
            adt = getattr(recv, "adt", None)
            if adt is not None:
                g = self.user_impl(adt, tr, name)
                if g is not None:
                    return self.call_fn(g, args)
        if f is not None:
            return self.call_fn(f, args)     # trait method with a default body
        raise Unsupported("call to %s" % callee)
