#!/usr/bin/env python3
"""E4 self-test: apply one scripted breakage at a time to a scratch copy of /repo (outside /repo and
/verif), re-extract facts, and require that the property's check fires and names the instance.

  selftest/mutate.py                 all mutants
  selftest/mutate.py C07 C04         mutants of these properties
  selftest/mutate.py C07-drop-not    one mutant by id
  --keep   keep scratch dir          --jobs N   parallel workers (each with its own scratch + target)

A mutant whose `find` text no longer occurs is reported as SKIPPED (source drifted), never as failure.
This validates the analysis; it is not how a property is decided.
"""
import json
import os
import re
import shutil
import subprocess
import sys
import tempfile
import concurrent.futures as cf

HERE = os.path.dirname(os.path.abspath(__file__))
VERIF = os.path.dirname(HERE)
REPO = os.environ.get("TFV_REPO_ORIG", "/repo")
BASE = os.environ.get("TFV_SELFTEST_DIR", "/tmp/tfv-selftest")


def load_mutants():
    ms = []
    d = os.path.join(HERE, "mutants")
    for f in sorted(os.listdir(d)):
        if f.endswith(".json"):
            with open(os.path.join(d, f)) as fh:
                for m in json.load(fh):
                    ms.append(m)
    # breakages written by independent sub-agents (seeded/<id>/patch.diff), replayed like any other mutant
    sd = os.path.join(VERIF, "seeded")
    if os.path.isdir(sd):
        for name in sorted(os.listdir(sd)):
            mp = os.path.join(sd, name, "meta.json")
            pp = os.path.join(sd, name, "patch.diff")
            if os.path.exists(mp) and os.path.exists(pp):
                meta = json.load(open(mp))
                ms.append({"id": "seed-" + name, "property": meta["property"], "patch": pp,
                           "expect": meta.get("detected_key", ""), "checks": meta.get("detected_by")})
    return ms


def apply(m, root):
    if "patch" in m:
        r = subprocess.run("patch -p1 -s --no-backup-if-mismatch < %s" % m["patch"], shell=True, cwd=root,
                           stdout=subprocess.PIPE, stderr=subprocess.STDOUT, text=True)
        return r.returncode == 0
    p = os.path.join(root, m["file"])
    s = open(p).read()
    find = m["find"]
    nth = m.get("nth", 0)
    if m.get("regex") and m.get("all"):
        s2, cnt = re.subn(find, m["replace"], s, flags=re.S)
        if cnt == 0:
            return False
    elif m.get("regex"):
        ms = list(re.finditer(find, s, re.S))
        if len(ms) <= nth:
            return False
        mm = ms[nth]
        s2 = s[:mm.start()] + mm.expand(m["replace"]) + s[mm.end():]
    else:
        idx = -1
        for _ in range(nth + 1):
            idx = s.find(find, idx + 1)
            if idx < 0:
                return False
        s2 = s[:idx] + m["replace"] + s[idx + len(find):]
    open(p, "w").write(s2)
    for extra in m.get("also", []):
        if not apply(extra, root):
            return False
    return True


def run_one(m, slot):
    work = os.path.join(BASE, "w%d" % slot)
    repo = os.path.join(work, "repo")
    os.makedirs(work, exist_ok=True)
    subprocess.run(["rsync", "-a", "--delete", "--exclude", "/target", "--exclude", ".git",
                    REPO + "/", repo + "/"], check=True)
    if not apply(m, repo):
        return m, "SKIPPED", "find text not present"
    env = dict(os.environ, TFV_REPO=repo, TFV_CACHE=os.path.join(work, "cache"),
               TFV_EVIDENCE_DIR=os.path.join(work, "evidence"))
    shutil.rmtree(env["TFV_EVIDENCE_DIR"], ignore_errors=True)
    os.makedirs(env["TFV_EVIDENCE_DIR"], exist_ok=True)
    # warm the slot's cargo target with the already-compiled dependencies (registry crates are path-independent)
    warm = os.path.join(VERIF, ".cache", "target")
    slot_target = os.path.join(env["TFV_CACHE"], "target")
    if os.path.isdir(warm) and not os.path.isdir(slot_target):
        os.makedirs(env["TFV_CACHE"], exist_ok=True)
        subprocess.run(["cp", "-r", warm, slot_target], check=False)
    r = subprocess.run([os.path.join(VERIF, "check"), m["property"]], env=env, cwd=VERIF,
                       stdout=subprocess.PIPE, stderr=subprocess.STDOUT, text=True)
    out = r.stdout
    if "does not build" in out or "cargo check of" in out:
        return m, "NOCOMPILE", out[-1500:]
    keys = []
    rdir = os.path.join(env["TFV_EVIDENCE_DIR"], "replays")
    if os.path.isdir(rdir):
        for fn in sorted(os.listdir(rdir)):
            if fn.startswith(m["property"] + "-"):
                try:
                    keys.append(json.load(open(os.path.join(rdir, fn)))["key"])
                except (OSError, ValueError, KeyError):
                    pass
    if not keys:
        keys = re.findall(r"^\s+%s: \[(.*?)\]" % m["property"], out, re.M)
    exp = m.get("expect", "")
    if m.get("equivalent"):
        # behaviour-preserving edit: the check must stay silent
        if r.returncode == 0:
            return m, "SILENT-OK", "behaviour-preserving edit, no alarm"
        return m, "FALSE-ALARM", "; ".join(keys)[:300]
    if r.returncode == 1 and any(exp in k for k in keys):
        return m, "CAUGHT", "; ".join(k for k in keys if exp in k)[:200]
    if r.returncode == 1:
        return m, "CAUGHT-OTHER", "expected key containing %r, got %s" % (exp, keys[:5])
    return m, "MISSED", out[-800:]


def main():
    args = [a for a in sys.argv[1:] if not a.startswith("--")]
    jobs = 1
    if "--jobs" in sys.argv:
        jobs = int(sys.argv[sys.argv.index("--jobs") + 1])
        args = [a for a in args if a != str(jobs)]
    ms = load_mutants()
    if args:
        ms = [m for m in ms if m["id"] in args or m["property"] in args]
    res = []
    os.makedirs(BASE, exist_ok=True)
    try:
        if jobs == 1:
            for m in ms:
                r = run_one(m, 0)
                res.append(r)
                print("%-12s %-40s %s" % (r[1], m["id"], r[2] if r[1] != "CAUGHT" else r[2][:100]), flush=True)
        else:
            import queue
            slots = queue.Queue()
            for i in range(jobs):
                slots.put(i)

            def task(m):
                s = slots.get()
                try:
                    return run_one(m, s)
                finally:
                    slots.put(s)
            with cf.ThreadPoolExecutor(jobs) as ex:
                for r in ex.map(task, ms):
                    res.append(r)
                    print("%-12s %-40s %s" % (r[1], r[0]["id"], r[2][:160]), flush=True)
    finally:
        if "--keep" not in sys.argv:
            shutil.rmtree(BASE, ignore_errors=True)
    bad = [r for r in res if r[1] in ("MISSED", "NOCOMPILE", "CAUGHT-OTHER", "FALSE-ALARM")]
    summary = {"total": len(res), "caught": sum(1 for r in res if r[1] == "CAUGHT"),
               "skipped": sum(1 for r in res if r[1] == "SKIPPED"), "silent_ok": sum(1 for r in res if r[1] == "SILENT-OK"), "bad": [(r[0]["id"], r[1]) for r in bad]}
    print(json.dumps(summary))
    return 1 if bad else 0


if __name__ == "__main__":
    sys.exit(main())
