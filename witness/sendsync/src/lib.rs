//! C24 r1 — compile-time witnesses: schemas, compiled queries and the values they contain are
//! `Send + Sync`. The obligations are discharged by rustc's trait solver when this crate is
//! type-checked against /repo's *current* trustfall_core; nothing here is ever executed.
//!
//! Every `compile_fail` doctest below has a compiling twin that differs only in the offending
//! type, so a witness that fails for an unrelated reason (wrong path, typo) cannot pass silently.
#![allow(dead_code)]

use trustfall_core::frontend::error::FrontendError;
use trustfall_core::interpreter::InterpretedQuery;
use trustfall_core::ir::{IndexedQuery, Output};
use trustfall_core::ir::Type;
use trustfall_core::ir::{EdgeParameters, FieldValue, IRQuery, IRQueryComponent};
use trustfall_core::schema::Schema;

pub fn assert_send_sync<T: Send + Sync>() {}
pub fn assert_static<T: 'static>() {}

/// The obligations. One line per obligation; `tfv` counts them from the HIR of this function.
pub fn obligations() {
    assert_send_sync::<Schema>();
    assert_send_sync::<IndexedQuery>();
    assert_send_sync::<IRQuery>();
    assert_send_sync::<IRQueryComponent>();
    assert_send_sync::<InterpretedQuery>();
    assert_send_sync::<FieldValue>();
    assert_send_sync::<Type>();
    assert_send_sync::<EdgeParameters>();
    assert_send_sync::<FrontendError>();
    assert_send_sync::<Output>();
    assert_send_sync::<std::sync::Arc<Schema>>();
    assert_send_sync::<std::sync::Arc<IndexedQuery>>();
    assert_static::<Schema>();
    assert_static::<IndexedQuery>();
}

/// Twin (compiles; `no_run`: type-checked only): the witness function accepts a thread-safe type.
/// ```no_run
/// tfv_witness_sendsync::assert_send_sync::<std::sync::Arc<trustfall_core::schema::Schema>>();
/// ```
/// The same line with a non-thread-safe wrapper must be rejected with E0277:
/// ```compile_fail,E0277
/// tfv_witness_sendsync::assert_send_sync::<std::rc::Rc<trustfall_core::schema::Schema>>();
/// ```
/// and with a cell around a compiled query (`Sync` is lost):
/// ```compile_fail,E0277
/// tfv_witness_sendsync::assert_send_sync::<std::cell::RefCell<trustfall_core::ir::IndexedQuery>>();
/// ```
/// Twin for the cell case:
/// ```no_run
/// tfv_witness_sendsync::assert_send_sync::<std::sync::Mutex<trustfall_core::ir::IndexedQuery>>();
/// ```
pub struct Witnesses;
