#!/usr/bin/env python3
"""Run every check of MANIFEST.json (quick tier) on /repo's current tree, validate the evidence files against the schema, print a table.

usage: tools/run_all.py [--jobs N]
Exit status 0 iff every check exits 0 and every evidence file validates. Evidence is written by the checks themselves
(/verif/evidence/<id>.json); nothing else is modified.
"""
import json
import os
import subprocess
import sys
from concurrent.futures import ThreadPoolExecutor

VERIF = os.path.dirname(os.path.dirname(os.path.abspath(__file__)))


def main():
    jobs = int(sys.argv[sys.argv.index("--jobs") + 1]) if "--jobs" in sys.argv else 4
    man = json.load(open(os.path.join(VERIF, "MANIFEST.json")))
    ids = [c["property_id"] for c in man["checks"]]
    # facts once, before the checks run in parallel
    subprocess.run(["./check", ids[0], "--tier", "quick"], cwd=VERIF, stdout=subprocess.PIPE, stderr=subprocess.STDOUT)

    def one(pid):
        r = subprocess.run(["./check", pid, "--tier", "quick"], cwd=VERIF, stdout=subprocess.PIPE, stderr=subprocess.STDOUT, text=True)
        return pid, r.returncode, r.stdout.strip().splitlines()[-1] if r.stdout.strip() else ""
    bad = 0
    with ThreadPoolExecutor(max_workers=jobs) as ex:
        for pid, rc, last in ex.map(one, ids):
            print("%s rc=%d %s" % (pid, rc, last[:170]))
            bad += rc != 0
    try:
        import jsonschema
        schema = json.load(open("/root/.vp/EVIDENCE.schema.json"))
        for pid in ids:
            jsonschema.validate(json.load(open(os.path.join(VERIF, "evidence", "%s.json" % pid))), schema)
        print("evidence: %d files valid against EVIDENCE.schema.json" % len(ids))
    except ImportError:
        print("evidence: jsonschema not importable in this interpreter (run with python3-vt to validate)")
    except Exception as e:  # noqa: BLE001
        print("evidence: INVALID - %s" % str(e)[:300])
        bad += 1
    return 1 if bad else 0


if __name__ == "__main__":
    sys.exit(main())
