#!/usr/bin/env python3
"""Run every claimed check against a behaviour-preserving patch (a refactoring) and report alarms.

usage: refac_run.py <patch.diff> [--slot N] [--checks C02,C03]

The patch is applied to a scratch copy of /repo (never to /repo itself), facts are extracted once for that tree and all
checks run on it with a private evidence directory. Any VIOLATION printed here is a false alarm of the checker (the patch
is supposed to leave behaviour unchanged) unless reading the patch shows it does change behaviour.
"""
import json
import os
import re
import shutil
import subprocess
import sys

VERIF = os.path.dirname(os.path.dirname(os.path.abspath(__file__)))
REPO = "/repo"


def sh(cmd, cwd=None, env=None):
    r = subprocess.run(cmd, shell=True, cwd=cwd, env=env, stdout=subprocess.PIPE, stderr=subprocess.STDOUT, text=True)
    return r.returncode, r.stdout


def main():
    a = sys.argv[1:]
    patch = os.path.abspath(a[0])
    slot = a[a.index("--slot") + 1] if "--slot" in a else "0"
    man = json.load(open(os.path.join(VERIF, "MANIFEST.json")))
    checks = a[a.index("--checks") + 1].split(",") if "--checks" in a else [p["property_id"] for p in man["checks"]]
    base = "/tmp/refacv"
    sc, cache, ev = "%s/repo-%s" % (base, slot), "%s/cache-%s" % (base, slot), "%s/ev-%s" % (base, slot)
    os.makedirs(base, exist_ok=True)
    sh("rsync -a --delete --exclude /target --exclude .git %s/ %s/" % (REPO, sc))
    rc, o = sh("patch -p1 --no-backup-if-mismatch < %s" % patch, cwd=sc)
    if rc != 0:
        print("PATCH-FAILED", patch, o[-300:])
        return 2
    if not os.path.isdir(cache + "/target") and os.path.isdir(os.path.join(VERIF, ".cache", "target")):
        os.makedirs(cache, exist_ok=True)
        sh("cp -r %s %s/target" % (os.path.join(VERIF, ".cache", "target"), cache))
    os.makedirs(ev, exist_ok=True)
    env = dict(os.environ, TFV_REPO=sc, TFV_CACHE=cache, TFV_EVIDENCE_DIR=ev)
    alarms = {}
    for c in checks:
        rc, o = sh("./check %s --tier quick" % c, cwd=VERIF, env=env)
        if rc != 0:
            keys = re.findall(r"^\s+%s: \[(.*?)\] (.*)$" % c, o, re.M)
            alarms[c] = {"rc": rc, "violations": [(k, m[:400]) for k, m in keys[:10]], "tail": o[-500:] if not keys else ""}
    shutil.rmtree(sc, ignore_errors=True)
    print(json.dumps({"patch": patch, "checks": len(checks), "alarms": alarms}, indent=1))
    return 1 if alarms else 0


if __name__ == "__main__":
    sys.exit(main())
