#!/usr/bin/env python3
"""Write rules/anchors_ref.json: body fingerprints of every non-test function of the current /repo tree (the reference tree).

Run it when the current tree is accepted as the reference the rules were confirmed on (after a `fix:` commit, after re-reading
the anchors). engine/tfv/facts.py uses the file to recognise a function that was renamed or moved in a later tree
(Crate.fn falls back to the closest new function) - see DESIGN.md section 6, "Anchors".
"""
import json
import os
import sys

VERIF = os.path.dirname(os.path.dirname(os.path.abspath(__file__)))
sys.path.insert(0, os.path.join(VERIF, "engine"))
from tfv import facts  # noqa: E402


def main():
    factdir, th, _ = facts.ensure_facts("quick")
    out = {"_tree": th}
    for fn in sorted(os.listdir(factdir)):
        if not fn.endswith(".json") or not any(k in fn for k in ("-rlib-", "-cdylib", "-procmacro")):
            continue                       # library targets only (what the quick tier analyses); test / bin targets are not anchors
        C = facts.load(factdir, fn)
        crate = fn.split("--")[0]
        d = out.setdefault(crate, {})
        for f in C.fns:
            p = f["path"]
            if "::tests::" in p or "::test::" in p or "{" in p or not f.get("body"):
                continue
            d[p] = C.fingerprint(f)
        d["__adts__"] = sorted(set(d.get("__adts__", [])) | {a["path"] for a in C.adts if "::tests::" not in a["path"]})
    p = os.path.join(VERIF, "rules", "anchors_ref.json")
    with open(p, "w") as fh:
        json.dump(out, fh, separators=(",", ":"), sort_keys=True)
    print("wrote %s: %s" % (p, {k: len(v) for k, v in out.items() if k != "_tree"}), os.path.getsize(p), "bytes")


if __name__ == "__main__":
    main()
