#!/usr/bin/env python3
"""Keep a confirmed seeded breakage:  tools/seed_store.py <Cxx> <outdir> <name> [--missed-first "<what was strengthened>"]

Copies patch.diff, the demonstration (demo.diff or script files) and meta.json from the sub-agent's output directory to
/verif/seeded/<name>/, adding what tools/seed_verify.py observed (verify.json): confirmation runs, which checks fired and
with which keys. Refuses entries that were not confirmed.
"""
import json
import os
import shutil
import sys

VERIF = os.path.dirname(os.path.dirname(os.path.abspath(__file__)))


def main():
    a = sys.argv[1:]
    prop, out, name = a[0], a[1], a[2]
    missed = a[a.index("--missed-first") + 1] if "--missed-first" in a else None
    v = json.load(open(os.path.join(out, "verify.json")))
    meta = json.load(open(os.path.join(out, "meta.json")))
    if not v.get("confirmed"):
        print("not confirmed:", {k: v.get(k) for k in ("demo_clean_rc", "demo_patched_rc", "suite")})
        return 1
    dst = os.path.join(VERIF, "seeded", name)
    os.makedirs(dst, exist_ok=True)
    for fn in os.listdir(out):
        if fn in ("verify.json",) or fn.endswith((".log",)):
            continue
        src = os.path.join(out, fn)
        if os.path.isfile(src) and os.path.getsize(src) < 400000:
            shutil.copy(src, os.path.join(dst, fn))
    det = v.get("checks", {})
    keys = []
    for c, d in det.items():
        if d.get("rc") == 1:
            keys += d.get("violations", [])
    meta.update({
        "property": prop,
        "confirmed": {
            "demo_on_clean_head": "passes (rc %s)" % v.get("demo_clean_rc"),
            "demo_with_patch": "fails (rc %s)" % v.get("demo_patched_rc"),
            "pinned_suite_with_patch": v.get("suite"),
            "how": "tools/seed_verify.py in a scratch git worktree of /repo (outside /repo and /verif), private TMPDIR, removed afterwards",
        },
        "detected_by": v.get("detected_by", []),
        "detected_key": keys[0] if keys else "",
        "detected_keys": keys[:8],
        "missed_before_strengthening": missed,
        "written_by": "independent sub-agent given only the property text and a scratch worktree",
    })
    with open(os.path.join(dst, "meta.json"), "w") as f:
        json.dump(meta, f, indent=1)
    print("stored", dst, "detected_by", meta["detected_by"], "key", meta["detected_key"][:80])
    return 0


if __name__ == "__main__":
    sys.exit(main())
