#!/usr/bin/env python3
"""Confirm a seeded breakage delivered by a sub-agent, then run the /verif checks against it.

  tools/seed_verify.py <Cxx> <outdir> [--target DIR] [--skip-suite] [--checks C02,C09]

Steps (all in a scratch worktree outside /repo and /verif, removed afterwards):
  1. clean HEAD + demo.diff          -> demo_cmd must PASS
  2. HEAD + patch.diff + demo.diff   -> demo_cmd must FAIL
  3. HEAD + patch.diff               -> pinned suite must PASS (unless --skip-suite)
Then: git -C /repo apply patch.diff ; ./check <ids> ; git -C /repo checkout -- .   (always undone)
Writes <outdir>/verify.json. Nothing is committed anywhere.
"""
import json
import os
import re
import shutil
import subprocess
import sys

REPO = "/repo"
VERIF = os.path.dirname(os.path.dirname(os.path.abspath(__file__)))


def sh(cmd, cwd=None, env=None, timeout=7200):
    r = subprocess.run(cmd, shell=True, cwd=cwd, env=env, stdout=subprocess.PIPE, stderr=subprocess.STDOUT, text=True, timeout=timeout)
    return r.returncode, r.stdout


def main():
    a = sys.argv[1:]
    prop, out = a[0], a[1]
    target = a[a.index("--target") + 1] if "--target" in a else "/tmp/seedv/target"
    checks = a[a.index("--checks") + 1].split(",") if "--checks" in a else [prop]
    meta = json.load(open(os.path.join(out, "meta.json")))
    demo_cmd = meta["demo_cmd"]
    tag = "%s-%s" % (os.path.basename(os.path.dirname(out.rstrip("/"))), os.path.basename(out.rstrip("/")))   # e.g. out3-C11: rounds do not collide
    wt = "/tmp/seedv/wt-%s" % tag
    sh("git -C %s worktree remove --force %s" % (REPO, wt))
    shutil.rmtree(wt, ignore_errors=True)
    os.makedirs(os.path.dirname(wt), exist_ok=True)
    rc, o = sh("git -C %s worktree add -q --detach %s HEAD" % (REPO, wt))
    if rc != 0:
        print(o)
        return 2
    tmpd = "/tmp/seedv/tmp-%s" % tag
    os.makedirs(tmpd, exist_ok=True)
    # private TMPDIR: the stubgen tests of the pinned suite write to $TMPDIR/trustfall_stubgen and collide across concurrent runs
    # WT: demo scripts that build from "the worktree" (C27's Python demos) take its location from this variable
    env = dict(os.environ, CARGO_NET_OFFLINE="true", CARGO_TARGET_DIR=target, TMPDIR=tmpd, WT=wt)
    res = {"property": prop, "demo_cmd": demo_cmd}

    def rewrite(cmd):
        # the agent's command names its own worktree / target; point it at ours
        cmd = re.sub(r"/tmp/seed/wt\d?/\w+", wt, cmd)
        cmd = re.sub(r"CARGO_TARGET_DIR=\S+", "CARGO_TARGET_DIR=%s" % target, cmd)
        cmd = re.sub(r"\bTMPDIR=\S+", "TMPDIR=%s" % tmpd, cmd)
        cmd = re.sub(r"/tmp/seed/out\d?/\w+", out.rstrip("/"), cmd)
        assert "/tmp/seed/wt" not in cmd, cmd
        return cmd
    try:
        if "--checks-only" in a:
            raise StopIteration
        demo = os.path.join(out, "demo.diff")
        patch = os.path.join(out, "patch.diff")
        rc, o = sh("git apply --whitespace=nowarn %s" % demo, cwd=wt) if os.path.exists(demo) else (0, "")
        res["demo_applies"] = rc == 0
        if rc != 0:
            res["error"] = o[-800:]
        rc, o = sh(rewrite(demo_cmd), cwd=wt, env=env)
        res["demo_clean_rc"] = rc
        res["demo_clean_tail"] = o[-600:]
        rc, o = sh("git apply --whitespace=nowarn %s" % patch, cwd=wt)
        res["patch_applies"] = rc == 0
        if rc != 0:
            res["error"] = o[-800:]
        rc, o = sh(rewrite(demo_cmd), cwd=wt, env=env)
        res["demo_patched_rc"] = rc
        res["demo_patched_tail"] = o[-1200:]
        if "--skip-suite" not in a:
            # the suite runs on HEAD + patch only: start from a clean tree (reverse-applying the demo can fail when it touches a
            # file the patch also touches, leaving half of it behind)
            sh("git checkout -- . && git clean -fdq", cwd=wt)
            rc, o = sh("git apply --whitespace=nowarn %s" % patch, cwd=wt)
            if rc != 0:
                res["error"] = "re-applying the patch on a clean tree failed: " + o[-400:]
            rc, o = sh("cargo nextest run --workspace --no-fail-fast --test-threads 8 --offline 2>&1 | tail -15", cwd=wt, env=env)
            m = re.search(r"(\d+) tests run: (\d+) passed(?:, (\d+) failed)?", o)
            res["suite"] = m.group(0) if m else o[-400:]
            res["suite_ok"] = bool(m) and m.group(1) == m.group(2)
            if m and not res["suite_ok"]:
                # tests that compile code in a child cargo are flaky under machine load (seen failing on the unpatched tree
                # too): re-run exactly the failed ones alone; the suite counts as passing only if each of them then passes
                failed = sorted(set(re.findall(r"FAIL \[[^\]]*\] (?:\(\S+\) )?(\S+) (\S+)", o)))
                load_sensitive = {("trustfall_derive::uses", "ui"), ("trustfall_stubgen", "tests::hackernews_schema"),
                                  ("trustfall_stubgen", "tests::no_edges_schema"), ("trustfall_stubgen", "tests::use_reserved_rust_names_in_schema")}
                res["suite_failed_first_run"] = ["%s %s" % f for f in failed]
                if failed and set(failed) <= load_sensitive:
                    allok = True
                    for binid, test in failed:
                        rc, o3 = sh("cargo nextest run --workspace --offline -E 'test(/%s$/)' 2>&1 | tail -5" % test.split("::")[-1].replace("'", ""), cwd=wt, env=env)
                        if rc != 0 or "passed" not in o3 or "failed" in o3.split("Summary")[-1]:
                            allok = False
                    res["suite_ok"] = allok
                    res["suite"] += " (load-sensitive test(s) %s re-run alone: %s)" % ([f[1] for f in failed], "pass" if allok else "fail")
    except StopIteration:
        old = os.path.join(out, "verify.json")
        if os.path.exists(old):
            prev = json.load(open(old))
            res.update({k: v for k, v in prev.items() if k.startswith(("demo_", "suite", "patch_"))})
    finally:
        sh("git -C %s worktree remove --force %s" % (REPO, wt))
        shutil.rmtree(wt, ignore_errors=True)
        shutil.rmtree(tmpd, ignore_errors=True)
    det = {}
    if "--demo-only" in a:
        # re-run of the demonstration only: keep the suite result and the checks' verdicts of the previous run
        old = os.path.join(out, "verify.json")
        prev = json.load(open(old)) if os.path.exists(old) else {}
        res.update({k: v for k, v in prev.items() if k.startswith("suite")})
        return finish(res, prev.get("checks", {}), out, a + (["--skip-suite"] if "suite_ok" not in res else []))
    if "--scratch" in a:
        # same checks, but against a scratch copy of /repo (used while something else is reading /repo)
        sc = "/tmp/seedv/repo-%s" % tag
        sh("rsync -a --delete --exclude /target --exclude .git %s/ %s/" % (REPO, sc))
        rc, o = sh("git apply --whitespace=nowarn %s" % os.path.join(out, "patch.diff"), cwd=sc)
        if rc != 0:
            # not a git dir: fall back to patch(1)
            rc, o = sh("patch -p1 < %s" % os.path.join(out, "patch.diff"), cwd=sc)
        env2 = dict(os.environ, TFV_REPO=sc, TFV_CACHE="/tmp/seedv/cache", TFV_EVIDENCE_DIR="/tmp/seedv/evidence")
        if not os.path.isdir("/tmp/seedv/cache/target") and os.path.isdir(os.path.join(VERIF, ".cache", "target")):
            os.makedirs("/tmp/seedv/cache", exist_ok=True)
            sh("cp -r %s /tmp/seedv/cache/target" % os.path.join(VERIF, ".cache", "target"))
        for c in checks:
            rc, o = sh("./check %s --tier quick" % c, cwd=VERIF, env=env2)
            keys = re.findall(r"^\s+%s: \[(.*?)\] " % c, o, re.M)
            det[c] = {"rc": rc, "violations": keys[:12], "tail": o[-300:] if rc not in (0, 1) else ""}
        shutil.rmtree(sc, ignore_errors=True)
        return finish(res, det, out, a)
    # run the checks against /repo with the patch applied, always undo
    rc, o = sh("git -C %s status --porcelain" % REPO)
    if o.strip():
        print("refusing: /repo has local changes")
        return 2
    rc, o = sh("git -C %s apply --whitespace=nowarn %s" % (REPO, os.path.join(out, "patch.diff")))
    try:
        if rc != 0:
            res["repo_apply_error"] = o[-400:]
        else:
            for c in checks:
                rc, o = sh("./check %s --tier quick" % c, cwd=VERIF, env=dict(os.environ, TFV_EVIDENCE_DIR="/tmp/seedv/evidence"))
                keys = re.findall(r"^\s+%s: \[(.*?)\] " % c, o, re.M)
                det[c] = {"rc": rc, "violations": keys[:12], "tail": o[-300:] if rc not in (0, 1) else ""}
    finally:
        sh("git -C %s checkout -- ." % REPO)
        sh("git -C %s clean -fdq" % REPO)
    return finish(res, det, out, a)


def finish(res, det, out, a):
    res["checks"] = det
    res["confirmed"] = bool(res.get("demo_clean_rc") == 0 and res.get("demo_patched_rc") not in (0, None) and res.get("suite_ok", "--skip-suite" in a))
    res["detected_by"] = [c for c, d in det.items() if d["rc"] == 1]
    with open(os.path.join(out, "verify.json"), "w") as f:
        json.dump(res, f, indent=1)
    print(json.dumps({k: res[k] for k in ("confirmed", "detected_by", "demo_clean_rc", "demo_patched_rc") if k in res}), res.get("suite"))
    for c, d in det.items():
        print(" ", c, d["rc"], d["violations"][:4])
    return 0


if __name__ == "__main__":
    os.makedirs("/tmp/seedv/evidence", exist_ok=True)
    sys.exit(main())
