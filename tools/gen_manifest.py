#!/usr/bin/env python3
"""Regenerate /verif/MANIFEST.json from rules/meta.py; validates against the schema if jsonschema is present."""
import json, os, sys
HERE = os.path.dirname(os.path.dirname(os.path.abspath(__file__)))
sys.path.insert(0, HERE)
from rules import meta

props = [json.loads(l)["id"] for l in open(os.path.join(HERE, "properties.jsonl"))]
checks = []
na = []
for p in props:
    if p in meta.CHECKS:
        c = meta.CHECKS[p]
        checks.append({
            "property_id": p,
            "quick_cmd": "./check %s --tier quick" % p,
            "thorough_cmd": "./check %s --tier thorough" % p,
            "evidence_file": "/verif/evidence/%s.json" % p,
            "replay_cmd_template": "./check %s --replay {path}" % p,
            "engine": meta.ENGINE,
            "level_claimed": {"category": c.get("category", "other"), "text": c["text"], "design_ref": c["design_ref"]},
            "level_note": c["note"],
            "technique": c["technique"],
        })
    else:
        na.append({"property_id": p, "reason": meta.NOT_APPLICABLE.get(
            p, "no check built yet for this property in this round; see DESIGN.md section 4 for the planned rules")})
m = {
    "version": 1,
    "setup_cmd": "./setup.sh",
    "hooks": {
        "guard": "trustfall_verif",
        "enable": "none needed: the factgen driver reads private items of the unmodified sources; no cfg is set",
        "baseline_off_cmd": "cd /repo && cargo test --workspace --no-fail-fast --offline",
        "source_commits": [],
        "add_only": True,
    },
    "engines": [
        {"name": "factgen", "path": "/verif/engine/factgen", "serves_properties": sorted(meta.CHECKS),
         "kind_free_text": "rustc_private driver (RUSTC_WORKSPACE_WRAPPER under cargo +nightly check): dumps typed HIR, MIR call graph/asserts/casts, ADT + impl tables of /repo's current tree"},
        {"name": "tfv", "path": "/verif/engine/tfv", "serves_properties": sorted(meta.CHECKS),
         "kind_free_text": "Python rule engine over the facts: dispatch tables, truth tables, provenance, call-graph reachability, pairing"},
    ],
    "checks": checks,
    "not_applicable": na,
    "notes": "Technique family: static analysis only. Every check re-extracts facts from /repo's current working tree (content-hash keyed) and never runs trustfall code.",
}
with open(os.path.join(HERE, "MANIFEST.json"), "w") as f:
    json.dump(m, f, indent=1)
try:
    import jsonschema
    jsonschema.validate(m, json.load(open("/root/.vp/MANIFEST.schema.json")))
    print("MANIFEST.json valid:", len(checks), "checks,", len(na), "not applicable")
except ImportError:
    print("MANIFEST.json written (jsonschema not available)")
