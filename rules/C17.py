"""C17 — type operations obey the subtype lattice laws.

The derived operations of `Type` are structurally recursive over (nullable, is_list/as_list, base_type).
Their typed AST is abstractly evaluated over the algebraic model of types (rules/tymodel.py) for every
type of list depth <= 2 over two base names — every combination of level-local inputs at the leaf level,
at a list-of-leaf level and at a list-of-list level, i.e. base case and inductive step of the recursion —
and the lattice laws are checked on the complete tables.
"""
import itertools

from tfv import absint as A
from tfv.tast import walk, strip, calls_in
from . import tymodel as T

EXPLANATION = ("Complete tables of Type::intersect, is_scalar_only_subtype, equal_ignoring_nullability and "
               "is_valid_value over all types of list depth <= 2 (28 types, 784 pairs, 21952 triples) obtained by "
               "abstract evaluation of their typed AST over the algebraic model Named(base, nullable) | List(inner, "
               "nullable); laws: intersect = greatest common subtype (commutative, idempotent, lower bound, greatest, "
               "None exactly when base or list depth differ), subtype is a partial order, validity is upward closed, "
               "equality ignoring nullability is an equivalence. r5: bit-layout agreement of the primitive accessors.")
ASSUMPTIONS = ["the primitive accessors nullable/is_list/as_list/base_type/new_named_type/new_list_type implement the "
               "algebraic datatype view on the modifier bitmask (r5 checks their constants and shift agreement only)",
               "the recursion of the derived operations is uniform in depth, so depth <= 2 exercises base case and step"]

TY = T.TY


def run(ctx, R):
    C = ctx.core
    R.rule("r1", "intersect: commutative, idempotent, a subtype of both inputs, greatest such, None iff base / list depth differ")
    R.rule("r2", "is_scalar_only_subtype is reflexive, antisymmetric, transitive and equals the definition")
    R.rule("r3", "a value valid for a type is valid for every supertype; is_valid_value equals the definition")
    R.rule("r4", "equal_ignoring_nullability is an equivalence, equals shape equality and never consults nullability")
    R.rule("r5", "modifier bit layout: NON_NULLABLE_MASK = 1, LIST_MASK = 2, every shift between layers is by 2; depth guard precedes the shift")

    def fn(name):
        f = C.fn(TY + "::" + name)
        if f is None:
            R.fail("anchor", name, "-", "Type::%s not found" % name)
        return f
    f_int, f_sub, f_eqn, f_val = fn("intersect"), fn("is_scalar_only_subtype"), fn("equal_ignoring_nullability"), fn("is_valid_value")
    if None in (f_int, f_sub, f_eqn, f_val):
        return
    # The operations are evaluated on the *real* representation (base name + modifier bit mask): the primitive accessors'
    # own code (`mask & 1`, `mask >> 2`, ...) is interpreted, not modelled; results are decoded back to the algebraic view.
    from . import tybits as B
    intr = B.intrinsics()
    # one interned base name ("Int": a shared Arc) and one that is allocated afresh for every type ("Float"): operands are
    # always built separately, so code that compares base names by pointer instead of by text is seen to fail
    types = T.all_types(bases=("Int", "Float"))
    R.units["types"] = len(types)
    R.units["representation"] = "concrete bit masks (rules/tybits.py)"

    def call(f, *args):
        ip = A.Interp(C, intrinsics=intr, max_steps=200000)
        res = A.deref(ip.call_fn(f, [B.concrete(a) if isinstance(a, T.TypeV) else a for a in args]))
        if isinstance(res, A.Enum) and res.adt == T.OPTION and res.variant == "Some":
            inner = A.deref(res.fields[0])
            if isinstance(inner, A.Struct) and inner.adt == T.TY:
                try:
                    return A.Enum(T.OPTION, "Some", [B.decode(inner)])
                except ValueError as e:
                    raise A.Unsupported("result is not a well-formed type: %s" % e)
        return res

    SUB, INT, EQN = {}, {}, {}
    try:
        for a, b in itertools.product(types, types):
            SUB[(a.key(), b.key())] = call(f_sub, a, b)          # a.is_scalar_only_subtype(b): b <= a
            o = call(f_int, a, b)
            INT[(a.key(), b.key())] = None if o.variant == "None" else A.deref(o.fields[0])
            EQN[(a.key(), b.key())] = call(f_eqn, a, b)
    except A.Unsupported as e:
        R.fail("engine", "unanalysable", C.loc(f_int["sp"]), "abstract evaluation of Type operations met an unsupported construct: %s (fail closed)" % e)
        return
    except A.PanicReached as e:
        R.fail("r1", "panic", C.loc(f_int["sp"]), "a Type operation panics on well-formed types: %s" % e.what)
        return
    R.extra["pairs_evaluated"] = len(SUB)
    K = {t.key(): t for t in types}
    keys = list(K)

    def first(it):
        for x in it:
            return x
        return None

    def show(k):
        return repr(K[k]) if k in K else str(k)

    # r2
    b = first((x, y) for x in keys for y in keys if SUB[(x, y)] != T.is_subtype(K[x], K[y]))
    R.check(b is None, "r2", "equals-definition", C.loc(f_sub["sp"]),
            "is_scalar_only_subtype(%s, %s) differs from the definition" % (b and show(b[0]), b and show(b[1])))
    le = lambda sub, sup: SUB[(sup, sub)]
    b = first(x for x in keys if not le(x, x))
    R.check(b is None, "r2", "reflexive", C.loc(f_sub["sp"]), "subtype relation is not reflexive at %s" % (b and show(b)))
    b = first((x, y) for x in keys for y in keys if x != y and le(x, y) and le(y, x))
    R.check(b is None, "r2", "antisymmetric", C.loc(f_sub["sp"]), "subtype relation is not antisymmetric: %s" % (b and (show(b[0]), show(b[1])),))
    b = first((x, y, z) for x in keys for y in keys if le(x, y) for z in keys if le(y, z) and not le(x, z))
    R.check(b is None, "r2", "transitive", C.loc(f_sub["sp"]), "subtype relation is not transitive: %s" % (b and [show(k) for k in b],))

    # r1
    def ik(x, y):
        v = INT[(x, y)]
        return None if v is None else v.key()
    b = first((x, y) for x in keys for y in keys if ik(x, y) != ik(y, x))
    R.check(b is None, "r1", "commutative", C.loc(f_int["sp"]), "intersect is not commutative for %s" % (b and (show(b[0]), show(b[1])),))
    b = first(x for x in keys if ik(x, x) != x)
    R.check(b is None, "r1", "idempotent", C.loc(f_int["sp"]), "intersect(%s, itself) = %s" % (b and show(b), b and ik(b, b)))
    b = first((x, y) for x in keys for y in keys if (ik(x, y) is None) != (not T.same_shape(K[x], K[y])))
    R.check(b is None, "r1", "none-iff-shape-differs", C.loc(f_int["sp"]),
            "intersect(%s, %s) is %s but the shapes %s" % (b and show(b[0]), b and show(b[1]), b and ik(*b), "differ" if b and not T.same_shape(K[b[0]], K[b[1]]) else "agree"))
    def lower(x, y):
        m = INT[(x, y)]
        return m is None or (T.is_subtype(K[x], m) and T.is_subtype(K[y], m))
    b = first((x, y) for x in keys for y in keys if not lower(x, y))
    R.check(b is None, "r1", "lower-bound", C.loc(f_int["sp"]), "intersect(%s, %s) = %s is not a subtype of both" % (b and show(b[0]), b and show(b[1]), b and INT[b]))
    def greatest(x, y):
        m = INT[(x, y)]
        for c in keys:
            if T.is_subtype(K[x], K[c]) and T.is_subtype(K[y], K[c]):
                if m is None or not T.is_subtype(m, K[c]):
                    return c
        return None
    b = first((x, y, greatest(x, y)) for x in keys for y in keys if greatest(x, y) is not None)
    R.check(b is None, "r1", "greatest", C.loc(f_int["sp"]),
            "%s is a common subtype of %s and %s but not a subtype of their intersection %s"
            % (b and show(b[2]), b and show(b[0]), b and show(b[1]), b and INT[(b[0], b[1])]))
    b = first((x, y) for x in keys for y in keys if ik(x, y) != (lambda m: m.key() if m else None)(T.meet(K[x], K[y])))
    R.check(b is None, "r1", "equals-definition", C.loc(f_int["sp"]), "intersect(%s, %s) differs from the meet" % (b and show(b[0]), b and show(b[1])))

    # r4
    b = first((x, y) for x in keys for y in keys if EQN[(x, y)] != T.same_shape(K[x], K[y]))
    R.check(b is None, "r4", "equals-shape-equality", C.loc(f_eqn["sp"]), "equal_ignoring_nullability(%s, %s) is wrong" % (b and show(b[0]), b and show(b[1])))
    b = first(x for x in keys if not EQN[(x, x)])
    R.check(b is None, "r4", "reflexive", C.loc(f_eqn["sp"]), "not reflexive at %s" % (b and show(b)))
    b = first((x, y) for x in keys for y in keys if EQN[(x, y)] != EQN[(y, x)])
    R.check(b is None, "r4", "symmetric", C.loc(f_eqn["sp"]), "not symmetric: %s" % (b,))
    b = first((x, y, z) for x in keys for y in keys if EQN[(x, y)] for z in keys if EQN[(y, z)] and not EQN[(x, z)])
    R.check(b is None, "r4", "transitive", C.loc(f_eqn["sp"]), "not transitive: %s" % (b,))
    uses_null = [c.get("callee") for c in calls_in(f_eqn["body"]) if c.get("name") in ("nullable", "with_nullability")]
    R.check(not uses_null, "r4", "reads-no-nullability", C.loc(f_eqn["sp"]), "equal_ignoring_nullability consults nullability: %s" % uses_null)

    # r3
    vals = T.all_values()
    VAL = {}
    try:
        for t in types + [T.named("Float", True), T.named("Boolean", False), T.listof(T.named("Float", False), True)]:
            K.setdefault(t.key(), t)
            for v in vals:
                VAL[(t.key(), v)] = call(f_val, t, T.mk_value(v))
    except A.Unsupported as e:
        R.fail("engine", "unanalysable/is_valid_value", C.loc(f_val["sp"]), "abstract evaluation met an unsupported construct: %s" % e)
        return
    except A.PanicReached as e:
        R.fail("r3", "panic", C.loc(f_val["sp"]), "is_valid_value panics on a scalar/list value: %s" % e.what)
        return
    R.extra["type_value_pairs"] = len(VAL)
    b = first((tk, v) for (tk, v), got in VAL.items() if got != T.valid(K[tk], v))
    R.check(b is None, "r3", "equals-definition", C.loc(f_val["sp"]),
            "is_valid_value(%s, %s) = %s differs from the definition" % (b and show(b[0]), b and b[1], b and VAL[b]))
    b = first((x, y, v) for x in keys for y in keys if le(x, y) for v in vals if VAL.get((x, v)) and not VAL.get((y, v)))
    R.check(b is None, "r3", "upward-closed", C.loc(f_val["sp"]),
            "value %s is valid for %s but not for its supertype %s" % (b and b[2], b and show(b[0]), b and show(b[1])))

    # r6: the same operations at large list depths (the mask uses 2 bits per layer up to depth 30: bit 60/61 edge)
    R.rule("r6", "intersect / subtype / shape equality agree with the definitions on deep types (list depth 3, 10, 29, 30) incl. depth mismatches")
    deep = []
    for dpt in (3, 10, 29, 30):
        deep += [B.nested(dpt, lambda i: True), B.nested(dpt, lambda i: False), B.nested(dpt, lambda i: i % 2 == 0),
                 B.nested(dpt, lambda i, dpt=dpt: i != dpt), B.nested(dpt, lambda i: i != 0)]
    deep.append(B.nested(30, lambda i: i == 30, base="String"))
    bad6 = None
    n6 = 0
    try:
        for a, b_ in itertools.product(deep, deep):
            if abs(a.depth() - b_.depth()) > 1 and a.depth() not in (29, 30):
                continue
            n6 += 1
            got_sub = call(f_sub, a, b_)
            o = call(f_int, a, b_)
            got_int = None if o.variant == "None" else A.deref(o.fields[0]).key()
            got_eqn = call(f_eqn, a, b_)
            m = T.meet(a, b_)
            if bad6 is None and (got_sub != T.is_subtype(a, b_) or got_int != (m.key() if m else None) or got_eqn != T.same_shape(a, b_)):
                bad6 = (B.render(a)[:40], B.render(b_)[:40], a.depth(), b_.depth(),
                        "subtype=%s want %s" % (got_sub, T.is_subtype(a, b_)), "intersect %s" % ("ok" if got_int == (m.key() if m else None) else "wrong"),
                        "shape-eq=%s want %s" % (got_eqn, T.same_shape(a, b_)))
        R.check(bad6 is None, "r6", "deep-types", C.loc(f_int["sp"]), "a type operation is wrong on deep list types: %s" % (bad6,), {"pairs": n6})
    except A.Unsupported as e:
        R.fail("r6", "unanalysable", C.loc(f_int["sp"]), "abstract evaluation on deep types failed: %s (fail closed)" % e)
    except A.PanicReached as e:
        R.fail("r6", "panic", C.loc(f_int["sp"]), "a Type operation panics on a deep type: %s" % e.what)

    # r5: bit layout constants and shift agreement
    consts = {}
    for f in C.fns:
        if f["path"].startswith("trustfall_core::ir::types::base::Modifiers::") and f.get("kind", "").startswith("AssocConst"):
            v = strip(f["body"])
            if v.get("k") == "lit":
                consts[f["name"]] = v.get("v")
    R.check(consts.get("NON_NULLABLE_MASK") == 1 and consts.get("LIST_MASK") == 2, "r5", "mask-constants", "-",
            "Modifiers::NON_NULLABLE_MASK / LIST_MASK are %s / %s, expected 1 / 2" % (consts.get("NON_NULLABLE_MASK"), consts.get("LIST_MASK")))
    shifts = []
    for f in C.fns:
        if "ir::types::base::" in f["path"] and "::test" not in f["path"]:
            for n in walk(f["body"]):
                if n.get("k") == "bin" and n["op"] in ("<<", ">>"):
                    r = strip(n["r"])
                    if r.get("k") == "lit":
                        shifts.append((f["path"].split("::")[-1], n["op"], r.get("v"), n))
    R.floor("r5", "literal layer shifts", len(shifts), 2)
    for name, op, v, n in shifts:
        R.check(v == 2, "r5", "shift/%s/%s" % (name, op), C.loc(n["sp"]), "%s shifts the modifier mask by %s; every layer is 2 bits wide" % (name, v))
    g = C.fn(TY + "::new_list_type")
    if g is not None:
        first_stmt = g["body"]["stmts"][0] if g["body"].get("stmts") else {}
        guard = first_stmt.get("k") == "if" and any(c.get("name") == "at_max_list_depth" for c in calls_in(first_stmt["cond"]))
        R.check(guard, "r5", "depth-guard", C.loc(g["sp"]), "new_list_type must test at_max_list_depth() before shifting the mask")
