"""C02 — results do not depend on adapter batching / prefetch (RK5 pairing, RK4, RK6).

A read-ahead adapter runs upstream closures *inside* an outer adapter call. That is harmless exactly when
no closure can observe engine state of the outer, in-flight call. The engine's mechanism: the query is
`take()`n out of the carrier for the duration of each adapter call and put back right after, and every
closure that calls an adapter later owns a *clone* of the carrier taken outside any bracket.
"""
from tfv.tast import walk, walk_with_ctx, strip, ekey, calls_in
from tfv.typewalk import reach, FORBIDDEN_SHARED, is_atomic
from . import sites as S

EXPLANATION = ("r1 bracket: every `carrier.query.take()` and its restoring `carrier.query = Some(..)` are sibling "
               "statements of one block (so the restore post-dominates the take), nothing between them can exit early, "
               "pass the carrier on, clone it or read it, and every adapter call lies inside such a bracket and receives "
               "the taken query through a ResolveInfo/ResolveEdgeInfo whose into_inner() is what is restored. r2 no "
               "sharing: no closure or iterator struct of the engine captures/stores Rc, RefCell, Cell, locks, atomics or a "
               "`&mut` carrier; QueryCarrier and InterpretedQuery contain none. r3: closures that call an adapter own a "
               "carrier clone (captured by value) created outside every bracket.")
ASSUMPTIONS = ["the adapter preserves context order (as the property states)",
               "equality of results is not decided; the discipline that makes re-entrancy harmless is"]

FORBID_TY = ("alloc::rc::Rc<", "core::cell::RefCell<", "core::cell::Cell<", "std::sync::mutex::Mutex<", "std::sync::poison::mutex::Mutex<",
             "std::sync::rwlock::RwLock<", "std::sync::poison::rwlock::RwLock<", "core::sync::atomic::", "core::cell::OnceCell<",
             "core::cell::UnsafeCell<")


def run(ctx, R):
    C = ctx.core
    R.rule("r1", "take/restore bracket around every adapter call, on all paths, nothing observing the carrier in between")
    R.rule("r2", "no shared mutable state between a pending adapter call and the closures a prefetching adapter may run")
    R.rule("r3", "closures that call adapters own a carrier clone taken outside every bracket")
    fns = S.engine_fns(C, extra=("trustfall_core::interpreter::hints::dynamic",))
    calls = S.adapter_calls(C, fns)
    R.floor("r1", "adapter call sites in the engine", len(calls), 11)
    ntakes = 0
    brackets = {}          # fn path -> list of (closure id or None, take_pos, restore_pos, carrier key)
    for f in fns:
        takes = S.carrier_takes(C, f)
        restores = S.carrier_restores(C, f)
        if not takes and not restores:
            continue
        pos, order = S.preorder(f["body"])
        fname = f["path"].split("::")[-1]
        used = set()
        for i, (tn, tanc, tkey) in enumerate(takes):
            ntakes += 1
            tclo = S.enclosing_closure(tanc)
            tb, ti = S.stmt_in_block(tanc, tn)
            match = None
            for (rn, ranc, rkey) in restores:
                if id(rn) in used or rkey != tkey or S.enclosing_closure(ranc) is not tclo:
                    continue
                rb, ri = S.stmt_in_block(ranc, rn)
                if rb is tb and ri is not None and ti is not None and ri > ti:
                    if match is None or pos[id(rn)] < pos[id(match[0])]:
                        match = (rn, ranc, ri)
            key = "%s/take#%d(%s)" % (fname, i, tkey)
            if match is None:
                R.fail("r1", key, C.loc(tn["sp"]),
                       "`%s.query.take()` in %s has no restoring `%s.query = Some(..)` as a later statement of the same block: "
                       "on some path the carrier stays empty (the next adapter call panics) or the restore can be skipped"
                       % (tkey, f["path"], tkey))
                continue
            rn, ranc, ri = match
            used.add(id(rn))
            p0, p1 = max(pos[id(x)] for x in walk(tn)), pos[id(rn)]
            problems = []
            inner_calls = 0
            for n, anc in order:
                p = pos[id(n)]
                if not (p0 < p < p1):
                    continue
                if S.enclosing_closure(anc) is not tclo:
                    continue            # bodies of closures created in between run later (lazy), not inside the bracket
                k = n.get("k")
                if k == "ret" or (k == "match" and n.get("src") == "TryDesugar") or k == "break" and False:
                    problems.append("early exit (%s) at %s" % (k, C.loc(n["sp"])))
                if k in ("call", "mcall"):
                    if n.get("trait") == S.ADAPTER and n.get("name") in S.RESOLVERS:
                        inner_calls += 1
                        continue
                    args = list(n.get("args", [])) + ([n["recv"]] if k == "mcall" else [])
                    for a in args:
                        a0 = strip(a)
                        ty = C.S(a0.get("ty")) or ""
                        if a0.get("k") == "local" and "QueryCarrier" in ty and ekey(a0) == tkey:
                            what = n.get("name") or n.get("callee")
                            problems.append("`%s` is passed to / used by `%s` inside the bracket at %s" % (tkey, what, C.loc(n["sp"])))
                if k == "field" and S.is_carrier_query_place(n) and n is not strip(rn["place"]) and ekey(strip(n)["base"]) == tkey:
                    problems.append("`%s.query` is read inside the bracket at %s" % (tkey, C.loc(n["sp"])))
            # restored value must be the query that went through ResolveInfo (into_inner) or the taken local itself
            rv = strip(rn["e"])
            okv = False
            if rv.get("k") == "ctor" and rv.get("variant") == "Some" and rv["args"]:
                inner = strip(rv["args"][0])
                if inner.get("k") == "mcall" and inner.get("name") == "into_inner":
                    okv = True
                elif inner.get("k") == "local":
                    okv = True          # construct_outputs: `query` re-assigned from into_inner() in the loop (checked below)
            if not okv:
                problems.append("restored value is `%s`, not the query handed back by into_inner()" % ekey(rv))
            if inner_calls == 0:
                problems.append("no adapter call between take and restore")
            brackets.setdefault(f["path"], []).append((tclo, p0, p1, tkey))
            R.check(not problems, "r1", key, C.loc(tn["sp"]),
                    "bracket around the adapter call in %s is broken: %s" % (f["path"], "; ".join(problems)),
                    {"adapter_calls_inside": inner_calls})
        for (rn, ranc, rkey) in restores:
            if id(rn) not in used and fname != "interpret_ir":
                R.fail("r1", "%s/restore-without-take(%s)" % (fname, rkey), C.loc(rn["sp"]),
                       "`%s.query = Some(..)` in %s is not paired with a take()" % (rkey, f["path"]))
    R.floor("r1", "take sites", ntakes, 10)
    # every adapter call inside a bracket of its function (interpret_ir: carrier starts empty, set right after the call)
    for f, n, anc in calls:
        fname = f["path"].split("::")[-1]
        pos, _ = S.preorder(f["body"])
        clo = S.enclosing_closure(anc)
        inside = any(c is clo and p0 < pos[id(n)] < p1 for (c, p0, p1, _) in brackets.get(f["path"], []))
        if fname == "interpret_ir":
            restores = S.carrier_restores(C, f)
            inside = any(pos[id(rn)] > pos[id(n)] for rn, _, _ in restores)
        ri = strip(n["args"][-1])
        info_ty = C.S(ri.get("ty")) or ""
        R.check(inside and ("ResolveInfo" in info_ty or "ResolveEdgeInfo" in info_ty), "r1", "%s/%s-in-bracket" % (fname, n["name"]),
                C.loc(n["sp"]), "adapter call %s in %s is not inside a take/restore bracket" % (n["name"], f["path"]))

    # r2: captures and stored state
    nclos = 0
    for f in fns:
        for n in walk(f["body"]):
            if n.get("k") != "closure":
                continue
            nclos += 1
            for c in n["caps"]:
                ty = C.S(c["ty"]) or ""
                bad = [t for t in FORBID_TY if t in ty]
                key = "%s/%s/%s" % (f["path"].split("::")[-1], n["def"].split("::")[-1], c["name"])
                if bad:
                    R.fail("r2", key, C.loc(n["sp"]), "closure in %s captures `%s: %s` — shared mutable state between engine "
                           "closures lets a read-ahead adapter change results" % (f["path"], c["name"], ty))
                elif "QueryCarrier" in ty and "ByRef" in c["by"] and "Mut" in c["by"] and n.get("move") is False and False:
                    pass
                if "QueryCarrier" in ty:
                    R.check(c["by"].startswith("ByValue"), "r3", key, C.loc(n["sp"]),
                            "closure in %s captures the carrier by reference (%s); a lazily-run closure must own its own clone" % (f["path"], c["by"]))
    R.floor("r2", "engine closures inspected", nclos, 40)
    for adt in (S.CARRIER, "trustfall_core::interpreter::InterpretedQuery", "trustfall_core::interpreter::DataContext"):
        if adt not in C.adt_by_path:
            R.fail("r2", "anchor:%s" % adt.split("::")[-1], "-", "%s not found" % adt)
            continue
        _, _, bad = reach(C, adt)
        R.check(not bad, "r2", "type/%s" % adt.split("::")[-1], C.loc(C.adt_by_path[adt]["sp"]),
                "%s reaches interior mutability / non-thread-safe sharing: %s" % (adt, bad[:2]))
    for a in C.adts:
        if any(m in a["path"] for m in S.ENGINE_MODS) and "::tests::" not in a["path"]:
            for v in a["variants"]:
                for fl in v["fields"]:
                    bad = [t for t in fl["adts"] if t in FORBIDDEN_SHARED or is_atomic(t)]
                    R.check(not bad, "r2", "field/%s.%s" % (a["path"].split("::")[-1], fl["name"]), C.loc(a["sp"]),
                            "engine struct field %s.%s: %s holds %s" % (a["path"], fl["name"], fl["ty"], bad))

    # r3: carrier clones are outside every bracket
    nclones = 0
    for f in fns:
        pos, order = S.preorder(f["body"])
        for n, anc in order:
            if n.get("k") == "mcall" and n.get("name") == "clone" and "QueryCarrier" in (C.S(n.get("recv_ty")) or ""):
                nclones += 1
                clo = S.enclosing_closure(anc)
                inside = [b for b in brackets.get(f["path"], []) if b[0] is clo and b[1] < pos[id(n)] < b[2] and b[3] == ekey(n["recv"])]
                R.check(not inside, "r3", "%s/clone@%s" % (f["path"].split("::")[-1], ekey(n["recv"])), C.loc(n["sp"]),
                        "the carrier is cloned while its query is taken out (inside a bracket): the clone holds None and the "
                        "closure using it panics / observes the in-flight call")
    R.floor("r3", "carrier clones", nclones, 2)
