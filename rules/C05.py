"""C05 — required-properties hints list every property the engine will request (RK2 footprint / provenance)."""
from tfv.tast import walk, walk_with_ctx, strip, ekey, calls_in
from tfv.prov import Scope
from . import sites as S

EXPLANATION = ("r1 request sources (fail closed): every `adapter.resolve_property` call site of the engine is classified by "
               "the provenance of its property-name argument, followed through parameters to all internal call sites: "
               "component output, filter subject, tag used in a vertex filter, tag used in a fold post-filter, tag imported "
               "into a fold; a site that cannot be classified fails the check. r2 coverage: for every class that occurs, the "
               "implementation of VertexInfo::required_properties (located as the trait method's impl) must read the IR "
               "source that class comes from, restricted to the asked vertex — otherwise a whole class of requests is "
               "invisible to the hint.")
ASSUMPTIONS = ["set equality for a concrete query is not decided; decided is that no class of request is invisible to the hint"]

IR = "trustfall_core::ir::"
CLASSES = {
    "output": ("field:%sIRQueryComponent.outputs" % IR,),
    "filter-subject": ("field:%sIRVertex.filters" % IR, "field:%sLocalField.field_name" % IR),
    "tag-in-vertex-filter": ("field:%sIRVertex.filters" % IR, "variant:%sArgument::Tag" % IR),
    "tag-in-fold-post-filter": ("field:%sIRFold.post_filters" % IR, "variant:%sArgument::Tag" % IR),
    "imported-tag": ("field:%sIRFold.imported_tags" % IR,),
}
# what required_properties must read for each class
OBLIGATION = {
    "output": [("field:%sIRQueryComponent.outputs" % IR,), ("field:%sContextField.vertex_id" % IR,)],
    "filter-subject": [("field:%sIRVertex.filters" % IR,), ("field:%sLocalField.field_name" % IR,)],
    "tag-in-vertex-filter": [("field:%sIRQueryComponent.vertices" % IR,), ("field:%sIRVertex.filters" % IR,),
                             ("variant:%sArgument::Tag" % IR,), ("variant:%sFieldRef::ContextField" % IR,)],
    "tag-in-fold-post-filter": [("field:%sIRQueryComponent.folds" % IR,), ("field:%sIRFold.post_filters" % IR,),
                                ("variant:%sArgument::Tag" % IR,)],
    "imported-tag": [("field:%sIRQueryComponent.folds" % IR,), ("field:%sIRFold.imported_tags" % IR,)],
}


def all_tokens(C, f, extra_nodes=None):
    """Every provenance token occurring anywhere in f (footprint incl. closures and patterns)."""
    toks = set()
    for n in walk(f["body"]):
        k = n.get("k")
        if k == "field":
            toks.add("field:%s.%s" % (n.get("adt"), n["name"]))
        if k in ("ctor", "path", "struct") and n.get("variant"):
            toks.add("variant:%s::%s" % (n.get("adt"), n["variant"]))
        if k in ("call", "mcall"):
            toks.add("call:%s" % (n.get("callee") or n.get("name")))
        if k == "match":
            for a in n["arms"]:
                _pat_tokens(a["pat"], toks)
        if k in ("let", "letx"):
            _pat_tokens(n["pat"], toks)
    return toks


def _pat_tokens(p, toks):
    if not isinstance(p, dict):
        return
    if p.get("k") in ("pvariant", "pstruct") and p.get("variant"):
        toks.add("variant:%s::%s" % (p.get("adt"), p["variant"]))
    for key in ("sub", "alts", "pre", "post"):
        v = p.get(key)
        if isinstance(v, list):
            for x in v:
                _pat_tokens(x, toks)
        elif isinstance(v, dict):
            _pat_tokens(v, toks)
    for fl in p.get("fields", []) or []:
        _pat_tokens(fl.get("pat"), toks)


class Inter:
    """Provenance across internal calls: a parameter's tokens = union over the arguments at every call site."""
    def __init__(self, C, fns):
        self.C = C
        self.fns = {f["path"]: f for f in fns}
        self.scopes = {}
        self.callsites = {}
        for f in fns:
            for n, anc in walk_with_ctx(f["body"]):
                if n.get("k") in ("call", "mcall"):
                    c = n.get("resolved") or n.get("callee") or ""
                    if c in self.fns:
                        self.callsites.setdefault(c, []).append((f, n))

    def scope(self, f):
        if f["path"] not in self.scopes:
            self.scopes[f["path"]] = Scope(self.C, f)
        return self.scopes[f["path"]]

    def tokens(self, f, expr, depth=0, seen=None):
        seen = seen if seen is not None else set()
        toks = set(self.scope(f).tokens(expr, control=False))
        out = set(toks)
        if depth >= 5:
            return out
        for t in toks:
            if t.startswith("param#") or t.startswith("param:"):
                # which parameter index?
                idx = None
                if t.startswith("param#"):
                    idx = int(t[6:])
                else:
                    name = t[6:]
                    for i, p in enumerate(f["params"]):
                        if p.get("name") == name:
                            idx = i
                if idx is None:
                    continue
                for (caller, call) in self.callsites.get(f["path"], []):
                    key = (caller["path"], id(call), idx)
                    if key in seen:
                        continue
                    seen.add(key)
                    args = list(call.get("args", []))
                    if call.get("k") == "mcall":
                        args = [call["recv"]] + args
                    if idx < len(args):
                        sub = self.tokens(caller, args[idx], depth + 1, seen)
                        out |= {"via:%s" % caller["path"].split("::")[-1]} | sub
        return out


def r3_tables(ctx, R, g, occurring):
    """r3: required_properties is abstractly evaluated on IR components that contain one instance of every request class
    at every position relative to the asked vertex; the result must contain every property the engine will request."""
    from tfv import absint as A
    from tfv import stdmodel as M
    from . import C11 as B
    C = ctx.core
    R.rule("r3", "required_properties evaluated on sample IR: every request class at every position (own vertex, later vertex, "
                 "fold post-filter, imported into a fold) is listed for the vertex that owns the property")
    VI = "trustfall_core::interpreter::hints::vertex_info::InternalVertexInfo::"
    I = M.intrinsics()
    I[VI + "current_component"] = lambda ip, n, a: A.deref(a[0]).fields["component"]
    I[VI + "current_vertex"] = lambda ip, n, a: A.deref(a[0]).fields["vertex"]

    def lf(name):
        return A.Struct(IR + "LocalField", {"field_name": name, "field_type": B.INT_NN})

    def tag(vid, name):
        return A.Enum(IR + "Argument", "Tag", [A.Enum(IR + "FieldRef", "ContextField", [B.cf(vid, name)])])

    def var(name):
        return A.Enum(IR + "Argument", "Variable", [A.Struct(IR + "VariableRef", {"variable_name": name, "variable_type": B.INT_NN})])

    def op(kind, left, right=None):
        return A.Enum(IR + "Operation", kind, [left] + ([right] if right is not None else []))

    def sample():
        inner = B.component(3, [B.vertex(3)], outputs={"b": B.cf(3, "inner_out")})
        f = B.fold(2, 2, 3, inner)
        f.fields["post_filters"] = A.VecV([op("GreaterThan", B.COUNT(), tag(1, "post1")), op("LessThan", B.COUNT(), tag(2, "post2")),
                                           op("Equals", B.COUNT(), var("n"))])
        f.fields["imported_tags"] = A.VecV([
            A.Enum(IR + "FieldRef", "ContextField", [B.cf(1, "imp1")]), A.Enum(IR + "FieldRef", "ContextField", [B.cf(2, "imp2")]),
            A.Enum(IR + "FieldRef", "FoldSpecificField", [A.Struct(IR + "FoldSpecificField", {"fold_eid": 9, "fold_root_vid": 9, "kind": B.COUNT()})])])
        v1 = B.vertex(1, [op("Equals", lf("subj1"), tag(1, "own1")), op("LessThan", lf("subj1b"), var("x")), op("IsNotNull", lf("subj1c"))])
        v2 = B.vertex(2, [op("LessThan", lf("subj2"), tag(1, "later1")), op("GreaterThan", lf("subj2b"), tag(2, "own2"))])
        comp = B.component(1, [v1, v2], edges=[(1, B.edge(1, 1, 2))], folds=[(2, f)],
                           outputs={"o1": B.cf(1, "out1"), "o2": B.cf(2, "out2"), "o1b": B.cf(1, "out1b")})
        return comp, {1: v1, 2: v2}
    expected = {
        1: {"output": {"out1", "out1b"}, "filter-subject": {"subj1", "subj1b", "subj1c"},
            "tag-in-vertex-filter": {"own1", "later1"}, "tag-in-fold-post-filter": {"post1"}, "imported-tag": {"imp1"}},
        2: {"output": {"out2"}, "filter-subject": {"subj2", "subj2b"},
            "tag-in-vertex-filter": {"own2"}, "tag-in-fold-post-filter": {"post2"}, "imported-tag": {"imp2"}},
    }
    for vid in (1, 2):
        comp, vs = sample()
        recv = A.Struct("FakeVertexInfo", {"component": comp, "vertex": vs[vid]})
        try:
            ip = A.Interp(C, I, max_steps=200000)
            res = ip.call_fn(g, [recv])
            got = []
            for x in M.to_iter(res):
                x = A.deref(x)
                got.append(A.deref(x.fields["name"]) if isinstance(x, A.Struct) and "name" in x.fields else repr(x))
        except A.Unsupported as e:
            R.fail("r3", "unanalysable/vertex%d" % vid, C.loc(g["sp"]), "abstract evaluation of required_properties failed: %s (fail closed)" % e)
            continue
        except A.PanicReached as e:
            R.fail("r3", "panic/vertex%d" % vid, C.loc(g["sp"]), "required_properties reaches a panic on the sample IR: %s" % e.what)
            continue
        R.check(len(got) == len(set(got)), "r3", "no-duplicates/vertex%d" % vid, C.loc(g["sp"]), "a property is listed twice: %s" % got)
        for cls, names in sorted(expected[vid].items()):
            if cls not in occurring:
                continue
            missing = sorted(names - set(got))
            where = {"own1": "a tag used by a filter of the same vertex", "own2": "a tag used by a filter of the same vertex",
                     "later1": "a tag used by a filter of a later vertex"}
            R.check(not missing, "r3", "listed/%s/vertex%d" % (cls, vid), C.loc(g["sp"]),
                    "the engine requests %s of vertex %d (class `%s`%s) but required_properties for that vertex lists only %s"
                    % (missing, vid, cls, "".join(": " + where[m] for m in missing if m in where), sorted(got)),
                    {"listed": sorted(got)})
        others = set().union(*expected[3 - vid].values())
        R.check(not (others & set(got)), "r3", "only-own-vertex/vertex%d" % vid, C.loc(g["sp"]),
                "required_properties for vertex %d lists properties of the other vertex: %s" % (vid, sorted(others & set(got))))


def run(ctx, R):
    C = ctx.core
    R.rule("r1", "every resolve_property call site has a classified request source (fail closed)")
    R.rule("r2", "required_properties reads the IR source of every request class that occurs")
    fns = S.engine_fns(C)
    inter = Inter(C, fns)
    sites = [(f, n, anc) for f, n, anc in S.adapter_calls(C, fns) if n["name"] == "resolve_property"]
    R.floor("r1", "resolve_property call sites", len(sites), 5)
    occurring = {}
    for f, n, anc in sites:
        name_arg = n["args"][2]
        toks = inter.tokens(f, name_arg)
        classes = []
        for cls, need in CLASSES.items():
            if all(t in toks for t in need):
                classes.append(cls)
        # disambiguate: a LocalField built from a tag of the same vertex is a tag, a plain left() is the subject
        fname = f["path"].split("::")[-1]
        key = "%s/%s" % (fname, ekey(name_arg))
        if not classes:
            R.fail("r1", key, C.loc(n["sp"]),
                   "cannot classify where the property name `%s` requested in %s comes from (tokens: %s); a new kind of "
                   "property request needs a coverage obligation on required_properties"
                   % (ekey(name_arg), f["path"], sorted(t for t in toks if t.startswith(("field:", "variant:")))[:12]))
            continue
        R.ok("r1", key, {"classes": classes, "closure": S.enclosing_closure(anc) is not None})
        for c in classes:
            occurring.setdefault(c, []).append("%s@%s" % (fname, C.loc(n["sp"])))
    R.units["request_classes"] = {k: v for k, v in occurring.items()}
    for need in ("output", "filter-subject", "tag-in-vertex-filter", "imported-tag"):
        R.check(need in occurring, "r1", "class-present/%s" % need, "-",
                "no resolve_property site is classified as `%s`; the classifier no longer recognises the engine's request sources" % need)

    # r2
    impl = [f for f in C.fns if f.get("impl_trait") == "trustfall_core::interpreter::hints::vertex_info::VertexInfo"
            and f["name"] == "required_properties"]
    if len(impl) != 1:
        R.fail("r2", "anchor", "-", "expected exactly one impl of VertexInfo::required_properties, found %d" % len(impl))
        return
    g = impl[0]
    # provenance of the *returned* iterator (data flow through chains, closures and pattern bindings):
    # a source that is read but does not flow into the result does not count
    foot = Scope(C, g).tokens(g["body"], control=True)
    R.units["result_provenance"] = sorted(t for t in foot if t.startswith(("field:trustfall_core::ir", "variant:trustfall_core::ir")))
    for cls in sorted(occurring):
        missing = [o for o in OBLIGATION[cls] if not all(t in foot for t in o)]
        R.check(not missing, "r2", "covers/%s" % cls, C.loc(g["sp"]),
                "the engine requests properties of class `%s` (%s) but required_properties never reads %s: those "
                "properties are missing from the hint" % (cls, "; ".join(occurring[cls][:3]), [m[0].split("::")[-1] for m in missing]),
                {"sites": occurring[cls]})
    r3_tables(ctx, R, g, occurring)
    # the result is restricted to the asked vertex: comparisons against the current vertex's vid
    cmp_vid = [n for n in walk(g["body"]) if n.get("k") == "bin" and n.get("op") == "==" and
               ("vertex_id" in ekey(n["l"]) + ekey(n["r"])) and ("vid" in ekey(n["l"]) + ekey(n["r"]))]
    R.check(len(cmp_vid) >= 2, "r2", "restricted-to-vertex", C.loc(g["sp"]),
            "required_properties must select outputs/tags of the asked vertex (found %d vertex-id comparisons)" % len(cmp_vid))
