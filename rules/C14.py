"""C14 — determinism: no hash order, clock, environment or address reaches a result (RK6, RK4)."""
from tfv.tast import walk_with_ctx, walk, ekey, strip
from tfv.typewalk import reach, HASH

EXPLANATION = ("r1: no hash container in any type that is compared, serialized or returned (IR, indexed query, error "
               "enums, traces). r2: every iteration over a HashMap/HashSet (local or foreign, found by receiver type) "
               "in trustfall_core flows only into an order-insensitive consumer (sort, BTree/Hash collection, "
               "len/any/all/min/max/...) or is an audited single-element / adapter-order site; a consumer that picks "
               "an element by position (next/nth/find/...) or lets the order escape is a violation. r3: no call into "
               "time / env / thread-id / RandomState::new / process id, no pointer-to-integer cast. r4: result rows are "
               "BTreeMaps (output names in key order).")
ASSUMPTIONS = ["BTreeMap/BTreeSet iterate in key order; itertools::sorted* sort stably by the given key",
               "the adapter under test is deterministic (C14 takes it as given)"]

ROOT_TYPES = [
    "trustfall_core::ir::IRQuery", "trustfall_core::ir::indexed::IndexedQuery",
    "trustfall_core::frontend::error::FrontendError", "trustfall_core::graphql_query::error::ParseError",
    "trustfall_core::schema::error::InvalidSchemaError", "trustfall_core::interpreter::error::QueryArgumentsError",
    "trustfall_core::ir::indexed::InvalidIRQueryError", "trustfall_core::interpreter::trace::Trace",
    "trustfall_core::ir::value::FieldValue", "trustfall_core::ir::types::base::Type",
]

ITER_METHODS = {"iter", "iter_mut", "keys", "values", "values_mut", "into_iter", "drain", "into_keys", "into_values",
                "extract_if"}
LAZY = {"map", "filter", "filter_map", "flat_map", "flatten", "chain", "cloned", "copied", "inspect", "peekable",
        "by_ref", "into_iter", "iter", "enumerate_sorted", "map_while", "zip", "fuse", "rev"}
ORDER_FREE = {"len", "count", "any", "all", "sum", "product", "min", "max", "min_by_key", "max_by_key", "min_by", "max_by",
              "contains", "is_empty", "sorted", "sorted_by", "sorted_by_key", "sorted_unstable", "sorted_unstable_by_key",
              "sorted_by_cached_key", "all_equal", "size_hint", "exactly_one", "at_most_one"}
POSITIONAL = {"next", "nth", "first", "last", "find", "find_map", "position", "take", "skip", "step_by", "take_while",
              "skip_while", "next_back", "reduce", "fold", "try_fold", "for_each", "try_for_each", "enumerate", "partition",
              "unzip", "join", "format", "collect_vec", "next_tuple", "tuple_windows", "dedup"}
ORDERED_COLLECT = ("alloc::collections::btree::map::BTreeMap", "alloc::collections::btree::set::BTreeSet",
                   "std::collections::hash::map::HashMap", "std::collections::hash::set::HashSet")

# audited sites: key -> reason.  key = "<fn name>/<receiver expr>/<iteration method>-><consumer>"
AUDIT = {
    "try_collect_unique/map/drain->for-loop":
        "keys of a map are unique: the loop inserts each key once into a BTreeMap entry, so no value order depends on hash order",
    "try_collect_unique/map/into_iter->collect":
        "collected into the function's result type (BTreeMap)",
    "vertex_type_iter/schema.vertex_types/values->escapes":
        "order of the introspection adapter's own vertices; C14 takes the adapter's order as given and C20 is set-valued",
}


def is_hash_ty(s):
    return bool(s) and ("collections::hash::map::HashMap<" in s or "collections::hash::set::HashSet<" in s
                        or s.startswith("hashbrown::") or "indexmap::" in s and False)


SORTS = {"sort", "sort_by", "sort_by_key", "sort_unstable", "sort_unstable_by", "sort_unstable_by_key", "sort_by_cached_key"}


def sorted_right_after(collect_node, ctx):
    """`let mut v: Vec<_> = <hash iteration>.collect(); v.sort*(..);` — the first later use of `v` is a sort."""
    let = None
    block = None
    for i in range(len(ctx) - 1, -1, -1):
        a = ctx[i]
        if a.get("k") == "let" and a.get("init") is not None and (a["init"] is collect_node or strip(a["init"]) is collect_node):
            let = a
            for j in range(i - 1, -1, -1):
                if ctx[j].get("k") == "block" and let in ctx[j].get("stmts", []):
                    block = ctx[j]
                    break
            break
    if let is None or block is None or let["pat"].get("k") != "bind":
        return False
    bid = let["pat"]["bid"]
    stmts = block["stmts"]
    rest = stmts[stmts.index(let) + 1:] + ([block["tail"]] if "tail" in block else [])
    for s in rest:
        uses = [n for n in walk(s) if n.get("k") == "local" and n.get("bid") == bid]
        if not uses:
            continue
        s0 = s
        return s0.get("k") == "mcall" and s0.get("name") in SORTS and strip(s0["recv"]).get("k") == "local" \
            and strip(s0["recv"]).get("bid") == bid
    return False


def classify(C, node, ctx):
    """Walk up from an iteration call through lazy adapters to its consumer. Returns (verdict, consumer name)."""
    cur = node
    for parent in reversed(ctx):
        k = parent.get("k")
        if k == "mcall" and parent.get("recv") is cur or (k == "mcall" and strip(parent.get("recv", {})) is cur):
            name = parent.get("name")
            if name in LAZY:
                cur = parent
                continue
            if name in ORDER_FREE:
                return "ok", name
            if name == "collect" or name == "extend" or name == "from_iter":
                ty = C.S(parent.get("ty")) or ""
                if ty.startswith(ORDERED_COLLECT) or any(ty.startswith("core::result::Result<" + t) or ty.startswith("core::option::Option<" + t) for t in ORDERED_COLLECT):
                    return "ok", "collect:" + ty.split("<")[0].split("::")[-1]
                if ty.startswith("alloc::vec::Vec<") and sorted_right_after(parent, ctx):
                    return "ok", "collect:Vec+sort"
                return "positional", "collect:" + ty[:60]
            if name in POSITIONAL:
                return "positional", name
            return "unknown", name or "?"
        if k in ("ref", "un", "cast") or (k == "block" and parent.get("tail") is cur):
            cur = parent
            continue
        if k == "call" and cur in parent.get("args", []):
            name = parent.get("name")
            c = parent.get("callee", "")
            if name == "into_iter" and c.endswith("IntoIterator::into_iter"):
                cur = parent
                continue
            if c.endswith("Box::<T>::new"):
                cur = parent
                continue
            if name in ORDER_FREE:
                return "ok", name
            return "escapes", name or c
        if k == "match" and parent.get("src") == "ForLoopDesugar":
            return "for-loop", "for-loop"
        if k in ("let", "letx", "if", "match", "ret", "struct", "ctor", "tuple", "assign", "block", "closure"):
            return "escapes", "escapes"
        return "escapes", k
    return "escapes", "escapes"


def run(ctx, R):
    C = ctx.core
    R.rule("r1", "no HashMap/HashSet inside compared / serialized / returned types")
    R.rule("r2", "hash-order iterations flow only into order-insensitive consumers (or audited sites)")
    R.rule("r3", "no ambient input: time, env, thread id, RandomState::new, process id, pointer-to-integer casts")
    R.rule("r4", "result rows are BTreeMaps")

    # r1
    for root in ROOT_TYPES:
        if root not in C.adt_by_path:
            R.fail("r1", "anchor:%s" % root.split("::")[-1], "-", "type %s not found" % root)
            continue
        local, foreign, bad = reach(C, root, forbidden=HASH)
        if bad:
            for (adt, field, fty, what) in bad:
                R.fail("r1", "%s.%s" % (adt.split("::")[-1], field), C.loc(C.adt_by_path[adt]["sp"]),
                       "%s.%s : %s — a hash container inside a value that is compared, serialized or returned "
                       "(reachable from %s); its iteration order differs between processes" % (adt, field, fty, root))
        else:
            R.ok("r1", "root/%s" % root.split("::")[-1], {"local_adts": len(local)})

    # r2
    sites = []
    for f in C.fns:
        body = f.get("body")
        if not isinstance(body, dict):
            continue
        if "::tests::" in f["path"]:
            continue
        for node, anc in walk_with_ctx(body):
            if node.get("k") not in ("mcall", "call") or node.get("name") not in ITER_METHODS:
                continue
            if node.get("mac") is not None and not (C.S(node["mac"]) or "").startswith("desugar"):
                # derive / serde expansions iterate nothing of ours
                chain = C.S(node["mac"])
                if any(x in chain for x in ("Serialize", "Deserialize", "Debug", "Clone", "PartialEq")):
                    continue
            rt = C.S(node.get("recv_ty")) if node.get("k") == "mcall" else None
            st = C.S(node.get("self_ty")) if node.get("self_ty") is not None else None
            a0 = None
            if node.get("k") == "call" and node.get("args"):
                a0 = C.S(node["args"][0].get("ty"))
            if not (is_hash_ty(rt) or is_hash_ty(st) or is_hash_ty(a0)):
                continue
            sites.append((f, node, anc))
    R.floor("r2", "hash-container iteration sites", len(sites), 10)
    for f, node, anc in sites:
        verdict, consumer = classify(C, node, anc)
        recv = node.get("recv") if node.get("k") == "mcall" else (node["args"][0] if node.get("args") else {})
        # a renamed / moved function keeps the name it had in the reference tree (facts.Crate.renamed_from), so its audit entry holds
        key = "%s/%s/%s->%s" % (C.renamed_from(f).rsplit("::", 1)[-1], ekey(recv), node.get("name"), consumer if verdict != "escapes" else "escapes")
        where = C.loc(node["sp"])
        if verdict == "ok":
            R.ok("r2", key, {"consumer": consumer, "at": where})
        elif key in AUDIT:
            R.ok("r2", key, {"audited": AUDIT[key], "at": where})
        else:
            R.fail("r2", key, where,
                   "iteration over a hash container in %s reaches `%s` (%s): the element picked / the order produced "
                   "depends on the process's hash seed" % (f["path"], consumer, verdict))

    # r3: ambient inputs
    FORBIDDEN_CALLS = ("std::time::", "std::env::", "std::thread::current", "std::hash::random::RandomState::new",
                       "std::process::id", "std::thread::Thread::id", "core::ptr::const_ptr::<impl *const T>::addr",
                       "std::collections::hash::map::HashMap::<K, V>::new")
    ncalls = 0
    for m in C.mir:
        if "::tests::" in m["path"]:
            continue
        for c in m["calls"]:
            ncalls += 1
            cal = c.get("resolved") or c.get("callee") or ""
            for fb in FORBIDDEN_CALLS[:-1]:
                if cal.startswith(fb):
                    R.fail("r3", "%s->%s" % (m["path"].split("::")[-1], cal), C.loc(c.get("sp")),
                           "%s calls %s: an ambient input (clock / environment / thread / random state) can reach a result" % (m["path"], cal))
        for cst in m["casts"]:
            # (debug builds insert `*const () -> usize` transmutes for alignment checks: compiler-made, not source casts)
            if cst["kind"] in ("PointerExposeProvenance",):
                R.fail("r3", "%s/ptr-to-int" % m["path"].split("::")[-1], C.loc(cst.get("sp")),
                       "pointer-to-integer cast %s -> %s: addresses differ between runs" % (cst["from"], cst["to"]))
    R.units["mir_calls_scanned"] = ncalls
    R.ok("r3", "ambient-inputs/scan", {"calls_scanned": ncalls})
    R.floor("r3", "MIR call sites scanned", ncalls, 3000)

    # r4: rows are BTreeMaps: Iterator::Item of interpret_ir's result
    f = C.fn("trustfall_core::interpreter::execution::interpret_ir")
    if f is None:
        R.fail("r4", "anchor:interpret_ir", "-", "interpret_ir not found")
    else:
        ret = C.S(f.get("ret_ty")) or ""
        R.check("Item = alloc::collections::btree::map::BTreeMap<alloc::sync::Arc<str>, trustfall_core::ir::value::FieldValue>" in ret,
                "r4", "row-type", C.loc(f["sp"]), "interpret_ir's rows are not BTreeMap<Arc<str>, FieldValue>: %s" % ret)
