"""C07 — filter operators decide their definition (RK1 dispatch tables, roles, sign constants)."""
from tfv.tast import walk, strip, comparison, ekey, calls_in, bool_formula, formula_atoms, truth_table
from tfv.tables import (matches_over, matches_over_tuple, str_matches, variant_table, adt_variants,
                        arm_value, arms_flat, pat_key, is_panic_arm)

EXPLANATION = ("Decides the structural clauses of C07 on the typed HIR of trustfall_core: the two operator "
               "dispatch tables, the operator-name tables, one comparison operator per ordering function, "
               "sign-branch constants of the mixed-integer slow paths, optional pass-through formula.")
ASSUMPTIONS = ["integer/str/regex primitives (`<` on i64/u64/f64/str, str::starts_with, Regex::is_match, "
               "TryFrom between i64 and u64) are std's / regex's and behave as documented"]

OP = "trustfall_core::ir::Operation"
FV = "trustfall_core::ir::value::FieldValue"
MOD = "trustfall_core::interpreter::filtering::"

# variant -> (role of base function, negated)
REFERENCE = {
    "Equals": ("eq", False), "NotEquals": ("eq", True),
    "LessThan": ("<", False), "LessThanOrEqual": ("<=", False),
    "GreaterThan": (">", False), "GreaterThanOrEqual": (">=", False),
    "Contains": ("contains", False), "NotContains": ("contains", True),
    "OneOf": ("one_of", False), "NotOneOf": ("one_of", True),
    "HasPrefix": ("prefix", False), "NotHasPrefix": ("prefix", True),
    "HasSuffix": ("suffix", False), "NotHasSuffix": ("suffix", True),
    "HasSubstring": ("substring", False), "NotHasSubstring": ("substring", True),
    "RegexMatches": ("regex", False), "NotRegexMatches": ("regex", True),
}
NAMES = {
    "is_null": "IsNull", "is_not_null": "IsNotNull", "=": "Equals", "!=": "NotEquals", "<": "LessThan",
    "<=": "LessThanOrEqual", ">": "GreaterThan", ">=": "GreaterThanOrEqual", "contains": "Contains",
    "not_contains": "NotContains", "one_of": "OneOf", "not_one_of": "NotOneOf", "has_prefix": "HasPrefix",
    "not_has_prefix": "NotHasPrefix", "has_suffix": "HasSuffix", "not_has_suffix": "NotHasSuffix",
    "has_substring": "HasSubstring", "not_has_substring": "NotHasSubstring", "regex": "RegexMatches",
    "not_regex": "NotRegexMatches",
}


def local_callees(C, f, depth=0, seen=None):
    """fn + local fns in the filtering module it calls directly (slow paths, one_of from contains)."""
    seen = seen if seen is not None else []
    if f["path"] in [g["path"] for g in seen] or depth > 3:
        return seen
    seen.append(f)
    for c in calls_in(f["body"]):
        p = c.get("callee", "")
        if p.startswith(MOD):
            g = C.fn(p)
            if g is not None:
                local_callees(C, g, depth + 1, seen)
    return seen


def is_zero_lit(n):
    n = strip(n)
    return n.get("k") == "lit" and n.get("v") == 0


def operand_comparisons(C, f):
    """Comparisons between two non-literal operands in f and its local callees."""
    ops = []
    for g in local_callees(C, f):
        for n in walk(g["body"]):
            c = comparison(n)
            if not c:
                continue
            op, l, r = c
            if is_zero_lit(l) or is_zero_lit(r):
                continue
            ops.append((op, g["path"], n))
    return ops


def role_of(C, f):
    """Semantic role of a binary filter function, from what it does (not from its name)."""
    callees = set()
    for g in local_callees(C, f):
        for c in calls_in(g["body"]):
            callees.add(c.get("resolved") or c.get("callee") or "")
            callees.add(c.get("callee") or "")
    cmps = operand_comparisons(C, f)
    ord_ops = {op for op, _, _ in cmps if op in ("<", "<=", ">", ">=")}
    if any(c.endswith("str::<impl str>::starts_with") or c == "core::str::<impl str>::starts_with" for c in callees):
        return "prefix"
    if any(c.endswith("<impl str>::ends_with") for c in callees):
        return "suffix"
    if any(c.endswith("<impl str>::contains") for c in callees):
        return "substring"
    if any(c.startswith("regex::") and c.endswith("::is_match") for c in callees):
        return "regex"
    if ord_ops:
        if len(ord_ops) == 1:
            return next(iter(ord_ops))
        return "mixed-ordering:" + ",".join(sorted(ord_ops))
    # one_of / contains / eq: look at structure
    body = f["body"]
    params = [p.get("name") for p in f["params"]]
    # contains = one_of with swapped operands
    v = arm_value(body)
    v = strip(v)
    if v.get("k") == "call" and v.get("callee", "").startswith(MOD) and len(v["args"]) == 2:
        inner = C.fn(v["callee"])
        a = [ekey(x) for x in v["args"]]
        if inner is not None and a == [params[1], params[0]]:
            r = role_of(C, inner)
            if r == "one_of":
                return "contains"
            return "swapped:" + r
    # one_of: iterates over the list payload of the *right* operand and compares with the left operand
    loops = [n for n in walk(body) if n.get("k") == "loop"]
    eqs = [(op, l, r) for (op, l, r) in (comparison(n) or (None, None, None) for n in walk(body)) if op == "=="]
    if loops and eqs:
        ms = matches_over(body, FV, 1)
        scrut_ok = ms and ekey(ms[0]["scrut"]) == params[1]
        left_cmp = any(ekey(l) == params[0] or ekey(r) == params[0] for _, l, r in eqs)
        if scrut_ok and left_cmp:
            return "one_of"
        return "one_of?:scrut=%s" % (ekey(ms[0]["scrut"]) if ms else None)
    if eqs and any({ekey(l), ekey(r)} == set(params) for _, l, r in eqs):
        return "eq"
    return "unknown"


def fn_arg_role(C, arg):
    """A dispatch-table argument: fn path -> (fn, negated) ; closure |l, r| !f(l, r) -> (fn, True)."""
    a = strip(arg)
    if a.get("k") == "path" and a.get("dk") in ("Fn", "AssocFn"):
        return a.get("def"), False, None
    if a.get("k") == "closure":
        ps = [p.get("name") for p in a["params"]]
        b = strip(arm_value(a["body"]))
        neg = False
        while b.get("k") == "un" and b.get("op") == "!" and "callee" not in b:
            neg = not neg
            b = strip(arm_value(b["e"]))
        if b.get("k") == "call" and [ekey(x) for x in b["args"]] == ps:
            return b.get("callee"), neg, None
        return None, neg, "closure body is not f(params in order): %s" % ekey(b)
    return None, False, None


def run(ctx, R):
    C = ctx.core
    R.rule("r1", "both Operation dispatch tables map every binary operator to the function whose role is the "
                 "operator's definition, negated forms to the negation of the positive form's function")
    R.rule("r1u", "unary table: IsNull -> null test, IsNotNull -> its negation; binary tables never handle them")
    R.rule("r2", "operator-name tables (text -> Operation, Operation -> text) are inverse bijections over the 20 documented names")
    R.rule("r5", "filter decisions are `within_nonexistent_optional || op(..)`; a missing tag value keeps the context")

    variants = adt_variants(C, OP)
    if not variants:
        R.fail("r1", "anchor:Operation", "-", "enum %s not found" % OP)
        return
    R.units["Operation_variants"] = len(variants)

    # ---- r1: dispatch tables, located by role: fns in interpreter::filtering with a match over Operation
    #      whose arms pass a function / closure argument to a local helper.
    tables = []
    unary = []
    for f in C.fns:
        if not f["path"].startswith(MOD):
            continue
        for m in matches_over(f["body"], OP, 2):
            vt = variant_table(m, OP)
            entries = {}
            for v, arms in vt.items():
                if v == "_":
                    continue
                for arm in arms:
                    if is_panic_arm(C, arm["body"]):
                        entries.setdefault(v, []).append(("PANIC", False, None, arm))
                        continue
                    found = None
                    for c in calls_in(arm["body"], into_closures=False):
                        for a in c.get("args", []):
                            fn, neg, err = fn_arg_role(C, a)
                            if fn or err:
                                found = (fn, neg, err, arm)
                        if found:
                            break
                    if found:
                        entries.setdefault(v, []).append(found)
            nfn = sum(1 for v in entries for e in entries[v] if e[0] not in (None, "PANIC"))
            if nfn >= 10:
                tables.append((f, m, entries))
            elif nfn >= 1:
                unary.append((f, m, entries, vt))
    R.floor("r1", "binary dispatch tables over Operation", len(tables), 2)
    roles_cache = {}
    semantic_ops = {}

    def role(path):
        if path not in roles_cache:
            g = C.fn(path)
            roles_cache[path] = role_of(C, g) if g else "missing"
        return roles_cache[path]

    for f, m, entries in tables:
        tname = f["path"].split("::")[-1]
        for v in variants:
            if v in ("IsNull", "IsNotNull"):
                es = entries.get(v, [])
                R.check(all(e[0] == "PANIC" for e in es), "r1u", "%s/%s" % (tname, v), C.loc(m["sp"]),
                        "binary dispatch table handles unary operator %s with a function" % v)
                continue
            es = entries.get(v)
            if not es:
                R.fail("r1", "%s/%s" % (tname, v), C.loc(m["sp"]), "no arm for Operation::%s in dispatch table %s" % (v, f["path"]))
                continue
            for fn, neg, err, arm in es:
                where = C.loc(arm["sp"])
                if err or fn in (None, "PANIC"):
                    R.fail("r1", "%s/%s" % (tname, v), where, "arm for %s does not dispatch to a function: %s" % (v, err or fn))
                    continue
                want_role, want_neg = REFERENCE[v]
                got = role(fn)
                if want_role in ("<", "<=", ">", ">=", "eq"):
                    # the meaning of these base functions is decided semantically by r6 (complete table of
                    # the function against the operator's definition), not by the syntax of their bodies
                    semantic_ops.setdefault({"eq": "=="}.get(want_role, want_role), set()).add(fn)
                    got = want_role
                R.check(got == want_role and neg == want_neg, "r1", "%s/%s" % (tname, v), where,
                        "Operation::%s dispatches to %s%s whose role is '%s'; the operator's definition needs %s'%s'"
                        % (v, "!" if neg else "", fn, got, "the negation of " if want_neg else "", want_role),
                        detail={"variant": v, "fn": fn, "negated": neg, "role": got})
    # sibling agreement: same base function modulo regex fast/slow path
    if len(tables) >= 2:
        a, b = tables[0][2], tables[1][2]
        for v in variants:
            ea = [(e[0], e[1]) for e in a.get(v, [])]
            eb = [(e[0], e[1]) for e in b.get(v, [])]
            if "Regex" in v or v in ("IsNull", "IsNotNull"):
                continue
            R.check(ea == eb, "r1", "siblings/%s" % v, C.loc(tables[0][1]["sp"]),
                    "the two dispatch tables disagree on Operation::%s: %s vs %s" % (v, ea, eb))
    # unary table
    R.floor("r1u", "unary dispatch table", len(unary), 1)
    for f, m, entries, vt in unary:
        for v, want_neg in (("IsNull", False), ("IsNotNull", True)):
            es = entries.get(v, [])
            if not es:
                R.fail("r1u", "unary/%s" % v, C.loc(m["sp"]), "no arm for %s in %s" % (v, f["path"]))
                continue
            for fn, neg, err, arm in es:
                g = C.fn(fn) if fn else None
                isnull = False
                if g is not None:
                    # role: matches!(value, FieldValue::Null)
                    for mm in matches_over(g["body"], FV, 1):
                        t = variant_table(mm, FV)
                        if set(t) == {"Null", "_"}:
                            tv = strip(arm_value(t["Null"][0]["body"]))
                            fv = strip(arm_value(t["_"][0]["body"]))
                            isnull = tv.get("v") is True and fv.get("v") is False
                    # closure |v| !is_null(v) has a single param: fn_arg_role handles it
                R.check(isnull and neg == want_neg, "r1u", "unary/%s" % v, C.loc(arm["sp"]),
                        "Operation::%s dispatches to %s%s (null-test role: %s)" % (v, "!" if neg else "", fn, isnull))
        others = [v for v in vt if v not in ("IsNull", "IsNotNull", "_")]
        R.check(not others, "r1u", "unary/others", C.loc(m["sp"]), "unary table handles binary operators %s" % others)

    # ---- r2: operator names
    name_to_variant = None
    for f in C.fns:
        if "trustfall_core::graphql_query::directives" not in f["path"]:
            continue
        for m in str_matches(f["body"], 10):
            t = {}
            for key, arm, p in arms_flat(m):
                if isinstance(key, tuple) and key[0] == "lit":
                    vs = {n.get("variant") for n in walk(arm["body"]) if n.get("k") in ("ctor", "path") and n.get("adt") == OP}
                    t[key[1]] = vs
            if len(t) >= 10:
                name_to_variant = (f, m, t)
    if not name_to_variant:
        R.fail("r2", "anchor:name->Operation", "-", "string dispatch table constructing Operation not found in graphql_query::directives")
    else:
        f, m, t = name_to_variant
        R.floor("r2", "operator names parsed", len(t), 20)
        for name, want in NAMES.items():
            R.check(t.get(name) == {want}, "r2", "parse/%s" % name, C.loc(m["sp"]),
                    "operator text %r constructs %s, the documented operator is %s" % (name, sorted(t.get(name) or []), want))
        for name in t:
            R.check(name in NAMES, "r2", "parse-extra/%s" % name, C.loc(m["sp"]), "undocumented operator name %r" % name)
    opname = [g for g in C.fns if g["path"].startswith("trustfall_core::ir::Operation") and g.get("name") == "operation_name"]
    if not opname:
        R.fail("r2", "anchor:operation_name", "-", "Operation::operation_name not found")
    else:
        g = opname[0]
        ms = matches_over(g["body"], OP, 10)
        if not ms:
            R.fail("r2", "anchor:operation_name-match", C.loc(g["sp"]), "no match over Operation")
        else:
            vt = variant_table(ms[0], OP)
            inv = {v: k for k, v in NAMES.items()}
            for v in variants:
                arms = vt.get(v, [])
                lits = [strip(arm_value(a["body"])).get("v") for a in arms]
                R.check(lits == [inv[v]], "r2", "name/%s" % v, C.loc(ms[0]["sp"]),
                        "operation_name(%s) = %s, documented name is %r" % (v, lits, inv[v]))

    # ---- r6: complete decision tables of equals / < / <= / > / >= by abstract evaluation
    R.rule("r6", "the functions dispatched for =, <, <=, >, >= give the mathematical result on boundary representatives "
                 "of every integer class (mixed Int64/Uint64, negatives, beyond i64::MAX), on same-type scalars, and "
                 "false for ordering against null; = is null-safe")
    from tfv import absint as A
    from rules import fvalue as F
    import itertools
    reps = F.representatives()
    intr = F.intrinsics()
    op_fn_pairs = sorted((op, fn) for op, fns in semantic_ops.items() for fn in fns)
    R.floor("r6", "(operator, function) pairs evaluated", len(op_fn_pairs), 5)
    pyop = {"<": lambda a, b: a < b, "<=": lambda a, b: a <= b, ">": lambda a, b: a > b, ">=": lambda a, b: a >= b,
            "==": lambda a, b: a == b}
    for op, path in op_fn_pairs:
        g = C.fn(path)
        if g is None:
            R.fail("r6", "missing/%s" % op, "-", "no body for %s" % path)
            continue
        bad = None
        n = 0
        unreachable_pairs = set()
        try:
            for (la, ma, na), (lb, mb, nb) in itertools.product(reps, reps):
                va, vb = la.split("(")[0], lb.split("(")[0]
                comparable = (va == vb) or ({va, vb} <= {"Int64", "Uint64"}) or "Null" in (va, vb)
                if not comparable:
                    continue       # the frontend never compares values of unrelated types (C09 G-OPTYPES)
                if op != "==" and va == vb and va in ("Boolean", "Enum"):
                    continue       # ordering on non-orderable types is rejected by the frontend / known finding under C09
                ip = A.Interp(C, intrinsics=intr)
                try:
                    got = ip.truth(ip.call_fn(g, [ma(), mb()]))
                except A.PanicReached as e:
                    got = "PANIC:" + e.what
                    R.extra.setdefault("r6_panics", {}).setdefault(op, []).append((la, lb, e.what))
                n += 1
                if "Null" in (va, vb):
                    want = (va == vb) if op == "==" else False
                elif na is not None and nb is not None:
                    want = pyop[op](na, nb)
                else:
                    ra = int(la.split("#")[-1].rstrip(")")) if "#" in la else int(la.split("(")[1].rstrip(")"))
                    rb = int(lb.split("#")[-1].rstrip(")")) if "#" in lb else int(lb.split("(")[1].rstrip(")"))
                    want = pyop[op](ra, rb)
                if got is not want and bad is None:
                    bad = {"left": la, "right": lb, "got": got, "want": want}
        except A.Unsupported as e:
            R.fail("r6", "unanalysable/%s" % op, C.loc(g["sp"]), "abstract evaluation of %s met an unsupported construct: %s (fail closed)" % (path, e))
            continue
        R.extra.setdefault("r6_pairs", {})[op] = n
        R.extra.setdefault("r6_panics", {}).setdefault(op, [])
        R.check(bad is None, "r6", "table/%s" % op, C.loc(g["sp"]),
                "%s (operator %s) gives %s for (%s, %s); the definition gives %s"
                % (path, op, bad and bad["got"], bad and bad["left"], bad and bad["right"], bad and bad["want"]),
                detail={"pairs": n})

    # ---- r5: optional pass-through
    n5 = 0
    for f in C.fns:
        if not f["path"].startswith(MOD):
            continue
        for n in walk(f["body"]):
            if n.get("k") == "mcall" and n.get("name") == "then_some" and (n.get("callee") or "").startswith("core::bool"):
                def atom(x):
                    if x.get("k") == "mcall" and x.get("name") == "within_nonexistent_optional":
                        return "OPT"
                    if x.get("k") == "ucall":
                        return "OP"
                    return None
                fm = bool_formula(n["recv"], atom)
                atoms = formula_atoms(fm)
                key = "%s/then_some" % f["path"].split("::")[-1]
                if set(atoms) != {"OPT", "OP"}:
                    R.fail("r5", key, C.loc(n["sp"]), "filter decision has atoms %s, expected within_nonexistent_optional and the operator" % atoms)
                    continue
                tt = truth_table(fm, ["OPT", "OP"])
                want = {(o, p): (o or p) for o in (False, True) for p in (False, True)}
                n5 += 1
                R.check(tt == want, "r5", key, C.loc(n["sp"]),
                        "filter decision is not `within_nonexistent_optional || op`: truth table %s" % tt)
    R.floor("r5", "filter decisions", n5, 2)
    # tagged argument absent => context kept
    tagged = [f for f in C.fns if f["path"] == MOD + "apply_filter_op_with_tagged_argument"]
    ok = False
    for f in C.fns:
        if not f["path"].startswith(MOD):
            continue
        for n in walk(f["body"]):
            if n.get("k") == "let" and "els" in n and n["pat"].get("variant") == "Some" and \
                    (n["pat"].get("adt") or "").endswith("TaggedValue"):
                rets = [x for x in walk(n["els"]) if x.get("k") == "ret"]
                good = rets and all(strip(x["e"]).get("k") == "ctor" and strip(x["e"]).get("variant") == "Some" for x in rets if "e" in x)
                ok = True
                R.check(bool(good), "r5", "tagged-absent-keeps-context", C.loc(n["sp"]),
                        "when the tag value is absent (NonexistentOptional) the context must be kept (`return Some(ctx)`)")
    R.floor("r5", "tagged-argument absent handling", 1 if ok else 0, 1)
