"""Abstract FieldValue representatives and std intrinsics shared by C07 / C08.

Integers are represented by boundary values of every class that the analysed code can distinguish
through comparisons and checked conversions (sign, below/above i64::MAX, order relation); Python's
unbounded ints give their exact numeric order. Floats, strings, booleans, enum names are ranked symbols.
"""
from tfv import absint as A

FV = "trustfall_core::ir::value::FieldValue"
ORDERING = "core::cmp::Ordering"
OPTION = "core::option::Option"
RESULT = "core::result::Result"

I64_MIN, I64_MAX, U64_MAX = -(2 ** 63), 2 ** 63 - 1, 2 ** 64 - 1
INT64_REPS = [I64_MIN, -2, -1, 0, 1, 2, I64_MAX]
UINT64_REPS = [0, 1, 2, I64_MAX, I64_MAX + 1, U64_MAX]

RANGES = {"i64": (I64_MIN, I64_MAX), "u64": (0, U64_MAX), "i32": (-2 ** 31, 2 ** 31 - 1), "u32": (0, 2 ** 32 - 1),
          "usize": (0, U64_MAX), "isize": (I64_MIN, I64_MAX)}


def fv(variant, payload=None, ty=None):
    if variant == "Null":
        return A.Enum(FV, "Null")
    return A.Enum(FV, variant, [A.Sym("%s:%s" % (variant, payload), rank=payload, ty=ty)])


def representatives(with_null=True):
    """(label, abstract FieldValue, numeric value or None)"""
    out = []
    if with_null:
        out.append(("Null", lambda: fv("Null"), None))
    for x in INT64_REPS:
        out.append(("Int64(%d)" % x, (lambda x=x: fv("Int64", x, "i64")), x))
    for x in UINT64_REPS:
        out.append(("Uint64(%d)" % x, (lambda x=x: fv("Uint64", x, "u64")), x))
    for x in (1, 2):
        out.append(("Float64(#%d)" % x, (lambda x=x: fv("Float64", x, "f64")), None))
    # -0.0 and +0.0: equal under `==` / partial_cmp (same rank), distinguished only by f64::total_cmp
    out.append(("Float64(-zero#0)", (lambda: A.Enum(FV, "Float64", [A.Sym("Float64:-0.0", rank=0, ty="f64", props={"negzero": True})])), None))
    out.append(("Float64(+zero#0)", (lambda: A.Enum(FV, "Float64", [A.Sym("Float64:+0.0", rank=0, ty="f64", props={"negzero": False})])), None))
    for x in (1, 2):
        out.append(("String(#%d)" % x, (lambda x=x: fv("String", x, "str")), None))
    for x in (0, 1):
        out.append(("Boolean(%d)" % x, (lambda x=x: fv("Boolean", x, "bool")), None))
    for x in (1, 2):
        out.append(("Enum(#%d)" % x, (lambda x=x: fv("Enum", x, "enum")), None))
    return out


def list_representatives():
    """(label, builder, numeric tuple or None): list values incl. mixed integer representations, nulls, nesting."""
    def L(*mk):
        return lambda: A.Enum(FV, "List", [A.VecV([m() for m in mk])])
    i = lambda x: (lambda: fv("Int64", x, "i64"))
    u = lambda x: (lambda: fv("Uint64", x, "u64"))
    s = lambda x: (lambda: fv("String", x, "str"))
    null = lambda: fv("Null")
    big = I64_MAX + 1
    return [
        ("List[]", L(), ()),
        ("List[Int64(1)]", L(i(1)), (1,)),
        ("List[Uint64(1)]", L(u(1)), (1,)),
        ("List[Int64(-1)]", L(i(-1)), (-1,)),
        ("List[Uint64(2^63)]", L(u(big)), (big,)),
        ("List[Int64(1),Uint64(2)]", L(i(1), u(2)), (1, 2)),
        ("List[Uint64(1),Int64(2)]", L(u(1), i(2)), (1, 2)),
        ("List[Uint64(1),Int64(1)]", L(u(1), i(1)), (1, 1)),
        ("List[Int64(2)]", L(i(2)), (2,)),
        ("List[List[Int64(1)]]", L(L(i(1))), ((1,),)),
        ("List[List[Uint64(1)]]", L(L(u(1))), ((1,),)),
        ("List[List[Uint64(1),Int64(0)]]", L(L(u(1), i(0))), ((1, 0),)),
        ("List[Null,Int64(1)]", L(null, i(1)), None),
        ("List[Null,Uint64(1)]", L(null, u(1)), None),
        ("List[String(#1)]", L(s(1)), None),
        ("List[String(#1),String(#2)]", L(s(1), s(2)), None),
    ]


def ordering(a, b):
    return A.Enum(ORDERING, "Less" if a < b else "Greater" if a > b else "Equal")


def some(x):
    return A.Enum(OPTION, "Some", [x])


def target_int_type(ip, n):
    """Target integer type of a TryFrom/TryInto call, from the node's type `Result<T, _>`."""
    t = ip.C.S(n.get("ty")) or ""
    for name in RANGES:
        if t.startswith("core::result::Result<%s," % name):
            return name
    raise A.Unsupported("conversion with unknown target type %s" % t)


def intrinsics():
    """std collection / iterator model (tfv.stdmodel) overridden by the FieldValue-specific integer semantics below."""
    from tfv import stdmodel
    base = stdmodel.intrinsics()
    base.update(_fv_intrinsics())
    return base


def _fv_intrinsics():
    def try_conv(ip, n, args):
        x = A.deref(args[0])
        if not isinstance(x, A.Sym) or x.ty not in RANGES:
            raise A.Unsupported("try_from on %r" % (x,))
        tgt = target_int_type(ip, n)
        lo, hi = RANGES[tgt]
        if lo <= x.rank <= hi:
            return A.Enum(RESULT, "Ok", [A.Sym(x.name + "->" + tgt, rank=x.rank, ty=tgt)])
        return A.Enum(RESULT, "Err", [A.Sym("TryFromIntError")])

    def partial_cmp(ip, n, args):
        a, b = A.deref(args[0]), A.deref(args[1])
        if isinstance(a, A.Sym) and isinstance(b, A.Sym):
            if a.ty != b.ty:
                raise A.Unsupported("partial_cmp of %s and %s" % (a.ty, b.ty))
            return some(ordering(a.rank, b.rank))
        if isinstance(a, int) and isinstance(b, int):
            return some(ordering(a, b))
        if isinstance(a, A.Enum) and isinstance(b, A.Enum):
            f = ip.user_impl(a.adt, "core::cmp::PartialOrd", "partial_cmp")
            if f is not None:
                return ip.call_fn(f, [a, b])
        if isinstance(a, A.VecV) and isinstance(b, A.VecV):
            # std's slice partial_cmp: lexicographic over the elements' partial_cmp, then by length
            for x, y in zip(a.items, b.items):
                o = A.deref(partial_cmp(ip, n, [x, y]))
                if o.variant == "None":
                    return o
                if A.deref(o.fields[0]).variant != "Equal":
                    return o
            return some(ordering(len(a.items), len(b.items)))
        raise A.Unsupported("partial_cmp of %r and %r" % (a, b))

    def cmp(ip, n, args):
        a, b = A.deref(args[0]), A.deref(args[1])
        if isinstance(a, A.Sym) and isinstance(b, A.Sym) and a.ty == b.ty:
            return ordering(a.rank, b.rank)
        raise A.Unsupported("cmp of %r and %r" % (a, b))

    def total_cmp(ip, n, args):
        a, b = A.deref(args[0]), A.deref(args[1])
        if isinstance(a, A.Sym) and isinstance(b, A.Sym) and a.ty == b.ty == "f64":
            key = lambda s: (s.rank, 0 if s.props.get("negzero") else 1)      # IEEE total order: -0.0 < +0.0
            return ordering(key(a), key(b))
        raise A.Unsupported("total_cmp of %r and %r" % (a, b))

    def reverse(ip, n, args):
        o = A.deref(args[0])
        return A.Enum(ORDERING, {"Less": "Greater", "Greater": "Less", "Equal": "Equal"}[o.variant])

    def is_eq(ip, n, args):
        return A.deref(args[0]).variant == "Equal"

    def discriminant(ip, n, args):
        v = A.deref(args[0])
        if isinstance(v, A.Enum):
            return "discriminant:" + v.variant
        raise A.Unsupported("discriminant of %r" % (v,))

    def ok(ip, n, args):
        r = A.deref(args[0])
        if r.variant == "Ok":
            return some(r.fields[0])
        return A.Enum(OPTION, "None")

    return {
        "core::convert::TryFrom::try_from": try_conv,
        "core::convert::TryInto::try_into": try_conv,
        "core::cmp::PartialOrd::partial_cmp": partial_cmp,
        "core::cmp::Ord::cmp": cmp,
        "core::f64::<impl f64>::total_cmp": total_cmp,
        "core::cmp::Ordering::reverse": reverse,
        "core::cmp::Ordering::is_eq": is_eq,
        "core::mem::discriminant": discriminant,
        "core::result::Result::<T, E>::ok": ok,
    }
