"""C25 — the adapter invariant checker catches what it documents (narrow: RK1 sibling agreement, RK5)."""
from tfv.tast import walk, walk_with_ctx, strip, ekey, calls_in, pat_binds
from tfv.prov import Scope
from . import sites

EXPLANATION = ("r1: check_adapter_invariants runs all three sibling checkers (properties, edges, coercions). r2: each sibling, "
               "located as a function that calls a resolver of the adapter under test, contains the same three obligations: an "
               "outcome assertion on every item the resolver yields (property -> null, neighbors -> empty iterator, coercion -> "
               "false) inside the loop over the resolver's output; an equality assertion between the number of contexts given "
               "and received; an equality assertion between the order tags (get_context_order_values) of the given and the "
               "received contexts. r3: probe contexts have no active vertex and carry a distinct order tag derived from the loop "
               "variable.")
ASSUMPTIONS = ["completeness over all schemas is not decided (edges with a required parameter without default are skipped by the checker itself)"]

MOD = "trustfall_core::interpreter::helpers::correctness::"
ASSERTS = ("assert", "assert_eq", "assert_ne", "debug_assert", "debug_assert_eq")


def assert_sites(C, body):
    """Outermost nodes of assert-family macro expansions: [(macro name, node)]"""
    out = []
    for n, anc in walk_with_ctx(body):
        mac = C.S(n.get("mac")) if n.get("mac") is not None else None
        if not mac:
            continue
        chain = mac.split(">")
        names = [m for m in chain if m in ASSERTS]
        if not names:
            continue
        pmac = C.S(anc[-1].get("mac")) if anc and anc[-1].get("mac") is not None else None
        if pmac == mac:
            continue
        out.append((names[-1], n, anc))
    return out


def locals_in(n):
    return {x["bid"] for x in walk(n) if x.get("k") == "local"}


def run(ctx, R):
    C = ctx.core
    R.rule("r1", "the public checker runs all three sibling checkers")
    R.rule("r2", "each sibling: outcome assertion per yielded item, nothing-lost assertion, order assertion")
    R.rule("r3", "probe contexts: no active vertex, distinct order tag")
    skipped_items(ctx, R)
    probe_query_shape(ctx, R)
    top = C.fn(MOD + "check_adapter_invariants")
    if top is None:
        R.fail("r1", "anchor", "-", "check_adapter_invariants not found")
        return
    callees = [c.get("callee") for c in calls_in(top["body"]) if (c.get("callee") or "").startswith(MOD)]
    siblings = []
    for p in callees:
        f = C.fn(p)
        if f is None:
            continue
        res = [n for n in walk(f["body"]) if n.get("k") == "mcall" and n.get("trait") == sites.ADAPTER and n.get("name") in sites.RESOLVERS]
        if res:
            siblings.append((f, res))
    kinds = sorted({r[0]["name"] for _, r in siblings})
    R.check(kinds == ["resolve_coercion", "resolve_neighbors", "resolve_property"], "r1", "three-siblings", C.loc(top["sp"]),
            "check_adapter_invariants must run a checker for properties, edges and coercions; found checkers for %s" % kinds)
    for f, res in siblings:
        kind = res[0]["name"]
        name = f["path"].split("::")[-1]
        sc = Scope(C, f)
        # the for loop over the resolver's output
        loop = None
        for n, anc in walk_with_ctx(f["body"]):
            if n.get("k") == "match" and n.get("src") == "ForLoopDesugar" and strip(n["scrut"]).get("name") == "into_iter":
                arg = strip(strip(n["scrut"])["args"][0])
                if arg is res[0] or res[0] in list(walk(arg)):
                    loop = n
        if loop is None:
            R.fail("r2", "%s/loop" % name, C.loc(f["sp"]), "%s does not iterate over the output of %s" % (name, kind))
            continue
        # pattern bindings of the loop: (ctx, outcome)
        inner = [m for m in walk(loop) if m.get("k") == "match" and m.get("src") == "ForLoopDesugar" and m is not loop]
        binds = []
        for m in inner:
            for a in m["arms"]:
                if a["pat"].get("variant") == "Some":
                    binds = pat_binds(a["pat"])
        if len(binds) != 2:
            R.fail("r2", "%s/loop-bindings" % name, C.loc(loop["sp"]), "expected `for (ctx, outcome) in ...` (bindings %s)" % binds)
            continue
        ctx_bid, out_bid = binds[0][0], binds[1][0]
        asserts = assert_sites(C, f["body"])
        in_loop = [(m, n) for m, n, anc in asserts if loop in anc]
        after = [(m, n) for m, n, anc in asserts if loop not in anc]
        # o1 outcome assertion
        o1 = [(m, n) for m, n in in_loop if out_bid in locals_in(n)]
        ok1 = False
        how = ""
        for m, n in o1:
            if ok1:
                break
            names = [x.get("name") for x in walk(n) if x.get("k") in ("call", "mcall")]
            consts = [x.get("def") or "" for x in walk(n) if x.get("k") == "path"]
            variants = [x.get("variant") for x in walk(n) if x.get("k") in ("path", "ctor")]
            if kind == "resolve_property":
                ok1 = m == "assert_eq" and (any(c.endswith("FieldValue::NULL") for c in consts) or "Null" in variants)
                how = "assert_eq!(FieldValue::NULL, value)"
            elif kind == "resolve_neighbors":
                ok1 = "next" in names and "is_none" in names and "is_some" not in names
                how = "assert!(neighbors.next().is_none())"
            else:
                cond = n.get("cond")
                neg = False
                c = strip(cond) if cond else {}
                # assert!(x) expands to `if !x { panic }`: the asserted condition is the negation of the if-condition
                while c.get("k") == "un" and c.get("op") == "!":
                    neg = not neg
                    c = strip(c["e"])
                asserted_positive = neg            # if !(X) {panic}  asserts X ; X itself may be `!can_coerce`
                # count total negations between the assertion and the outcome variable
                total_neg = 0
                c = strip(cond) if cond else {}
                while c.get("k") == "un" and c.get("op") == "!":
                    total_neg += 1
                    c = strip(c["e"])
                ok1 = m == "assert" and c.get("k") == "local" and c.get("bid") == out_bid and total_neg % 2 == 0
                how = "assert!(!can_coerce)"
        R.check(ok1, "r2", "%s/outcome-assertion" % name, C.loc(loop["sp"]),
                "%s must assert, for every item %s yields for a context without an active vertex, that the outcome is the one the "
                "contract demands (%s); found %d assertion(s) on the outcome inside the loop" % (name, kind, how, len(o1)))
        # final_contexts.push(ctx)
        pushes = [c for c in calls_in(loop) if c.get("name") == "push" and strip(c["args"][0]).get("bid") == ctx_bid]
        R.check(len(pushes) == 1, "r2", "%s/collects-contexts" % name, C.loc(loop["sp"]), "%s must collect every returned context" % name)
        final_bid = strip(pushes[0]["recv"]).get("bid") if pushes else None
        # o2 nothing lost
        o2 = False
        for m, n in after:
            # assert_eq!(a, b, ..) expands to `match (&a, &b) { .. }`: look only at the compared operands, not the message
            compared = next((x["scrut"] for x in walk(n) if x.get("k") == "match" and strip(x["scrut"]).get("k") == "tuple"), None)
            if compared is None:
                continue          # an inner fragment of the expansion (the message), not the comparison itself
            lens = [x for x in walk(compared) if x.get("k") == "mcall" and x.get("name") == "len"]
            recvs = {strip(x["recv"]).get("bid") for x in lens}
            if m == "assert_eq" and final_bid in recvs and len(recvs) >= 2:
                o2 = True
        R.check(o2, "r2", "%s/nothing-lost" % name, C.loc(f["sp"]), "%s must assert that as many contexts came back as were given" % name)
        # o3 order
        o3 = False
        for m, n in after:
            if m != "assert_eq":
                continue
            ls = [x for x in walk(n) if x.get("k") == "local"]
            origins = []
            for x in ls:
                toks = sc.tokens(x)
                if any(t.endswith("get_context_order_values") for t in toks if t.startswith("call:")):
                    origins.append(x["bid"])
            if len(set(origins)) >= 2:
                # one of them derives from the collected contexts
                o3 = True
        R.check(o3, "r2", "%s/order-preserved" % name, C.loc(f["sp"]),
                "%s must compare the order tags of the given and the received contexts (two get_context_order_values results)" % name)

    # r3
    mk = C.fn(MOD + "make_contexts")
    gv = C.fn(MOD + "get_context_order_values")
    if mk is None or gv is None:
        R.fail("r3", "anchor", "-", "make_contexts / get_context_order_values not found")
        return
    news = [c for c in calls_in(mk["body"]) if (c.get("callee") or "").endswith("DataContext::<Vertex>::new")]
    none_arg = news and strip(news[0]["args"][0]).get("variant") == "None"
    R.check(bool(none_arg), "r3", "no-active-vertex", C.loc(mk["sp"]), "probe contexts must be DataContext::new(None)")
    pushes = [c for c in calls_in(mk["body"]) if c.get("name") == "push" and "values" in ekey(c["recv"])]
    sc = Scope(C, mk)
    tag_ok = False
    for c in pushes:
        toks = sc.tokens(c["args"][0])
        loopvar = any(t.startswith("variant:core::option::Option::Some") or "next" in t for t in toks)
        tag_ok = any("FieldValue::Int64" in t for t in toks) and not all(t.startswith(("lit:", "variant:")) for t in toks)
    R.check(tag_ok, "r3", "distinct-order-tag", C.loc(mk["sp"]), "each probe context must carry an order tag derived from the loop variable")
    reads = [x for x in walk(gv["body"]) if x.get("k") == "field" and x["name"] == "values"]
    R.check(bool(reads) and any(c.get("name") == "last" for c in calls_in(gv["body"])), "r3", "order-tag-read-back", C.loc(gv["sp"]),
            "get_context_order_values must read the tag pushed by make_contexts")


# ---- r5: the probe queries enumerate what they must -------------------------------------------------------------------
def probe_query_shape(ctx, R):
    """Every vertex type has the implicit property `__typename`, so the property checker must visit *every* vertex type, also
    one that declares no property. Its probe query walks VertexType -> property; a plain (mandatory) edge there drops the
    types without properties before the checker sees them. The edge must be @fold (or @optional)."""
    import re
    C = ctx.core
    H = "trustfall_core::interpreter::helpers::correctness::"
    R.rule("r5", "the property checker's probe query reaches every vertex type (`property` is folded / optional), and adds __typename for each")
    f = C.fn(H + "check_properties_are_implemented")
    if f is None:
        R.fail("r5", "anchor", "-", "check_properties_are_implemented not found")
        return
    q = next((n["v"] for n in walk(f["body"]) if n.get("k") == "lit" and isinstance(n.get("v"), str) and "VertexType" in n["v"]), None)
    if q is None:
        R.fail("r5", "anchor:query", C.loc(f["sp"]), "the probe query of check_properties_are_implemented was not found")
        return
    m = re.search(r"\bproperty\b((?:\s*@\w+(?:\([^)]*\))?)*)\s*\{", q)
    dirs = re.findall(r"@(\w+)", m.group(1)) if m else None
    R.check(m is not None and ("fold" in dirs or "optional" in dirs), "r5", "properties-probe/every-type", C.loc(f["sp"]),
            "the probe query selects `property%s {` under VertexType: a vertex type that declares no property yields no row, so its "
            "implicit `__typename` is never passed to resolve_property and violations on it go unnoticed" % (m.group(1) if m else " ?"))
    has_typename = any(n.get("k") == "lit" and n.get("v") == "__typename" for n in walk(f["body"]))
    R.check(has_typename, "r5", "properties-probe/__typename", C.loc(f["sp"]), "the property checker no longer probes the implicit __typename property")


# ---- r4: what the checkers skip ---------------------------------------------------------------------------------------
# (function, kind) -> reason; anything else inside a checker loop that skips an item is a violation
SKIP_AUDIT = {}


def skipped_items(ctx, R):
    """The property quantifies over every type / field of every schema, so every `continue` (or early return) inside the
    loops of the three checkers is a place where a contract violation goes unnoticed. They are inventoried; the one that
    exists today (edges with a parameter that has no default) is a recorded finding. The mapping that decides `has no
    default` is evaluated: only a *missing* default may skip the edge - a declared or implicit `null` default is a value."""
    from tfv import absint as A
    from tfv import stdmodel as M
    C = ctx.core
    H = "trustfall_core::interpreter::helpers::correctness::"
    R.rule("r4", "no field is skipped by the checkers (audited / listed skips only); a null default is a default")
    nsk = 0
    for name in ("check_properties_are_implemented", "check_edges_are_implemented", "check_type_coercions_are_implemented"):
        f = C.fn(H + name)
        if f is None:
            R.fail("r4", "anchor:%s" % name, "-", "%s not found" % name)
            continue
        for n, anc in walk_with_ctx(f["body"]):
            if n.get("k") not in ("continue", "break", "ret"):
                continue
            mac = C.S(n.get("mac")) if n.get("mac") is not None else ""
            if "desugar:" in (mac or "") or not any(a.get("k") == "loop" for a in anc):
                continue
            inner = next((a.get("k") for a in reversed(anc) if a.get("k") in ("loop", "closure")), None)
            if inner == "closure":
                continue
            nsk += 1
            cond = next((a for a in reversed(anc) if a.get("k") == "if"), None)
            what = ekey(cond["cond"])[:80] if cond is not None else "unconditional"
            key = "skip/%s/%s" % (name, n["k"])
            if (name, n["k"]) in SKIP_AUDIT:
                R.ok("r4", key, {"reason": SKIP_AUDIT[(name, n["k"])]})
            else:
                R.fail("r4", key, C.loc(n["sp"]),
                       "%s skips items with `%s` when `%s`: a contract violation on a skipped type / field is not detected, although the "
                       "checker is documented to catch it for any schema" % (name, n["k"], what))
    R.units["checker_skips"] = nsk

    # rows of the introspection query reach the probe loop without loss: between run_query(..) and the `for` that probes the adapter
    # only count-preserving steps may stand (map / inspect / enumerate / sort / collect into a sequence). A filter, take, skip, dedup
    # or a collect into a map / set keyed by part of the row silently drops items (seed C25-3: BTreeMap keyed by `coerce_to`
    # keeps one interface per type).
    KEEP = {"map", "inspect", "into_iter", "iter", "enumerate", "rev", "peekable", "by_ref", "cloned", "copied", "sorted", "sorted_by",
            "sorted_by_key", "sorted_unstable", "chain", "collect_vec", "expect", "unwrap", "fuse"}
    SEQ = ("alloc::vec::Vec<", "alloc::collections::vec_deque::VecDeque<", "alloc::boxed::Box<[", "smallvec::SmallVec<")
    for name in ("check_properties_are_implemented", "check_edges_are_implemented", "check_type_coercions_are_implemented"):
        f = C.fn(H + name)
        if f is None:
            continue
        index = list(walk_with_ctx(f["body"]))

        def flow(n, anc, depth=0):
            """Name of the first lossy step applied to the value of n (followed through receivers and let-bound locals), or None."""
            cur = n
            for p in reversed(anc):
                if p.get("k") == "mcall" and (strip(p.get("recv", {})) is cur or p.get("recv") is cur):
                    nm = p.get("name")
                    if nm == "collect":
                        ty = C.S(p.get("ty")) or ""
                        if not ty.startswith(SEQ):
                            return "collect::<%s>" % ty.split("<")[0].split("::")[-1]
                    elif nm not in KEEP:
                        return nm
                    cur = p
                    continue
                if p.get("k") in ("ref", "paren", "block") or (p.get("k") == "call" and (p.get("callee") or "").endswith("Box::<T>::new")):
                    cur = p
                    continue
                if p.get("k") == "call" and (p.get("callee") or "").endswith("IntoIterator::into_iter"):
                    return None                # the for loop
                if p.get("k") == "let" and p.get("init") is cur and p.get("pat", {}).get("k") == "bind" and depth < 6:
                    for m, manc in index:
                        if m.get("k") == "local" and m.get("bid") == p["pat"].get("bid"):
                            w = flow(m, manc, depth + 1)
                            if w is not None:
                                return w
                    return None
                break
            return None
        srcs = [(n, anc) for n, anc in index if n.get("k") == "call" and (n.get("callee") or "").endswith("::run_query")]
        if len(srcs) != 1:
            R.fail("r4", "anchor:run_query/%s" % name, C.loc(f["sp"]), "%s must run its introspection query once (found %d run_query calls)" % (name, len(srcs)))
            continue
        lossy = flow(*srcs[0])
        R.check(lossy is None, "r4", "rows-reach-the-probe-loop/%s" % name, C.loc(srcs[0][0]["sp"]),
                "%s passes the rows of its introspection query through `%s` before probing the adapter: rows can be dropped (for a map / "
                "set, every row whose key repeats), so some types / fields / coercions are never checked" % (name, lossy))

    # the mapping of serialized defaults: None only for a missing default
    f = C.fn(H + "check_edges_are_implemented")
    if f is None:
        return
    lets = [n for n in walk(f["body"]) if n.get("k") == "let" and "init" in n and
            any((c.get("callee") or "").endswith("serde_json::from_str") or (c.get("callee") or "").endswith("de::from_str") for c in calls_in(n["init"]))]
    lets = [l for l in lets if not any(o is not l and any(x is l for x in walk(o["init"])) for o in lets)]      # outermost only
    if len(lets) != 1:
        R.fail("r4", "anchor:defaults", C.loc(f["sp"]), "expected one binding that decodes the serialized parameter defaults (found %d)" % len(lets))
        return
    init = lets[0]["init"]
    free = {}
    bound = set()
    for n in walk(init):
        if n.get("k") == "closure":
            for p in n["params"]:
                bound |= {b for b, _ in pat_binds(p)}
        if n.get("k") == "let":
            bound |= {b for b, _ in pat_binds(n["pat"])}
    for n in walk(init):
        if n.get("k") == "local" and n["bid"] not in bound:
            free[n["bid"]] = n["name"]
    if len(free) != 1:
        R.fail("r4", "anchor:defaults-input", C.loc(lets[0]["sp"]), "the decoding expression reads %s; expected only the query output row" % sorted(free.values()))
        return
    TV = "trustfall_core::ir::value::TransparentValue"
    FVp = "trustfall_core::ir::value::FieldValue"
    I = M.intrinsics()

    def from_str(ip, n, a):
        text = A.deref(a[0])
        ty = ip.C.S(n.get("ty")) or ""
        inner = ty[len("core::result::Result<"):].rsplit(",", 1)[0].strip() if ty.startswith("core::result::Result<") else ty
        val = A.Enum(TV, "Null") if text == "null" else A.Enum(TV, "Int64", [A.Sym("json:" + str(text))])
        if inner.startswith("core::option::Option<"):
            return M.ok(M.none() if text == "null" else M.some(val))
        return M.ok(val)
    I["serde_json::from_str"] = from_str
    I["serde_json::de::from_str"] = from_str

    def conv(ip, n, a):
        v = A.deref(a[0])
        if isinstance(v, A.Enum) and v.adt == TV:
            return A.Enum(FVp, v.variant, list(v.fields))
        return v
    I["core::convert::From::from"] = conv
    I["core::convert::Into::into"] = conv
    row = A.Struct("Output", {"parameter_default": A.VecV([M.none(), M.some("null"), M.some("5")])})
    try:
        ip = A.Interp(C, I)
        res = A.deref(ip.ev(init, {list(free)[0]: A.Cell(row)}))
        items = [A.deref(x) for x in res.items]
        got = ["none" if x.variant == "None" else ("null" if A.deref(x.fields[0]).variant == "Null" else "value") for x in items]
    except (A.Unsupported, AttributeError) as e:
        R.fail("r4", "unanalysable/defaults", C.loc(lets[0]["sp"]), "abstract evaluation of the default decoding failed: %s (fail closed)" % e)
        return
    except A.PanicReached as e:
        R.fail("r4", "panic/defaults", C.loc(lets[0]["sp"]), "decoding a parameter default panics: %s" % e.what)
        return
    R.check(got == ["none", "null", "value"], "r4", "null-default-is-a-default", C.loc(lets[0]["sp"]),
            "parameter defaults [missing, null, 5] are decoded as %s: a parameter whose default is null (every nullable parameter) counts as "
            "`no default`, so the checker silently skips every edge that has one" % got)
