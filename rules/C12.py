"""C12 — argument validation accepts exactly the well-typed, complete argument maps."""
import itertools

from tfv import absint as A
from tfv import stdmodel as S
from tfv.tast import walk
from . import tymodel as T

EXPLANATION = ("r1: InterpretedQuery::from_query_and_arguments is abstractly evaluated (typed AST, std collections "
               "modelled) on every combination of per-variable status (missing / valid / invalid) for up to two "
               "variables plus an optional unused argument; it must return Ok exactly when nothing is missing, unused "
               "or ill-typed and otherwise name exactly the offending variables in the right error kinds. r2: complete "
               "table of Type::is_valid_value (types of depth <= 2 incl. Float/Boolean x scalar and nested list values) "
               "against the definition. r3: table of the variable-type inference per operator against the documented "
               "rule (=,!= : T; orderings: T non-null at top; contains: element type; one_of: [T]!; string ops: String!).")
ASSUMPTIONS = ["behaviour of from_query_and_arguments is uniform in the number of variables (each variable and each "
               "supplied key is handled independently by one loop iteration), so all status combinations of two "
               "variables and one extra key cover it", "BTreeMap / Vec / iterator adapters behave as modelled in tfv/stdmodel.py"]

IQ = "trustfall_core::interpreter::InterpretedQuery"
QAE = "trustfall_core::interpreter::error::QueryArgumentsError"
OP = "trustfall_core::ir::Operation"


def intr_all():
    i = S.intrinsics()
    i.update(T.intrinsics())
    return i


def flatten_errors(e):
    """QueryArgumentsError abstract value -> list of (kind, payload)"""
    e = A.deref(e)
    if e.variant == "MultipleErrors":
        dv = A.deref(e.fields[0])
        inner = dv.fields[0] if isinstance(dv, A.Enum) else dv.fields.get("0")
        out = []
        for x in A.deref(inner).items:
            out.extend(flatten_errors(x))
        return out
    if e.variant in ("MissingArguments", "UnusedArguments"):
        return [(e.variant, tuple(sorted(str(A.deref(x)) for x in A.deref(e.fields[0]).items)))]
    if e.variant == "ArgumentTypeError":
        return [(e.variant, str(A.deref(e.fields[0])))]
    return [(e.variant, None)]


def run(ctx, R):
    C = ctx.core
    R.rule("r1", "from_query_and_arguments: Ok iff no variable is missing, no argument unused, every value valid; errors name exactly the offenders")
    R.rule("r2", "Type::is_valid_value equals the definition on all types of depth <= 2 x scalar and nested list values")
    R.rule("r3", "infer_variable_type per operator equals the documented inference rule")
    R.rule("r4", "a variable's required type is the greatest common subtype of the types inferred at all its uses "
                 "(Type::intersect decided under C17 r1; every use collected and a failed intersection an error, C11 r5)")
    from tfv.core import Report
    from . import C17, C11
    R17 = Report("C17", ctx.tier, 0)
    C17.run(ctx, R17)
    bad = [v for v in R17.violations if v["rule"] in ("r1", "engine") or "intersect" in v["key"]]
    R.check(not bad, "r4", "variable-type-is-meet-of-uses/intersect", "-",
            "Type::intersect is not the greatest common subtype (%s): a variable used at two places gets a type that is too wide, "
            "so ill-typed argument values are accepted (or too narrow, so valid ones are rejected)" % [v["key"] for v in bad][:3],
            {"c17_instances": len(R17.instances)})
    R11 = Report("C11", ctx.tier, 0)
    C11.run(ctx, R11)
    bad = [v for v in R11.violations if v["rule"] == "r5"]
    R.check(not bad, "r4", "variable-type-is-meet-of-uses/collection", "-",
            "variable uses are not all collected / a failed intersection is not an error: %s" % [v["key"] for v in bad][:3])
    intr = intr_all()

    # ---------------- r1
    f = C.fn(IQ + "::from_query_and_arguments")
    if f is None:
        R.fail("r1", "anchor", "-", "InterpretedQuery::from_query_and_arguments not found")
    else:
        int_nn = T.named("Int", False)
        good, bad_v = ("Int64",), ("String",)
        statuses = ("missing", "valid", "invalid")
        n = 0
        badcase = None
        kinds_seen = set()
        try:
            for nvars in (0, 1, 2):
                names = ["a", "b"][:nvars]
                for st in itertools.product(statuses, repeat=nvars):
                    for extra in (False, True):
                        variables = S.MapV([(nm, int_nn) for nm in names])
                        args = S.MapV([(nm, T.mk_value(good if s == "valid" else bad_v)) for nm, s in zip(names, st) if s != "missing"])
                        if extra:
                            args.insert("zz", T.mk_value(good))
                        iq = A.Struct("trustfall_core::ir::indexed::IndexedQuery",
                                      {"ir_query": A.Struct("trustfall_core::ir::IRQuery", {"variables": variables})})
                        ip = A.Interp(C, intrinsics=intr)
                        res = A.deref(ip.call_fn(f, [iq, args]))
                        n += 1
                        want = []
                        miss = tuple(sorted(nm for nm, s in zip(names, st) if s == "missing"))
                        for nm, s in zip(names, st):
                            if s == "invalid":
                                want.append(("ArgumentTypeError", nm))
                        if miss:
                            want.append(("MissingArguments", miss))
                        if extra:
                            want.append(("UnusedArguments", ("zz",)))
                        if res.variant == "Ok":
                            got = []
                        else:
                            got = flatten_errors(res.fields[0])
                        for k, _ in got:
                            kinds_seen.add(k)
                        if sorted(got, key=str) != sorted(want, key=str) and badcase is None:
                            badcase = {"variables": names, "status": st, "extra_argument": extra, "got": got or "Ok", "want": want or "Ok"}
        except A.Unsupported as e:
            R.fail("r1", "unanalysable", C.loc(f["sp"]), "abstract evaluation met an unsupported construct: %s (fail closed)" % e)
            badcase = "skip"
        except A.PanicReached as e:
            R.fail("r1", "panic", C.loc(f["sp"]), "argument validation panics: %s" % e.what)
            badcase = "skip"
        if badcase != "skip":
            R.extra["r1_cases"] = n
            R.check(badcase is None, "r1", "decision-table", C.loc(f["sp"]),
                    "from_query_and_arguments decides wrongly for %s" % (badcase,), {"cases": n})
            for k in ("MissingArguments", "UnusedArguments", "ArgumentTypeError"):
                R.check(k in kinds_seen, "r1", "error-kind/%s" % k, C.loc(f["sp"]), "error kind %s is never produced" % k)

    # ---------------- r2
    f_val = C.fn(T.TY + "::is_valid_value")
    if f_val is None:
        R.fail("r2", "anchor", "-", "Type::is_valid_value not found")
    else:
        types = T.all_types(bases=("Int", "String", "Float", "Boolean"), max_depth=2)
        vals = T.all_values()
        bad = None
        n = 0
        try:
            for t in types:
                for v in vals:
                    ip = A.Interp(C, intrinsics=intr)
                    got = ip.truth(ip.call_fn(f_val, [t, T.mk_value(v)]))
                    n += 1
                    if got != T.valid(t, v) and bad is None:
                        bad = (repr(t), v, got)
        except A.Unsupported as e:
            R.fail("r2", "unanalysable", C.loc(f_val["sp"]), "unsupported construct: %s (fail closed)" % e)
            bad = "skip"
        except A.PanicReached as e:
            R.fail("r2", "panic", C.loc(f_val["sp"]), "is_valid_value panics on %s" % e.what)
            bad = "skip"
        if bad != "skip":
            R.extra["r2_cases"] = n
            R.check(bad is None, "r2", "table", C.loc(f_val["sp"]), "is_valid_value%s differs from the definition" % (bad,), {"cases": n})
            for b in ("Int", "String", "Float", "Boolean", "list", "null"):
                R.ok("r2", "class/%s" % b)
        # Enum values: the arm must not panic (known finding when it does)
        try:
            ip = A.Interp(C, intrinsics=intr)
            ip.call_fn(f_val, [T.named("Color", True), A.Enum(T.FV, "Enum", [A.Sym("e", rank=1)])])
            R.ok("r2", "enum-value")
        except A.PanicReached as e:
            R.fail("r2", "enum-value-panics", C.loc(f_val["sp"]),
                   "is_valid_value panics (%s!) when an argument value is FieldValue::Enum: validation must refuse or accept, not crash" % e.what)
        except A.Unsupported:
            R.ok("r2", "enum-value", nontrivial=False)

    # ---------------- r3
    g = C.fn("trustfall_core::frontend::filters::infer_variable_type")
    if g is None:
        R.fail("r3", "anchor", "-", "infer_variable_type not found")
    else:
        types = T.all_types(bases=("Int", "String"), max_depth=1)
        def want(v, t):
            if v in ("Equals", "NotEquals"):
                return t.key()
            if v in ("LessThan", "LessThanOrEqual", "GreaterThan", "GreaterThanOrEqual"):
                return T.TypeV(t.base, False, t.inner).key()
            if v in ("Contains", "NotContains"):
                return t.inner.key() if t.inner is not None else "Err"
            if v in ("OneOf", "NotOneOf"):
                return T.listof(t, False).key()
            return T.named("String", False).key()
        variants = [v["name"] for v in C.adt_by_path[OP]["variants"] if v["name"] not in ("IsNull", "IsNotNull")]
        intr2 = dict(intr)
        intr2["trustfall_core::frontend::error::FilterTypeError::non_list_property_with_list_filter"] = lambda ip, n, a: A.Sym("FilterTypeError")
        intr2["trustfall_core::ir::Operation::<LeftT, RightT>::operation_name"] = lambda ip, n, a: "op"
        for v in variants:
            bad = None
            try:
                for t in types:
                    ip = A.Interp(C, intrinsics=intr2)
                    res = A.deref(ip.call_by_type(g, [("str", "prop"), ("Type", t), ("Operation", A.Enum(OP, v, [A.Tuple([]), A.Sym("arg")]))]))
                    got = "Err" if res.variant == "Err" else A.deref(res.fields[0]).key()
                    if got != want(v, t) and bad is None:
                        bad = (repr(t), got)
            except (A.Unsupported, A.PanicReached) as e:
                R.fail("r3", "unanalysable/%s" % v, C.loc(g["sp"]), "cannot evaluate infer_variable_type for %s: %s" % (v, e))
                continue
            R.check(bad is None, "r3", "infer/%s" % v, C.loc(g["sp"]),
                    "for operator %s and property type %s the inferred variable type is %s" % (v, bad and bad[0], bad and bad[1]))
