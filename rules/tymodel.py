"""Algebraic model of trustfall's `Type` for abstract evaluation (shared by C12 / C17 / C13).

A type is Named(base, nullable) or List(inner, nullable). The primitive accessors of `Type`
(nullable, is_list, as_list, base_type, new_named_type, new_list_type, with_nullability) are modelled
as intrinsics over this datatype; the *derived* operations (intersect, is_scalar_only_subtype,
equal_ignoring_nullability, is_valid_value, ...) are evaluated from their typed AST.
"""
from tfv import absint as A

TY = "trustfall_core::ir::types::base::Type"
FV = "trustfall_core::ir::value::FieldValue"
OPTION = "core::option::Option"


class TypeV:
    def __init__(self, base, nullable, inner=None):
        self.base = base
        self.nullable = nullable
        self.inner = inner          # TypeV for lists

    def depth(self):
        return 0 if self.inner is None else 1 + self.inner.depth()

    def key(self):
        return (self.base, self.nullable, self.inner.key() if self.inner else None)

    def __repr__(self):
        s = self.base if self.inner is None else "[%r]" % self.inner
        return s + ("" if self.nullable else "!")


def named(base, nullable):
    return TypeV(base, nullable)


def listof(inner, nullable):
    return TypeV(inner.base, nullable, inner)


def all_types(bases=("Int", "String"), max_depth=2):
    level = [named(b, n) for b in bases for n in (True, False)]
    out = list(level)
    for _ in range(max_depth):
        level = [listof(t, n) for t in level for n in (True, False)]
        out.extend(level)
    return out


def some(x):
    return A.Enum(OPTION, "Some", [x])


NONE = lambda: A.Enum(OPTION, "None")


def intrinsics():
    def t(v):
        v = A.deref(v)
        if not isinstance(v, TypeV):
            raise A.Unsupported("expected a Type, got %r" % (v,))
        return v

    P = TY + "::"
    intr = {
        P + "nullable": lambda ip, n, a: t(a[0]).nullable,
        P + "is_list": lambda ip, n, a: t(a[0]).inner is not None,
        P + "as_list": lambda ip, n, a: some(t(a[0]).inner) if t(a[0]).inner is not None else NONE(),
        P + "base_type": lambda ip, n, a: t(a[0]).base,
        P + "new_named_type": lambda ip, n, a: named(A.deref(a[0]), ip.truth(a[1])),
        P + "new_list_type": lambda ip, n, a: listof(t(a[0]), ip.truth(a[1])),
        P + "with_nullability": lambda ip, n, a: TypeV(t(a[0]).base, ip.truth(a[1]), t(a[0]).inner),
    }

    def opt_map(ip, n, a):
        o = A.deref(a[0])
        if o.variant == "None":
            return NONE()
        return some(ip.call_closure(a[1], [o.fields[0]]))

    def it(ip, n, a):
        return A.deref(a[0])

    def all_(ip, n, a):
        v = A.deref(a[0])
        return all(ip.truth(ip.call_closure(a[1], [x])) for x in v.items)

    def any_(ip, n, a):
        v = A.deref(a[0])
        return any(ip.truth(ip.call_closure(a[1], [x])) for x in v.items)

    intr.update({
        "core::option::Option::<T>::map": opt_map,
        "core::slice::<impl [T]>::iter": it,
        "core::iter::traits::iterator::Iterator::all": all_,
        "core::iter::traits::iterator::Iterator::any": any_,
        "core::slice::<impl [T]>::is_empty": lambda ip, n, a: len(A.deref(a[0]).items) == 0,
        "core::slice::<impl [T]>::len": lambda ip, n, a: len(A.deref(a[0]).items),
    })
    return intr


# ---- reference semantics (the mathematical definitions) ---------------------------------------

def is_subtype(parent, sub):
    """sub <= parent in the scalar subtype order."""
    if not parent.nullable and sub.nullable:
        return False
    if parent.base != sub.base:
        return False
    if (parent.inner is None) != (sub.inner is None):
        return False
    if parent.inner is None:
        return True
    return is_subtype(parent.inner, sub.inner)


def same_shape(a, b):
    if a.base != b.base or (a.inner is None) != (b.inner is None):
        return False
    return True if a.inner is None else same_shape(a.inner, b.inner)


def meet(a, b):
    if not same_shape(a, b):
        return None
    n = a.nullable and b.nullable
    if a.inner is None:
        return named(a.base, n)
    return listof(meet(a.inner, b.inner), n)


# values: ("Null",) ("Int64",) ("Uint64",) ("Float64",) ("String",) ("Boolean",) ("List", (..))
SCALAR_OF = {"Int64": "Int", "Uint64": "Int", "Float64": "Float", "String": "String", "Boolean": "Boolean"}


def valid(ty, v):
    if v[0] == "Float64:inf":
        return False                      # NaN / infinities are values of no type
    if v[0] == "Null":
        return ty.nullable
    if v[0] == "List":
        return ty.inner is not None and all(valid(ty.inner, x) for x in v[1])
    return ty.inner is None and ty.base == SCALAR_OF[v[0]]


def mk_value(v):
    if v[0] == "Float64:inf":
        return A.Enum(FV, "Float64", [A.Sym("inf", rank=9, ty="Float64", props={"fclass": "inf"})])
    if v[0] == "Null":
        return A.Enum(FV, "Null")
    if v[0] == "List":
        return A.Enum(FV, "List", [A.VecV([mk_value(x) for x in v[1]])])
    return A.Enum(FV, v[0], [A.Sym(v[0], rank=1, ty=v[0])])


def all_values():
    sc = [("Null",), ("Int64",), ("Uint64",), ("Float64",), ("String",), ("Boolean",), ("Float64:inf",)]
    l1 = [("List", ())] + [("List", (x,)) for x in sc] + [("List", (("Int64",), ("Null",))), ("List", (("Int64",), ("String",))),
                                                          ("List", (("String",), ("String",)))]
    l2 = [("List", (x,)) for x in l1] + [("List", (("List", (("Int64",),)), ("Null",))), ("List", (("List", ()), ("Int64",)))]
    return sc + l1 + l2
