"""C15 — recorded traces replay (narrow: RK6 mirror struct, RK1 writer/reader agreement, forwarding)."""
from tfv.tast import walk, strip, ekey, calls_in, pat_variants
from tfv.prov import Scope
from . import sites

EXPLANATION = ("r1: the serialized mirror of DataContext has the same fields with the same types and both From "
               "conversions move every field (a context survives being written to a trace). r2: for each resolver, "
               "the set of trace operations the recording adapter can write equals the set the replaying reader "
               "accepts (the readers end in `_ => unreachable!()`, so rustc's exhaustiveness check does not cover "
               "this). r3: the recording adapter forwards the inner adapter's items unchanged (tracing equals direct "
               "execution). r4: replay readers buffer pending inputs first-in-first-out. r5: no RefMut of the tracer is alive "
               "across a call into the wrapped adapter. r6: the helper iterators run their trace-writing action exactly at the "
               "pull that calls for it (effect table over four pulls of a two-item iterator) and nothing else runs it (no Drop).")
ASSUMPTIONS = ["Iterator::inspect does not alter items", "equality of rows as such is not decided"]

INTERP = "trustfall_core::interpreter::"
DC = INTERP + "DataContext"
SC = INTERP + "SerializableContext"
TOC = INTERP + "trace::TraceOpContent"
YV = INTERP + "trace::YieldValue"
FC = INTERP + "trace::FunctionCall"
METHODS = ("resolve_starting_vertices", "resolve_property", "resolve_neighbors", "resolve_coercion")


def constructed(body):
    """(TraceOpContent variant, inner variant or None) constructed in body."""
    out = set()
    for n in walk(body):
        if n.get("k") in ("ctor", "path") and n.get("adt") == TOC and n.get("variant"):
            inner = None
            for a in n.get("args", []):
                a = strip(a)
                if a.get("k") in ("ctor", "path") and a.get("adt") in (YV, FC):
                    inner = a["variant"]
            out.add((n["variant"], inner))
    return out


def matched_in_pat(p, out):
    for q in pat_variants(p):
        if q.get("k") == "pvariant" and q.get("adt") == TOC:
            inner = None
            for s in q.get("sub", []):
                for s2 in pat_variants(s):
                    if s2.get("k") == "pvariant" and s2.get("adt") in (YV, FC):
                        inner = s2["variant"]
            out.add((q["variant"], inner))
        elif q.get("k") in ("ptuple",):
            for s in q["sub"]:
                matched_in_pat(s, out)


def matched(body):
    out = set()
    for n in walk(body):
        if n.get("k") == "match":
            for a in n["arms"]:
                matched_in_pat(a["pat"], out)
        elif n.get("k") in ("letx", "let"):
            matched_in_pat(n["pat"], out)
    return out


def run(ctx, R):
    C = ctx.core
    R.rule("r1", "SerializableContext mirrors DataContext field for field; both From impls move every field")
    R.rule("r2", "per resolver: operations written by the recording adapter = operations accepted by the trace reader")
    R.rule("r3", "the recording adapter's output closures return the inner adapter's items unchanged")

    # ---- r1
    dc, sc = C.adt_by_path.get(DC), C.adt_by_path.get(SC)
    if not dc or not sc:
        R.fail("r1", "anchor", "-", "DataContext / SerializableContext not found")
    else:
        df = [(f["name"], f["ty"]) for f in dc["variants"][0]["fields"]]
        sf = [(f["name"], f["ty"]) for f in sc["variants"][0]["fields"]]
        R.floor("r1", "DataContext fields", len(df), 8)
        for name, ty in df:
            other = dict(sf).get(name)
            R.check(other == ty, "r1", "mirror/%s" % name, C.loc(sc["sp"]),
                    "DataContext.%s: %s is mirrored as %s in SerializableContext (lost or retyped state does not survive a trace)"
                    % (name, ty, other))
        for name, ty in sf:
            R.check(name in dict(df), "r1", "mirror-extra/%s" % name, C.loc(sc["sp"]), "SerializableContext has an extra field %s" % name)
        for src, dst in ((SC, DC), (DC, SC)):
            fs = [f for f in C.fns if f.get("impl_trait") == "core::convert::From" and f["name"] == "from"
                  and (f.get("self_ty") or "").startswith(dst + "<") and (C.S(f["params"][0].get("ty")) or "").startswith(src + "<")]
            key = "%s->%s" % (src.split("::")[-1], dst.split("::")[-1])
            if not fs:
                R.fail("r1", "anchor:" + key, "-", "From<%s> for %s not found" % (src, dst))
                continue
            pname = fs[0]["params"][0].get("name")
            st = [n for n in walk(fs[0]["body"]) if n.get("k") == "struct" and n.get("adt") == dst]
            if not st:
                R.fail("r1", "anchor:%s/ctor" % key, C.loc(fs[0]["sp"]), "no construction of %s" % dst)
                continue
            for fl in st[0]["fields"]:
                R.check(ekey(fl["e"]) == "%s.%s" % (pname, fl["name"]), "r1", "%s/%s" % (key, fl["name"]), C.loc(st[0]["sp"]),
                        "conversion %s sets %s from `%s` instead of moving the same field" % (key, fl["name"], ekey(fl["e"])))
            R.check(len(st[0]["fields"]) == len(df) and "base" not in st[0], "r1", "%s/all-fields" % key, C.loc(st[0]["sp"]),
                    "conversion %s does not set all %d fields explicitly" % (key, len(df)))

    # ---- r2
    tap = {}
    for f in C.fns:
        if f.get("impl_trait") == INTERP + "Adapter" and (f.get("self_ty") or "").startswith(INTERP + "trace::AdapterTap<") and f["name"] in METHODS:
            tap[f["name"]] = f
    reader = {}
    for f in C.fns:
        if f.get("impl_trait") == INTERP + "Adapter" and (f.get("self_ty") or "").startswith(INTERP + "replay::TraceReaderAdapter<") and f["name"] in METHODS:
            reader[f["name"]] = f
    nexts = {}
    for f in C.fns:
        if f.get("impl_trait") == "core::iter::traits::iterator::Iterator" and f["name"] == "next" and "interpreter::replay::" in (f.get("self_ty") or ""):
            nexts[(f["self_ty"].split("<")[0])] = f
    R.floor("r2", "recording resolvers", len(tap), 4)
    R.floor("r2", "replaying resolvers", len(reader), 4)
    R.floor("r2", "replay iterators", len(nexts), 5)
    for m in METHODS:
        if m not in tap or m not in reader:
            continue
        w = constructed(tap[m]["body"])
        # reader: the adapter method + next() of every iterator struct constructed from it (transitively)
        r = matched(reader[m]["body"])
        todo = [reader[m]]
        seen = set()
        while todo:
            g = todo.pop()
            for n in walk(g["body"]):
                if n.get("k") == "struct" and (n.get("adt") or "").startswith(INTERP + "replay::") and n["adt"] in nexts and n["adt"] not in seen:
                    seen.add(n["adt"])
                    r |= matched(nexts[n["adt"]]["body"])
                    todo.append(nexts[n["adt"]])
        R.units.setdefault("resolver_ops", {})[m] = sorted("%s(%s)" % x if x[1] else x[0] for x in w)
        for op in sorted(w - r, key=str):
            R.fail("r2", "%s/written-not-read/%s" % (m, "%s(%s)" % op if op[1] else op[0]), C.loc(reader[m]["sp"]),
                   "the recording adapter writes %s for %s but the trace reader has no arm for it (replay hits unreachable!())" % (op, m))
        for op in sorted(r - w, key=str):
            R.fail("r2", "%s/read-not-written/%s" % (m, "%s(%s)" % op if op[1] else op[0]), C.loc(tap[m]["sp"]),
                   "the trace reader expects %s for %s but the recording adapter never writes it (replay waits for an operation that is not in the trace)" % (op, m))
        for op in sorted(w & r, key=str):
            R.ok("r2", "%s/%s" % (m, "%s(%s)" % op if op[1] else op[0]))
        R.floor("r2", "operations of %s" % m, len(w & r), 3)

    # ---- r3: forwarding
    for m in METHODS:
        f = tap.get(m)
        if f is None:
            continue
        sc_ = Scope(C, f)
        n_maps = 0
        for n in walk(f["body"]):
            if n.get("k") == "mcall" and n.get("name") == "map" and n["args"] and strip(n["args"][0]).get("k") == "closure":
                clo = strip(n["args"][0])
                # only top-level output maps (not the inner neighbor map, handled below)
                params = []
                for p in clo["params"]:
                    from tfv.tast import pat_binds
                    params.extend(b for b, _ in pat_binds(p))
                val = strip(clo["body"]["tail"]) if clo["body"].get("k") == "block" and "tail" in clo["body"] else strip(clo["body"])
                n_maps += 1
                elems = val["elems"] if val.get("k") == "tuple" else [val]
                ok = True
                why = ""
                for e in elems:
                    e = strip(e)
                    if e.get("k") == "local" and e["bid"] in params:
                        continue
                    if e.get("k") == "local":
                        toks = sc_.tokens(e)
                        # derived iterator (neighbors): must come from the closure's own parameter
                        if any(t.startswith("cparam:") for t in toks) and not any(t.startswith("call:") and "resolve_" in t for t in toks):
                            continue
                    ok = False
                    why = ekey(e)
                R.check(ok, "r3", "%s/map#%d" % (m, n_maps), C.loc(clo["sp"]),
                        "a recording closure in %s returns `%s` instead of the item it received" % (m, why))
        if m != "resolve_starting_vertices":
            R.floor("r3", "output maps in %s" % m, n_maps, 1)
    fifo_rule(ctx, R)
    borrow_discipline(ctx, R)
    pull_driven_effects(ctx, R)


# ---- r6: trace operations are written only in response to a pull ---------------------------------------------------------
def pull_driven_effects(ctx, R):
    """The replay is a linear reading of the trace: an `AdvanceInputIterator` is expected exactly when the reader is pulled, an
    `*IteratorExhausted` exactly when a pull finds the iterator empty. The tap writes these through two helper iterators; their
    `next` is abstractly evaluated with an effect counter as the action and a two-item inner iterator: the pre-action runs once
    per pull and before the inner pull; the end action runs once, at the first pull that returns None, never earlier and never
    again. And nothing else may run an action: no helper / tap type in the trace module has a Drop impl (an operation written
    when an abandoned iterator is dropped - a fold cut short by a count filter - is one the linear replay does not expect),
    and the action fields are read in `next` only."""
    from tfv import absint as A
    from tfv import stdmodel as M
    C = ctx.core
    R.rule("r6", "helper iterators run their trace-writing action exactly at the pull that calls for it (decision table); no Drop impl "
                 "or other function of the trace module runs it")
    TR = INTERP + "trace::"
    helpers = {}
    for adt in C.adts:
        if adt["path"].startswith(TR) and adt.get("variants"):
            fns_ = [fl for fl in adt["variants"][0]["fields"] if (fl.get("ty") or "") in ("F", "core::option::Option<F>")]
            inner = [fl for fl in adt["variants"][0]["fields"] if (fl.get("ty") or "") == "I"]
            if fns_ and inner:
                helpers[adt["path"]] = (fns_[0]["name"], inner[0]["name"], (fns_[0].get("ty") or "").startswith("core::option"))
    R.floor("r6", "helper iterators with an action field", len(helpers), 2)
    I = M.intrinsics()
    for path, (act, inner, once) in sorted(helpers.items()):
        short = path.split("::")[-1]
        nx = [f for f in C.fns if f.get("impl_trait") == "core::iter::traits::iterator::Iterator" and f["name"] == "next"
              and (f.get("self_ty") or "").split("<")[0] == path]
        if len(nx) != 1:
            R.fail("r6", "anchor:%s::next" % short, "-", "expected one Iterator::next impl for %s" % path)
            continue
        log = []

        def action():
            log.append("act")
            return M.unit()

        class Pulls(M.IterV):
            def next(self):
                log.append("pull")
                return M.IterV.next(self)
        try:
            it = Pulls(["x1", "x2"])
            me = A.Struct(path, {act: M.some(action) if once else action, inner: it})
            cell = A.Cell(me)
            ref = A.Ref(lambda: cell.v, lambda v: setattr(cell, "v", v))
            outs = []
            for _ in range(4):
                o = A.deref(A.Interp(C, I).call_fn(nx[0], [ref]))
                outs.append(o.variant if isinstance(o, A.Enum) else repr(o))
                log.append("|")
        except A.Unsupported as e:
            R.fail("r6", "unanalysable/%s" % short, C.loc(nx[0]["sp"]), "cannot evaluate %s::next: %s (fail closed)" % (short, e))
            continue
        except A.PanicReached as e:
            R.fail("r6", "panic/%s" % short, C.loc(nx[0]["sp"]), "%s::next panics: %s" % (short, e.what))
            continue
        got = " ".join(log)
        want = "pull | pull | pull act | pull |" if once else "act pull | act pull | act pull | act pull |"
        R.check(got == want and outs == ["Some", "Some", "None", "None"], "r6", "table/%s::next" % short, C.loc(nx[0]["sp"]),
                "%s::next over a two-item iterator, four pulls: effects `%s` (results %s); expected `%s`: the trace would hold an operation the "
                "linear replay does not expect at that point" % (short, got, outs, want), {"effects": got})
        # who may run the action
        for f in C.fns:
            if not f["path"].startswith((TR, "<" + TR)) or "::tests" in f["path"] or f is nx[0]:
                continue
            if (f.get("self_ty") or "").split("<")[0] != path:
                continue
            reads = [n for n in walk(f["body"]) if n.get("k") == "field" and n.get("name") == act]
            R.check(not reads, "r6", "action-only-in-next/%s/%s" % (short, f["path"].split("::")[-1]), C.loc(f["sp"]),
                    "%s reads `%s.%s` outside Iterator::next (impl %s): the trace-writing action runs at a moment that is not a pull "
                    "(e.g. when an abandoned iterator is dropped), so recorded traces of queries that stop early no longer replay"
                    % (f["path"], short, act, f.get("impl_trait") or "inherent"))
    # every item that passes through a recording closure of the tap is recorded: no exit of the closure precedes its `record` calls,
    # and where the item carries an inner iterator (resolve_neighbors), every exit hands back the *tapped* iterator (the one whose
    # end action writes OutputIteratorExhausted) - an untapped iterator leaves the replay waiting for an operation that was never written
    nclo = 0
    for f in C.fns:
        if not f["path"].startswith(("<" + TR + "AdapterTap", TR + "AdapterTap")) or f["name"] not in METHODS:
            continue
        sc = Scope(C, f)
        for clo in walk(f["body"]):
            if clo.get("k") != "closure":
                continue
            order = {id(x): i for i, x in enumerate(walk(clo["body"]))}
            recs = [x for x in walk(clo["body"]) if x.get("k") == "mcall" and x.get("name") == "record"
                    and not any(x is y for inner in walk(clo["body"]) if inner.get("k") == "closure" for y in walk(inner["body"]))]
            if not recs:
                continue
            nclo += 1
            rets = [x for x in walk(clo["body"]) if x.get("k") == "ret"
                    and not any(x is y for inner in walk(clo["body"]) if inner.get("k") == "closure" for y in walk(inner["body"]))]
            early = [x for x in rets if order[id(x)] < max(order[id(r)] for r in recs)]
            key = "%s/%s" % (f["name"], clo.get("def", "closure").split("::")[-1])
            R.check(not early, "r6", "every-item-recorded/" + key, C.loc((early or [clo])[0]["sp"]),
                    "a recording closure of AdapterTap::%s can return before its record(..) call: items leaving that way are missing from the trace" % f["name"])
            exits = [strip(x["e"]) for x in rets if "e" in x]
            body = clo["body"]
            tail = strip(body.get("tail")) if isinstance(body, dict) and body.get("k") == "block" and "tail" in body else None
            if tail is not None:
                exits.append(tail)
            for e in exits:
                if e.get("k") == "tuple" and len(e["elems"]) == 2 and "dyn core::iter::traits::iterator::Iterator" in (C.S(strip(e["elems"][1]).get("ty")) or ""):
                    toks = sc.tokens(e["elems"][1])
                    R.check(any(t.startswith("call:") and t.endswith("make_iter_with_end_action") for t in toks), "r6",
                            "inner-iterator-tapped/" + key, C.loc(e["sp"]),
                            "AdapterTap::%s hands back an inner iterator that is not wrapped by the end-action helper: its exhaustion is "
                            "never written to the trace and the replay reads the wrong operation" % f["name"])
    R.floor("r6", "recording closures of the tap", nclo, 6)
    drops = [f for f in C.fns if f.get("impl_trait") == "core::ops::drop::Drop" and (f.get("self_ty") or "").startswith(TR)]
    R.check(not drops, "r6", "no-drop-effects", C.loc(drops[0]["sp"]) if drops else "-",
            "a type of the trace module has a Drop impl (%s): effects at drop time are not driven by a pull"
            % [f.get("self_ty") for f in drops][:3])


# ---- r5: the tracer cell is never held across a call into the wrapped adapter ------------------------------------------
def borrow_discipline(ctx, R):
    """The recording adapter keeps its trace in a RefCell that its own input/output closures borrow again whenever the
    wrapped adapter pulls an input or yields an outcome. A `RefMut` that is still alive when the wrapped adapter's resolver
    is called makes every adapter that pulls eagerly (batching, peeking, warm-up) panic with `already borrowed` - tracing
    would no longer equal direct execution. Lock-discipline rule: every named `RefMut` binding in the tap is released
    (explicit drop, or end of its block) before the next call of a resolver of the wrapped adapter in the same block."""
    C = ctx.core
    R.rule("r5", "no RefMut of the tracer is alive across a call into the wrapped adapter (released by drop(..) or scope end first)")
    guards = 0
    for f in C.fns:
        if not f["path"].startswith(("<" + INTERP + "trace::AdapterTap", INTERP + "trace::AdapterTap")):
            continue
        for blk in walk(f["body"]):
            if blk.get("k") != "block":
                continue
            stmts = list(blk.get("stmts", [])) + ([blk["tail"]] if "tail" in blk else [])
            for i, s in enumerate(stmts):
                if not (s.get("k") == "let" and s["pat"].get("k") == "bind" and "init" in s):
                    continue
                ty = C.S(strip(s["init"]).get("ty")) or ""
                if not ty.startswith("core::cell::RefMut<"):
                    continue
                guards += 1
                bid = s["pat"]["bid"]
                released = False
                bad = None
                for later in stmts[i + 1:]:
                    for n in walk(later):
                        if n.get("k") == "call" and (n.get("callee") or "").endswith("mem::drop") and n.get("args") and \
                                strip(n["args"][0]).get("k") == "local" and strip(n["args"][0]).get("bid") == bid:
                            released = True
                        if not released and n.get("k") in ("mcall", "call") and n.get("trait") == sites.ADAPTER and n.get("name") in sites.RESOLVERS:
                            bad = bad or n
                    if released:
                        break
                R.check(bad is None, "r5", "released-before-inner-call/%s/%s" % (f["path"].split("::")[-1], s["pat"]["name"]),
                        C.loc((bad or s)["sp"]),
                        "in %s the RefMut `%s` of the tracer is still alive when the wrapped adapter's %s is called: an adapter that pulls "
                        "an input inside that call re-enters the tap's closures, which borrow the same RefCell again and panic "
                        "(`already borrowed`)" % (f["path"].split("::")[-1], s["pat"]["name"], bad and bad.get("name")))
    R.floor("r5", "named RefMut bindings in the recording adapter", guards, 4)


# ---- r4: the replay readers hand back buffered input contexts in the order they were recorded (FIFO) -------------------
FIFO = {("push_back", "pop_front"), ("push_front", "pop_back")}
INSERT = {"push_back", "push_front", "push", "insert"}
REMOVE = {"pop_front", "pop_back", "pop", "remove", "swap_remove"}


def fifo_rule(ctx, R):
    """A recorded adapter call may have several input contexts in flight (batching / prefetching adapters). The reader pairs
    each recorded YieldFrom with a buffered input; the trace lists yields in input order, so the buffer must be a queue."""
    C = ctx.core
    R.rule("r4", "every replay reader buffers pending input contexts in a FIFO queue (insert at one end, remove at the other)")
    DCP = DC + "<"
    readers = 0
    for adt in C.adts:
        if not adt["path"].startswith("trustfall_core::interpreter::replay::"):
            continue
        for fl in adt["variants"][0]["fields"] if adt.get("variants") else []:
            ty = fl.get("ty") or ""
            if DCP not in ty or not ty.startswith(("alloc::collections::vec_deque::VecDeque<", "alloc::vec::Vec<", "alloc::collections::linked_list::LinkedList<")):
                continue
            readers += 1
            ins, rem = set(), set()
            where = C.loc(adt["sp"])
            for f in C.fns:
                if (f.get("self_ty") or "").split("<")[0] != adt["path"]:
                    continue
                for n in walk(f["body"]):
                    if n.get("k") == "mcall":
                        r = strip(n["recv"])
                        if r.get("k") == "field" and r.get("name") == fl["name"] and r.get("adt") == adt["path"]:
                            if n.get("name") in INSERT:
                                ins.add(n["name"])
                            elif n.get("name") in REMOVE:
                                rem.add(n["name"])
                                where = C.loc(n["sp"])
            pairs = {(i, r) for i in ins for r in rem}
            key = "%s.%s" % (adt["path"].split("::")[-1], fl["name"])
            R.check(bool(pairs) and pairs <= FIFO, "r4", "fifo/%s" % key, where,
                    "the replay reader %s buffers input contexts in `%s` with %s / %s: that is not first-in-first-out, so when the recorded "
                    "adapter had two or more contexts in flight the recorded yields are paired with the wrong inputs and replay fails"
                    % (adt["path"].split("::")[-1], fl["name"], sorted(ins), sorted(rem)), {"type": ty[:60]})
    R.floor("r4", "replay readers with a pending-input buffer", readers, 3)
