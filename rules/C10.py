"""C10 — the frontend never panics on any query text (RK3 inventory + guards + semantic discharge)."""
import itertools

from tfv import absint as A
from tfv import stdmodel as S
from tfv.tast import walk, walk_with_ctx, strip, ekey, calls_in
from tfv.prov import Scope
from . import rk3, panic_audit, tymodel as T

EXPLANATION = ("r1 inventory: every panic-capable construct (unwrap/expect, indexing, panic-family macros and asserts, "
               "overflow checks) in functions reachable from frontend::parse / parse_to_ir (MIR call graph, closures folded "
               "into their function, operator-trait impls of local types reached through std generics included) must have an "
               "audit entry (function, construct, count -> class + reason); an unaudited or additional site is a violation. "
               "r2 guards the audit relies on are in place: the query is validated against the schema before lowering, root "
               "directives are rejected before the root assertions, filter operand types are validated and errors propagated. "
               "r3 semantic discharge: operand_types_valid (all five validity functions) is abstractly evaluated for every "
               "operator x property type x right-hand side (variable with its inferred type, tag of any type) and must never "
               "reach a panic.")
ASSUMPTIONS = ["async-graphql-parser returns well-formed documents for any text (EXTERNAL entries) and does not panic itself",
               "the reasons in the audit table were made by reading the code; the check decides that the set of reachable sites "
               "equals the audited set and that the named guards are structurally present, not that every reason is true"]

FE = "trustfall_core::frontend::"
IR = "trustfall_core::ir::"
ENTRIES = [FE + "parse", FE + "parse_to_ir"]


def guards(C, R):
    # G-VALIDATE
    m = C.fn(FE + "make_ir_for_query")
    if m is None:
        R.fail("r2", "anchor:make_ir_for_query", "-", "make_ir_for_query not found")
    else:
        st = m["body"].get("stmts", [])
        first = st[0] if st else {}
        ok = first.get("k") == "match" and first.get("src") == "TryDesugar" and \
            any((c.get("callee") or "").endswith("validate_query_against_schema") for c in calls_in(first["scrut"]))
        R.check(ok, "r2", "G-VALIDATE", C.loc(m["sp"]),
                "make_ir_for_query must start with `validate_query_against_schema(schema, query)?`: the lowering code indexes the "
                "schema with names from the query and relies on them having been validated")
    # G-ROOT-IS-EDGE: validate_field accepts `__typename` without looking it up in the schema (it exists on every type as a
    # *property*); the root field is lowered as an edge, so the meta field must be refused at the root before that
    v = C.fn(FE + "validation::validate_query_against_schema")
    if v is None:
        R.fail("r2", "anchor:validate_query_against_schema", "-", "validate_query_against_schema not found")
    else:
        pos = {id(n): i for i, (n, _) in enumerate(walk_with_ctx(v["body"]))}
        guard = None
        for n in walk(v["body"]):
            if n.get("k") == "if" and "root_field" in ekey(n["cond"]) and "TYPENAME_META_FIELD" in ekey(n["cond"]) and \
                    any(x.get("k") == "ret" and strip(x.get("e", {})).get("variant") == "Err" for x in walk(n["then"])):
                guard = n
        call = next((n for n in walk(v["body"]) if n.get("k") == "call" and (n.get("callee") or "").endswith("validate_field")), None)
        R.check(guard is not None and call is not None and pos[id(guard)] < pos[id(call)], "r2", "G-ROOT-IS-EDGE", C.loc(v["sp"]),
                "validate_query_against_schema must refuse a root field named __typename before validate_field: validate_field accepts the "
                "meta field without a schema lookup, and get_edge_definition_from_schema then runs into unreachable!() (`{ __typename }`)")
    # G-DUP-VERTICES: the vertex map handed to make_duplicated_output_names_error must also hold the vertices of fold components
    # (a fold's count output refers to the fold's root vertex): it has to come from collect_ir_vertices(_recursive_step)
    sites = []
    for f in C.fns:
        if not f["path"].startswith(FE) or "::tests" in f["path"]:
            continue
        for n in walk(f["body"]):
            if n.get("k") == "call" and (n.get("callee") or "").endswith("make_duplicated_output_names_error"):
                sites.append((f, n))
    R.floor("r2", "make_duplicated_output_names_error call sites", len(sites), 2)
    for f, n in sites:
        sc = Scope(C, f)
        arg = strip(n["args"][0])
        toks = sc.tokens(arg)
        okv = any(t.startswith("call:") and "collect_ir_vertices" in t for t in toks)
        if not okv and arg.get("k") == "local":
            # `let mut all = ir_vertices.clone(); for fold in .. { collect_ir_vertices_recursive_step(&mut all, ..) }`
            okv = any(c.get("k") == "call" and "collect_ir_vertices" in (c.get("callee") or "") and
                      any(x.get("k") == "local" and x.get("bid") == arg["bid"] for a in c["args"] for x in walk(a)) for c in calls_in(f["body"]))
        R.check(okv, "r2", "G-DUP-VERTICES/%s" % f["path"].split("::")[-1], C.loc(n["sp"]),
                "the vertex map given to make_duplicated_output_names_error does not include the vertices of fold components: a duplicate "
                "output name that involves a fold's count output indexes a missing vertex (frontend panic)")
    # G-CHAR-BOUNDARY: str::split_at(k) panics unless byte k is a char boundary (query text is arbitrary UTF-8). Every split_at
    # in the query parser / frontend must use a literal k and sit in the then-branch of an `if` whose condition is a disjunction
    # of starts_with(<ASCII literal of at least k bytes>) tests on the same string.
    nsplit = 0
    for f in C.fns:
        if not f["path"].startswith(("trustfall_core::graphql_query::", "<trustfall_core::graphql_query::", FE, "<" + FE)) or "::tests" in f["path"]:
            continue
        for n, anc in walk_with_ctx(f["body"]):
            if not (n.get("k") == "mcall" and (n.get("callee") or "").endswith("<impl str>::split_at")):
                continue
            nsplit += 1
            k_ = strip(n["args"][0])
            recv = ekey(n["recv"])
            okb = False
            if k_.get("k") == "lit" and isinstance(k_.get("v"), int):
                prev = n
                for a in reversed(anc):
                    if a.get("k") == "if" and any(x is prev for x in walk(a["then"])):
                        def disj(c):
                            c = strip(c)
                            if c.get("k") == "bin" and c.get("op") == "||":
                                return disj(c["l"]) + disj(c["r"])
                            return [c]
                        parts = disj(a["cond"])
                        good = []
                        for p_ in parts:
                            lit = strip(p_["args"][0]).get("v") if p_.get("k") == "mcall" and p_.get("name") == "starts_with" and p_.get("args") else None
                            good.append(isinstance(lit, str) and lit.isascii() and len(lit) >= k_["v"] and ekey(p_["recv"]) == recv)
                        if parts and all(good):
                            okb = True
                        break
                    prev = a
            R.check(okb, "r2", "G-CHAR-BOUNDARY/%s" % f["path"].split("::")[-1][:60], C.loc(n["sp"]),
                    "`%s.split_at(..)` is not guarded by a test that the split point is a char boundary (an ASCII-prefix starts_with test on "
                    "the same string with a literal index): query text such as \"été\" makes it panic" % recv)
    R.floor("r2", "str::split_at sites in the query parser", nsplit, 1)
    # G-ROOT-DIRECTIVES
    p = C.fn("trustfall_core::graphql_query::query::parse_document")
    if p is None:
        R.fail("r2", "anchor:parse_document", "-", "parse_document not found")
    else:
        pos = {}
        order = []
        for i, (n, anc) in enumerate(walk_with_ctx(p["body"])):
            pos[id(n)] = i
            order.append((n, anc))
        guard = None
        for n, anc in order:
            if n.get("k") == "if":
                c = n["cond"]
                if c.get("k") == "letx" and "directives" in ekey(c["init"]) and any(x.get("k") == "ret" for x in walk(n["then"])):
                    guard = n
                    break
        conn = next((n for n, _ in order if n.get("k") == "call" and (n.get("callee") or "").endswith("make_field_connection")), None)
        R.check(guard is not None and conn is not None and pos[id(guard)] < pos[id(conn)], "r2", "G-ROOT-DIRECTIVES", C.loc(p["sp"]),
                "parse_document must reject directives on the root field before building the root connection (the assert!s below rely on it)")
    # G-OPTYPES
    mf = C.fn(FE + "filters::make_filter_expr")
    if mf is None:
        R.fail("r2", "anchor:make_filter_expr", "-", "make_filter_expr not found")
    else:
        ifs = [n for n in walk(mf["body"]) if n.get("k") == "if" and any((c.get("callee") or "").endswith("operand_types_valid") for c in calls_in(n["cond"]))]
        ok = False
        for n in ifs:
            then_err = any(x.get("k") == "ctor" and x.get("variant") == "Err" for x in walk(n["then"]))
            ok = then_err
        R.check(ok, "r2", "G-OPTYPES", C.loc(mf["sp"]), "make_filter_expr must call operand_types_valid and return its errors")
    # parse propagates parser / document errors with `?`
    pt = C.fn(FE + "parse_to_ir")
    if pt is not None:
        tries = [n for n in walk(pt["body"]) if n.get("k") == "match" and n.get("src") == "TryDesugar"]
        R.check(len(tries) >= 2, "r2", "G-PARSE-ERRORS", C.loc(pt["sp"]), "parse_to_ir must propagate parser and document errors with `?`")


def semantic_validity(C, R):
    f = C.fn(FE + "filters::operand_types_valid")
    inf = C.fn(FE + "filters::infer_variable_type")
    if f is None or inf is None:
        R.fail("r3", "anchor", "-", "operand_types_valid / infer_variable_type not found")
        return
    intr = S.intrinsics()
    intr.update(T.intrinsics())
    for g in C.fns:
        if g["path"].startswith(FE + "error::FilterTypeError::"):
            intr[g["path"]] = lambda ip, n, a: A.Sym("FilterTypeError")
    intr[IR + "Operation::<LeftT, RightT>::operation_name"] = lambda ip, n, a: "op"
    intr[IR + "FoldSpecificFieldKind::field_type"] = lambda ip, n, a: T.named("Int", False)
    intr[IR + "FoldSpecificFieldKind::field_name"] = lambda ip, n, a: "@fold.count"
    types = T.all_types(bases=("Int", "String", "Boolean"), max_depth=1)
    ops = [v["name"] for v in C.adt_by_path[IR + "Operation"]["variants"]]
    n = 0
    panics = {}
    try:
        for op in ops:
            unary = op in ("IsNull", "IsNotNull")
            for lt in types:
                left = A.Struct(IR + "LocalField", {"field_name": "prop", "field_type": lt})
                rights = []
                if unary:
                    rights = [("none", None)]
                else:
                    # variable: its type is what infer_variable_type gives (an Err means the filter is rejected before validation)
                    ip = A.Interp(C, intrinsics=intr)
                    try:
                        r = A.deref(ip.call_by_type(inf, [("str", "prop"), ("Type", lt), ("Operation", A.Enum(IR + "Operation", op, [A.Tuple([]), A.Sym("arg")]))]))
                        if r.variant == "Ok":
                            vref = A.Struct(IR + "VariableRef", {"variable_name": "v", "variable_type": A.deref(r.fields[0])})
                            rights.append(("variable", A.Enum(IR + "Argument", "Variable", [vref])))
                    except A.PanicReached:
                        pass
                    for tt in types:
                        cf = A.Struct(IR + "ContextField", {"vertex_id": 1, "field_name": "t", "field_type": tt})
                        rights.append(("tag:%r" % tt, A.Enum(IR + "Argument", "Tag", [A.Enum(IR + "FieldRef", "ContextField", [cf])])))
                for rname, right in rights:
                    operation = A.Enum(IR + "Operation", op, [left] if unary else [left, right])
                    tag_name = S.some("t") if rname.startswith("tag") else S.none()
                    ip = A.Interp(C, intrinsics=intr)
                    n += 1
                    try:
                        ip.call_by_type(f, [("Operation", operation), ("Option", tag_name)])
                    except A.PanicReached as e:
                        panics.setdefault((op, rname.split(":")[0]), []).append({"left": repr(lt), "right": rname, "panic": e.what})
    except A.Unsupported as e:
        R.fail("r3", "unanalysable", C.loc(f["sp"]), "cannot evaluate operand_types_valid abstractly: %s (fail closed)" % e)
        return
    R.extra["r3_cases"] = n
    groups = {}
    for (op, rk), lst in panics.items():
        fam = "ordering" if op in ("LessThan", "LessThanOrEqual", "GreaterThan", "GreaterThanOrEqual") else op
        groups.setdefault((fam, rk), []).extend([dict(x, op=op) for x in lst])
    for (fam, rk), lst in sorted(groups.items()):
        R.fail("r3", "validity-panics/%s/%s" % (fam, rk), C.loc(f["sp"]),
               "type validation of a filter panics (instead of returning a typed error) for %s operators with a %s on the right: e.g. %s"
               % (fam, rk, lst[0]), lst[:4])
    if not panics:
        R.ok("r3", "validity-never-panics", {"cases": n})
    for fam in ("nullability", "equality", "ordering", "containment", "bulk-equality", "string"):
        R.ok("r3", "family/%s" % fam, nontrivial=True)


# r4: recursion inventory. BOUNDED = depth limited by a constant of the code; DEPTH = depth grows with the nesting / length of the
# query text (a stack overflow aborts the process - worse than a panic - unless something limits the depth first)
RECURSION_AUDIT = {
    ("ir::types::base::Type::equal_ignoring_nullability",): ("BOUNDED", "one level per list layer, at most MAX_LIST_DEPTH = 30"),
    ("ir::types::base::Type::is_scalar_only_subtype",): ("BOUNDED", "one level per list layer (<= 30)"),
    ("ir::types::base::Type::intersect_impl",): ("BOUNDED", "one level per list layer (<= 30)"),
    ("<ir::types::base::Type as core::fmt::Debug>::fmt",): ("BOUNDED", "Debug -> Display, one hop"),
    ("<frontend::error::FrontendError as core::convert::From<alloc::vec::Vec<frontend::error::FrontendError>>>::from",):
        ("BOUNDED", "recursion only on the single-element case: at most one hop"),
    ("ir::types::base::Type::is_valid_value",): ("DEPTH", "one level per list layer of the *value* (a nested list literal in the query)"),
    ("<ir::value::FieldValue as core::convert::TryFrom<async_graphql_value::Value>>::try_from",): ("DEPTH", "nested list literal"),
    ("frontend::collect_ir_vertices_recursive_step",): ("DEPTH", "one level per nested @fold"),
    ("ir::indexed::add_data_from_component",): ("DEPTH", "one level per nested @fold"),
    ("frontend::fill_in_vertex_data", "frontend::make_fold", "frontend::make_query_component"): ("DEPTH", "one level per nested selection / @fold"),
    ("frontend::validation::validate_field",): ("DEPTH", "one level per nested selection"),
    ("frontend::fill_in_query_variables",): ("DEPTH", "one level per nested @fold"),
    ("graphql_query::query::make_transform_group",): ("DEPTH", "one level per @transform in a chain"),
    ("graphql_query::query::make_field_node",): ("DEPTH", "one level per nested selection"),
}


def recursion_inventory(C, R, seen, g):
    R.rule("r4", "recursion reachable from parse: every cycle is audited; recursion whose depth grows with the query text needs a depth limit")
    import sys
    nodes = {s for s in seen if "::tests::" not in s}
    idx, low, st, on, comps = {}, {}, [], set(), []
    c = [0]
    sys.setrecursionlimit(20000)

    def sc(v):
        idx[v] = low[v] = c[0]
        c[0] += 1
        st.append(v)
        on.add(v)
        for w in g.edges.get(v, ()):
            if w not in nodes:
                continue
            if w not in idx:
                sc(w)
                low[v] = min(low[v], low[w])
            elif w in on:
                low[v] = min(low[v], idx[w])
        if low[v] == idx[v]:
            comp = []
            while True:
                w = st.pop()
                on.discard(w)
                comp.append(w)
                if w == v:
                    break
            if len(comp) > 1 or v in g.edges.get(v, ()):
                comps.append(comp)
    for v in sorted(nodes):
        if v not in idx:
            sc(v)
    T_ = "trustfall_core::"
    depth_cycles = []
    for comp in comps:
        names = tuple(sorted(x.replace(T_, "") for x in comp))
        if any("FieldValue as core::cmp::PartialEq" in n for n in names):
            # the FieldValue conversion / comparison cluster: one level per list layer of a value
            depth_cycles.append("FieldValue conversions")
            R.ok("r4", "cycle/FieldValue-conversions", {"class": "DEPTH", "members": len(names)})
            continue
        ent = RECURSION_AUDIT.get(names)
        key = "cycle/%s" % "+".join(n.split("::")[-1] for n in names)
        if ent is None:
            R.fail("r4", "unaudited-" + key, "-", "recursive cycle %s is reachable from frontend::parse and is not audited: say what bounds its depth" % (names,))
            continue
        R.ok("r4", key, {"class": ent[0], "reason": ent[1]})
        if ent[0] == "DEPTH":
            depth_cycles.append(names[0].split("::")[-1])
    R.floor("r4", "recursive cycles reachable from parse", len(comps), 10)
    # is there a nesting / length limit before the recursion starts? (a comparison of a depth or length counter against a limit that
    # returns an error in parse_to_ir / parse_document) - none on today's tree
    guard = False
    for name in ("trustfall_core::frontend::parse_to_ir", "trustfall_core::graphql_query::query::parse_document"):
        f = C.fn(name)
        if f is None:
            continue
        for n in walk(f["body"]):
            if n.get("k") == "if" and any(w in ekey(n["cond"]).lower() for w in ("depth", "nesting", "max_len", "limit")) and \
                    any(x.get("k") == "ret" for x in walk(n["then"])):
                guard = True
    R.check(guard or not depth_cycles, "r4", "no-nesting-limit", "-",
            "%d recursive cycles reachable from frontend::parse recurse once per nesting level / chain element of the query text (%s) and "
            "nothing limits that depth first - the GraphQL parser dependency recurses the same way: a long @transform chain or a deeply nested "
            "list literal overflows the stack and aborts the process instead of returning an error" % (len(depth_cycles), ", ".join(depth_cycles[:8])),
            {"depth_cycles": depth_cycles})


def run(ctx, R):
    C = ctx.core
    R.rule("r1", "reachable panic-capable constructs = audited set (class + reason per entry)")
    R.rule("r2", "guards the audit relies on are structurally in place")
    R.rule("r3", "filter type validation never panics (abstract evaluation over operators x types x right-hand sides)")
    inv, seen, parent, g = rk3.run_inventory(C, R, ENTRIES, panic_audit.C10)
    R.floor("r1", "audited keys for the frontend", len(panic_audit.C10), 80)
    recursion_inventory(C, R, seen, g)
    guards(C, R)
    semantic_validity(C, R)
    # audit entries of class INVARIANT name C11 clauses (tag handler / id generators / indexer): re-evaluate them here, a
    # failing clause re-opens the panic sites that rely on it
    from tfv.core import Report
    from . import C11
    R11 = Report("C11", ctx.tier, 0)
    C11.run(ctx, R11)
    bad = [v for v in R11.violations if v["rule"] in ("r2", "r3", "r4")]
    R.check(not bad, "r2", "G-INVARIANTS(C11 r2-r4)", "-",
            "a C11 clause the panic audit relies on is broken: %s - assertions / unwraps in the tag handler and the indexer that are "
            "audited as INVARIANT can fire on query text" % [v["key"] for v in bad][:3], {"c11_instances": len(R11.instances)})
