"""Hand-confirmed audit of panic-capable constructs (RK3). One entry per (function, key):
   (count, class, reason).  Keys never contain line numbers; multiplicity matters.

Classes
  EXTERNAL    invariant of async-graphql-parser's output for text input
  GUARD:<id>  unreachable because a validation elsewhere rejects the input first; <id> is a checked guard rule
  LOCAL       discharged by code a few lines away (length checked, value just inserted, literal non-zero ...)
  INVARIANT   internal invariant of the IR / of a paired push-pop discipline, established by C11 or by construction
  SEMANTIC    discharged by abstract evaluation inside the check (the construct is shown not to fire on any input class)
  CONTRACT    only an adapter that breaks the documented adapter contract reaches it
  LIMIT       needs > 2^63 items / 31 nested list levels
  OUT-OF-SCOPE  construct outside what the property quantifies over (stated per entry)
"""

T = "trustfall_core::"
FD = "<graphql_query::directives::%s as core::convert::TryFrom<&async_graphql_parser::pos::Positioned<async_graphql_parser::types::Directive>>>::try_from"

# ------------------------------------------------------------------------------------------------------------------
# shared by several entry sets
COMMON = {
    ("<ir::value::FieldValue as core::cmp::PartialOrd>::partial_cmp", "assert!()"):
        (2, "GUARD:C12-r2", "floats that reach a comparison are finite: argument validation rejects NaN / infinities (is_valid_value row "
            "`Float64:inf`, decided under C12 r2 / C17 r3), the TryFrom constructors reject them, an adapter returning one breaks its contract"),
    ("ir::value::FieldValue::structural_eq", "assert!()"):
        (2, "GUARD:C12-r2", "same: non-finite floats are refused by argument validation (fixed 1f2da7c; the variant itself is public)"),
    ("<ir::value::FieldValue as core::convert::From<isize>>::from", 'expect("failed to convert isize to i64")<-TryInto::try_into'):
        (1, "LOCAL", "isize is at most 64 bits on supported targets"),
    ("<ir::value::FieldValue as core::convert::From<usize>>::from", 'expect("failed to convert usize to u64")<-TryInto::try_into'):
        (1, "LOCAL", "usize is at most 64 bits on supported targets"),
    ("ir::value::convert_number_to_field_value", "unreachable!(internal error: entered unreachable code)"):
        (1, "EXTERNAL", "a serde_json Number is i64, u64 or f64"),
    ("ir::types::base::Modifiers::as_list", "overflow:Shr"):
        (1, "LOCAL", "shift by the literal 2"),
    ("ir::types::base::Type::from_type", "overflow:Add"): (1, "LIMIT", "loop counter bounded by MAX_LIST_DEPTH*2 (panics first)"),
    ("ir::types::base::Type::from_type", "overflow:Mul"): (1, "LOCAL", "constant 30*2"),
    ("ir::types::base::Type::from_type", "overflow:Shl"): (2, "LOCAL", "shift amount i <= 60, checked against MAX_LIST_DEPTH*2 before use"),
    ("ir::types::base::Type::from_type", "unreachable!()"): (1, "EXTERNAL", "BaseType is Named or List; the loop strips every List"),
    ("ir::types::base::Type::new_list_type", "overflow:Shl"): (1, "LOCAL", "guarded by at_max_list_depth() (C17 r5)"),
}

# ------------------------------------------------------------------------------------------------------------------
C10 = dict(COMMON)
C10.update({
    # NOT audited any more (reasons were wrong; both are listed known findings since the bug hunt of round 2):
    #   Type::from_type  panic!("too many nested lists")  - a parameter type of 31 list levels without a default is accepted by Schema::new
    #   Type::new_list_type panic!("too many nested lists") - 31 nested @fold, or one_of on a 30-level list property: small queries, not a LIMIT
    ("<frontend::error::FrontendError as core::convert::From<alloc::vec::Vec<frontend::error::FrontendError>>>::from", "assert!()"):
        (1, "LOCAL", "every caller converts only a non-empty error vector (`if errors.is_empty() {Ok} else {Err(errors.into())}`)"),
    ("<frontend::error::FrontendError as core::convert::From<alloc::vec::Vec<frontend::error::FrontendError>>>::from", "unwrap<-Iterator::next"):
        (1, "LOCAL", "inside `if v.len() == 1`"),
    ("<frontend::util::ComponentPath as core::ops::index::Index<usize>>::index", "index &Vec<ir::Vid>"):
        (1, "SEMANTIC", "only used by reference_tag with index = defining path length < using path length (C11 r3 table, no panic case)"),
    (FD % "FilterDirective", "call <impl str>::split_at"): (1, "LOCAL", "inside `if s.starts_with('$') || s.starts_with('%')`: byte 1 is a char boundary"),
    (FD % "FilterDirective", "unreachable!(internal error: entered unreachable code)"): (1, "LOCAL", "prefix was checked to be '$' or '%' at the top of the closure"),
    (FD % "FilterDirective", "unwrap<-<A>::pop"): (18, "LOCAL", "parsed_args.len() == expected_arg_count (1 for every binary operator) is checked just above and returns Err otherwise"),
    (FD % "FilterDirective", "unwrap<-Iterator::next"): (1, "LOCAL", "after `if name.is_empty() { return Err }`"),
    (FD % "OutputDirective", "unwrap<-local"): (1, "LOCAL", "value set in the same arm / checked by is_some just above"),
    (FD % "TagDirective", "unwrap<-local"): (1, "LOCAL", "same pattern as OutputDirective"),
    ("<ir::EdgeParameters as core::ops::index::Index<&'a str>>::index", "index &BTreeMap<Arc<str>, ir::value::FieldValue>"):
        (1, "OUT-OF-SCOPE", "public indexing helper for adapter authors; not called on the frontend's own path (reached only through the trait-impl over-approximation)"),
    ("frontend::fill_in_vertex_data", "assert_eq!()"): (2, "GUARD:G-VALIDATE", "two selections of one property of one vertex resolve to the same schema field (name and type)"),
    ("frontend::fill_in_vertex_data", 'expect("Unexpectedly encountered duplicate eid")<-BTreeMapTryInsertExt::insert_or_error'):
        (1, "INVARIANT", "eids come from a strictly increasing generator (C11 r2)"),
    ("frontend::fill_in_vertex_data", "unreachable!()"): (1, "GUARD:G-VALIDATE", "every field type of an accepted schema is a vertex type, a builtin or declared scalar (schema invariant) "
                                                              "and the field exists (validated)"),
    ("frontend::fill_in_vertex_data", "unwrap<-BTreeMapTryInsertExt::insert_or_error"): (1, "INVARIANT", "vids come from a strictly increasing generator (C11 r2)"),
    ("frontend::fill_in_vertex_data", "unwrap<-Iterator::next"): (2, "LIMIT", "`successors` ends only on usize overflow"),
    ("frontend::filters::infer_variable_type", "unreachable!(internal error: entered unreachable code)"):
        (1, "LOCAL", "only called for an operator argument; the directive parser gives IsNull/IsNotNull no argument (expected_arg_count 0)"),
    ("frontend::filters::validity::bulk_equality_types_valid", "unwrap<-Argument::as_tag"): (2, "SEMANTIC", "C10 r3 table"),
    ("frontend::filters::validity::bulk_equality_types_valid", "unwrap<-local"): (5, "SEMANTIC", "C10 r3 table"),
    ("frontend::filters::validity::equality_types_valid", "unwrap<-Argument::as_tag"): (1, "SEMANTIC", "C10 r3 table"),
    ("frontend::filters::validity::equality_types_valid", "unwrap<-local"): (3, "SEMANTIC", "C10 r3 table"),
    ("frontend::filters::validity::list_containment_types_valid", "unwrap<-Argument::as_tag"): (1, "SEMANTIC", "C10 r3 table"),
    ("frontend::filters::validity::list_containment_types_valid", "unwrap<-local"): (3, "SEMANTIC", "C10 r3 table"),
    ("frontend::filters::validity::ordering_types_valid", "unwrap<-Argument::as_tag"): (1, "SEMANTIC", "C10 r3 table"),
    ("frontend::filters::validity::ordering_types_valid", "unwrap<-local"): (5, "SEMANTIC", "C10 r3 table"),
    ("frontend::filters::validity::string_operation_types_valid", "unwrap<-Argument::as_tag"): (1, "SEMANTIC", "C10 r3 table"),
    ("frontend::filters::validity::string_operation_types_valid", "unwrap<-local"): (3, "SEMANTIC", "C10 r3 table"),
    ("frontend::get_edge_definition_from_schema", "unreachable!(internal error: entered unreachable code)"): (1, "GUARD:G-VALIDATE+G-ROOT-IS-EDGE", "the edge exists on the type: validate_field looked it up in schema.fields; its only lookup-free path, "
                                             "`__typename`, is a property and is refused at the root (the one place lowered as an edge without a parent)"),
    ("frontend::get_field_name_and_type_from_schema", "unreachable!(internal error: entered unreachable code)"): (1, "GUARD:G-VALIDATE", "the field exists on the type (validated)"),
    ("frontend::get_recurse_implicit_coercion", "index &BTreeMap<(Arc<str>, Arc<str>), schema::FieldOrigin>"): (1, "GUARD:G-VALIDATE", "field_origins has an entry for every (type, field) of the schema; the edge was validated on source_type"),
    ("frontend::get_recurse_implicit_coercion", "index &HashMap<(Arc<str>, Arc<str>), async_graphql_parser::types::service::FieldDefinition>"):
        (1, "INVARIANT", "a SingleAncestor origin names a type that defines the field (schema construction)"),
    ("frontend::get_vertex_field_definitions", "index &HashMap<Arc<str>, async_graphql_parser::types::service::TypeDefinition>"): (1, "GUARD:G-VALIDATE", "type names come from validated fields / coercions"),
    ("frontend::get_vertex_field_definitions", "unreachable!(internal error: entered unreachable code)"): (1, "INVARIANT", "vertex_types holds only Object / Interface definitions (Schema::new)"),
    ("frontend::make_duplicated_output_names_error", "index &BTreeMap<ir::Vid, ir::IRVertex>"): (2, "GUARD:G-DUP-VERTICES", "both call sites pass a map that holds the component's vertices and those of its folds' components "
                                                                                                   "(a fold's count output refers to the fold's root vertex)"),
    ("frontend::make_edge_parameters", "assert!()"): (1, "GUARD:G-SCHEMA-DEFAULTS", "Schema::new rejects defaults that do not fit the parameter type"),
    # make_edge_parameters `insert_or_error(..).unwrap()`: NOT audited any more - neither the parser nor Schema::new rejects a field
    # that declares the same argument twice (listed known finding)
    ("frontend::make_edge_parameters", "unwrap<-TryFrom::try_from"): (1, "GUARD:G-SCHEMA-DEFAULTS", "Schema::new converted every default value successfully"),
    ("frontend::make_ir_for_query", "unwrap<-<impl usize>::checked_add"): (2, "LIMIT", "usize overflow of an id counter"),
    ("frontend::make_ir_for_query", "unwrap<-Iterator::next"): (1, "LOCAL", "first element of `successors(Some(1), ..)`"),
    ("frontend::make_ir_for_query", "unwrap<-NonZero::new"): (4, "LOCAL", "NonZeroUsize::new of the literal 1 / of x+1 with x >= 1"),
    ("frontend::make_ir_for_query", "unwrap<-local"): (1, "LOCAL", "root_parameters' Err was pushed into `errors`; this is the `errors.is_empty()` branch"),
    ("frontend::make_query_component", "index &BTreeMap<ir::Vid, ir::IRVertex>"): (2, "LOCAL", "only reached when no vertex failed (`if !errors.is_empty() { return Err }` above), so every vid has a vertex"),
    ("frontend::make_query_component", "unwrap<-TryCollectUniqueKey::try_collect_unique"): (1, "INVARIANT", "vids are unique (generator)"),
    ("frontend::make_vertex", "unwrap<-BTreeMap::get"): (1, "LOCAL", "property_names_by_vertex and properties are filled together in fill_in_vertex_data"),
    ("frontend::outputs::OutputHandler::<'query>::begin_nested_scope", "assert!()"): (1, "INVARIANT", "fresh vid per scope (generator)"),
    ("frontend::outputs::OutputHandler::<'query>::end_nested_scope", "assert_eq!()"): (1, "INVARIANT", "begin/end_nested_scope are paired around each edge in fill_in_vertex_data with no early exit between"),
    ("frontend::outputs::OutputHandler::<'query>::end_nested_scope", 'expect("stack was unexpectedly empty")<-Vec::pop'): (1, "INVARIANT", "same pairing"),
    ("frontend::outputs::OutputHandler::<'query>::end_subcomponent", 'expect("stack was unexpectedly empty")<-Vec::pop'): (1, "INVARIANT", "begin_subcomponent at the top of make_query_component"),
    ("frontend::outputs::OutputHandler::<'query>::finish", "assert!()"): (2, "INVARIANT", "finish() runs only when the root component was built (all scopes closed)"),
    ("frontend::outputs::OutputHandler::<'query>::make_output_name", "index &BTreeMap<ir::Vid, Option<&str>>"): (1, "INVARIANT", "every vid on the stack was inserted by begin_nested_scope"),
    ("frontend::outputs::OutputHandler::<'query>::register_output", 'expect("stack was unexpectedly empty")<-<impl [T]>::last_mut'): (1, "INVARIANT", "outputs are registered inside a component"),
    ("frontend::parse", "unwrap<-TryInto::try_into"): (1, "INVARIANT", "freshly built IR satisfies every indexer check: C11 r1 (checks) + r2 (id lockstep) + r3/r4 (tags)"),
    ("frontend::tags::TagHandler::<'a>::end_subcomponent", "assert_eq!()"): (1, "INVARIANT", "C11 r4 pairing"),
    ("frontend::tags::TagHandler::<'a>::end_subcomponent", "unwrap<-Vec::pop"): (1, "INVARIANT", "C11 r4 pairing"),
    ("frontend::tags::TagHandler::<'a>::reference_tag", "assert_eq!()"): (1, "SEMANTIC", "C11 r3 table (evaluated with asserts as no-ops; the stack mirrors the use path)"),
    ("frontend::tags::TagHandler::<'a>::reference_tag", "index &frontend::util::ComponentPath"): (1, "SEMANTIC", "C11 r3 table"),
    ("frontend::tags::TagHandler::<'a>::reference_tag", "overflow:Sub"): (1, "LOCAL", "paths are never empty (ComponentPath::new starts with one element)"),
    ("frontend::tags::TagHandler::<'a>::reference_tag", "unwrap<-<impl [T]>::get_mut"): (1, "SEMANTIC", "C11 r3 table"),
    ("frontend::util::ComponentPath::is_component_root", 'expect("empty component path")<-<impl [T]>::last'): (1, "LOCAL", "paths are never empty"),
    ("frontend::util::ComponentPath::is_parent", "index &Vec<ir::Vid>"): (1, "LOCAL", "slice ..self_len inside `if self_len <= other_len`"),
    ("frontend::util::ComponentPath::pop", "assert_eq!()"): (1, "INVARIANT", "push/pop paired in make_fold (C11 r4)"),
    ("frontend::util::ComponentPath::pop", "unwrap<-Vec::pop"): (1, "INVARIANT", "same"),
    ("frontend::validation::validate_field", "assert_eq!()"): (3, "INVARIANT", "connection and node are built from one field (make_field_connection / make_field_node); path push/pop balanced"),
    ("frontend::validation::validate_field", "unreachable!(internal error: entered unreachable code)"): (1, "INVARIANT", "vertex_types holds only Object / Interface definitions"),
    ("frontend::validation::validate_field", "unwrap<-Vec::pop"): (2, "LOCAL", "pops what this call pushed"),
    ("graphql_query::query::make_field_node", "index &Vec<async_graphql_parser::pos::Positioned<async_graphql_parser::types::executable::Select"): (1, "LOCAL", "inside `if items.len() > 1`"),
    ("graphql_query::query::make_field_node", "unreachable!(internal error: entered unreachable code)"): (1, "LOCAL", "`s` was found by `matches!(.., InlineFragment(_))`"),
    ("graphql_query::query::make_transform_group", "assert!()"): (1, "LOCAL", "the loop above only ends when the iterator returned None"),
    ("graphql_query::query::parse_document", "assert!()"): (3, "LOCAL", "directives on the root field were rejected a few lines above (G-ROOT-DIRECTIVES)"),
    ("graphql_query::query::parse_operation_definition", "index &Vec<async_graphql_parser::pos::Positioned<async_graphql_parser::types::executable::Select"):
        (1, "EXTERNAL", "a parsed selection set has at least one item, so len != 1 means len >= 2"),
    ("graphql_query::query::parse_operation_definition", "unreachable!(internal error: entered unreachable code: Found a root_node )"): (1, "LOCAL", "after `if root_items.len() != 1 { return Err }`"),
    ("graphql_query::query::try_get_query_root", "unreachable!(internal error: entered unreachable code: Found a `DocumentO)"): (1, "EXTERNAL", "DocumentOperations::Multiple holds at least one operation"),
    ("ir::indexed::add_data_from_component", 'expect("pushed value is no longer present")<-Vec::pop'): (1, "LOCAL", "pops the value pushed three lines above (C13 r3)"),
    ("ir::indexed::add_data_from_component", "overflow:Add"): (2, "LIMIT", "eid + 1 on usize"),
    ("schema::Schema::query_type_name", "unwrap<-field:SchemaDefinition.query"): (1, "GUARD:G-SCHEMA-QUERY", "Schema::new requires a query type (expect there; C19 known finding for its absence)"),
    ("schema::get_vertex_type_implements", "unreachable!(internal error: entered unreachable code)"): (1, "INVARIANT", "vertex_types holds only Object / Interface definitions"),
    ("util::TryCollectUniqueKey::try_collect_unique", "unwrap<-BTreeMap::get_mut"): (1, "LOCAL", "the key was just re-inserted from the drained map"),
})

# asserts are keyed by what they test
for _old, _new in [
    (("<frontend::error::FrontendError as core::convert::From<alloc::vec::Vec<frontend::error::FrontendError>>>::from", "assert!()"), "assert!(is_empty)"),
    (("<ir::value::FieldValue as core::cmp::PartialOrd>::partial_cmp", "assert!()"), "assert!(is_finite)"),
    (("ir::value::FieldValue::structural_eq", "assert!()"), "assert!(is_finite)"),
    (("frontend::make_edge_parameters", "assert!()"), "assert!(is_valid_value,from_type,.node,.ty)"),
    (("frontend::outputs::OutputHandler::<'query>::begin_nested_scope", "assert!()"), "assert!(is_none)"),
    (("graphql_query::query::make_transform_group", "assert!()"), "assert!(is_none,next)"),
]:
    for _tab in (COMMON, C10):
        if _old in _tab:
            _tab[(_old[0], _new)] = _tab.pop(_old)
C10.pop(("frontend::fill_in_vertex_data", "assert_eq!()"), None)
C10[("frontend::fill_in_vertex_data", "assert_eq!()")] = (1, "GUARD:G-VALIDATE", "two selections of one property of one vertex resolve to the same schema field: same raw type")
C10[("frontend::fill_in_vertex_data", "assert_eq!(as_ref)")] = (1, "GUARD:G-VALIDATE", "... and the same name (the map key is (vid, name))")
C10.pop(("frontend::outputs::OutputHandler::<'query>::finish", "assert!()"), None)
C10[("frontend::outputs::OutputHandler::<'query>::finish", "assert!(is_empty,.component_outputs_stack)")] = (1, "INVARIANT", "finish() runs only when the root component was built, so every begin_subcomponent was matched")
C10[("frontend::outputs::OutputHandler::<'query>::finish", "assert!(is_empty,.vid_stack)")] = (1, "INVARIANT", "begin/end_nested_scope are paired with no early exit between them")
C10.pop(("frontend::validation::validate_field", "assert_eq!()"), None)
C10[("frontend::validation::validate_field", "assert_eq!(.alias,.alias)")] = (1, "INVARIANT", "connection and node are built from one parsed field")
C10[("frontend::validation::validate_field", "assert_eq!(.name,.name)")] = (1, "INVARIANT", "connection and node are built from one parsed field")
C10[("frontend::validation::validate_field", "assert_eq!(len)")] = (1, "LOCAL", "path push/pop balanced within the call")
C10.pop(("graphql_query::query::parse_document", "assert!()"), None)
for _f in ("fold", "optional", "recurse"):
    C10[("graphql_query::query::parse_document", "assert!(is_none,.%s)" % _f)] = (1, "GUARD:G-ROOT-DIRECTIVES", "directives on the root field were rejected a few lines above, so the root connection has none")

# ------------------------------------------------------------------------------------------------------------------
C19 = dict(COMMON)
C19.update({
    ("<schema::error::InvalidSchemaError as core::convert::From<alloc::vec::Vec<schema::error::InvalidSchemaError>>>::from", "assert!(is_empty)"):
        (1, "LOCAL", "Schema::new converts only in the `errors` non-empty branch"),
    ("<schema::error::InvalidSchemaError as core::convert::From<alloc::vec::Vec<schema::error::InvalidSchemaError>>>::from", "unwrap<-Iterator::next"):
        (1, "LOCAL", "inside `if v.len() == 1`"),
    ("schema::Schema::new", 'expect("no field origins but also no errors")<-local'): (1, "LOCAL", "field_origins is None only in the arm that pushed an error"),
    ("schema::Schema::new", "unimplemented!(not implemented: Trustfall does not support enum's)"): (1, "OUT-OF-SCOPE", "enum definitions are not among the supported constructs C19 quantifies over"),
    ("schema::Schema::new", "unimplemented!(not implemented: Trustfall does not support extending schema)"): (2, "OUT-OF-SCOPE", "`extend` is not a supported construct"),
    ("schema::Schema::new", "unimplemented!(not implemented: Trustfall does not support input objects's)"): (1, "OUT-OF-SCOPE", "input objects are not supported constructs"),
    ("schema::Schema::new", "unimplemented!(not implemented: Trustfall does not support unions's)"): (1, "OUT-OF-SCOPE", "unions are not supported constructs"),
    ("schema::check_ambiguous_field_origins", "index &HashMap<(Arc<str>, Arc<str>), async_graphql_parser::types::service::FieldDefinition>"):
        (1, "LOCAL", "field_origins has exactly the (type, field) keys of `fields` (get_field_origins inserts one per declared field)"),
    ("schema::get_field_origins", "index &BTreeMap<(Arc<str>, Arc<str>), schema::FieldOrigin>"):
        (1, "INVARIANT", "the queue is a topological order: an implemented type is processed before its implementers"),
    ("schema::get_field_origins", "index &HashMap<Arc<str>, async_graphql_parser::types::service::TypeDefinition>"): (1, "LOCAL", "queue holds keys of vertex_types"),
    ("schema::get_field_origins", "unwrap<-BTreeMap::get_mut"): (1, "LOCAL", "resolvers' values are keys of vertex_types, hence of required_resolutions"),
    ("schema::get_field_origins", "unwrap<-BTreeMapTryInsertExt::insert_or_error"): (1, "LOCAL", "duplicate (type, field) pairs were rejected by Schema::new before (DuplicateFieldDefinition)"),
    ("schema::get_vertex_type_fields", "unreachable!(internal error: entered unreachable code)"): (1, "INVARIANT", "vertex_types holds only Object / Interface definitions"),
    ("schema::get_vertex_type_implements", "unreachable!(internal error: entered unreachable code)"): (1, "INVARIANT", "vertex_types holds only Object / Interface definitions"),
})

# ------------------------------------------------------------------------------------------------------------------
X = "interpreter::execution::"
FL = "interpreter::filtering::"
HI = "interpreter::hints::"
C09 = dict(COMMON)
C09.update({
    ("<T as interpreter::hints::vertex_info::VertexInfo>::dynamically_required_property", 'expect("filter did not have an operand")<-<LeftT, RightT>::right'):
        (1, "LOCAL", "relevant_filters keeps only operations whose right side is a tag"),
    ("<T as interpreter::hints::vertex_info::VertexInfo>::dynamically_required_property", 'expect("operand was not a tag")<-Argument::as_tag'): (1, "LOCAL", "same filter"),
    ("<T as interpreter::hints::vertex_info::VertexInfo>::dynamically_required_property", 'expect("removing operands failed")<-<LeftT, RightT>::try_map'): (1, "LOCAL", "both closures are infallible"),
    ("<T as interpreter::hints::vertex_info::VertexInfo>::statically_required_property", "debug_assert!()"): (1, "SEMANTIC", "normalize never leaves Range::full() (C06 r5 table)"),
    ("<interpreter::error::QueryArgumentsError as core::convert::From<alloc::vec::Vec<interpreter::error::QueryArgumentsError>>>::from", "assert!(is_empty)"): (1, "LOCAL", "converted only when errors is non-empty (C12 r1)"),
    ("<interpreter::error::QueryArgumentsError as core::convert::From<alloc::vec::Vec<interpreter::error::QueryArgumentsError>>>::from", "unwrap<-Iterator::next"): (1, "LOCAL", "inside `if v.len() == 1`"),
    ("<interpreter::execution::EdgeExpander<'query, Vertex> as core::iter::traits::iterator::Iterator>::next", "assert!(.has_neighbors)"): (1, "CONTRACT", "an adapter returned neighbors for a context without an active vertex"),
    ("<interpreter::execution::EdgeExpander<'query, Vertex> as core::iter::traits::iterator::Iterator>::next", "assert!(.neighbors_ended)"): (1, "LOCAL", "set on the only path that reaches it"),
    ("<interpreter::execution::RecursiveEdgeExpander<'query, Vertex> as core::iter::traits::iterator::Iterator>::next", "assert!(.has_neighbors)"): (1, "CONTRACT", "same contract clause"),
    ("<interpreter::execution::RecursiveEdgeExpander<'query, Vertex> as core::iter::traits::iterator::Iterator>::next", "unwrap<-field:RecursiveEdgeExpander.neighbor_base"): (1, "LOCAL", "neighbor_base is set in the branch that takes `context`"),
    ("interpreter::DataContext::<Vertex>::activate_vertex", "index &BTreeMap<ir::Vid, Option<Vertex>>"): (1, "INVARIANT", "edges and tag reads start from vertices already recorded in the context (C11: edge endpoints in the component, vids increase along edges)"),
    ("interpreter::DataContext::<Vertex>::ensure_unsuspended", "unwrap<-Vec::pop"): (1, "INVARIANT", "recursion pushes a suspended entry for every context before expanding (expand_recursive_edge)"),
    ("interpreter::DataContext::<Vertex>::record_vertex", "unwrap<-BTreeMapTryInsertExt::insert_or_error"): (1, "INVARIANT", "each vid is entered once per context (unique vids, C11 r1 code 0)"),
    (X + "compute_component", "assert!()"): (4, "INVARIANT", "edges are processed in eid order, each from a visited vertex to a new one (vid = eid + 1, lockstep numbering)"),
    (X + "compute_component", "assert!(is_some)"): (1, "LOCAL", "the match above yields exactly one of the two"),
    (X + "compute_component", "index &BTreeMap<ir::Vid, ir::IRVertex>"): (2, "INVARIANT", "component root / fold source are vertices of the component (indexer codes -1, 11, 12)"),
    (X + "compute_component", "unreachable!(internal error: entered unreachable code)"): (1, "INVARIANT", "an edge and a fold never share an eid (indexer code 14)"),
    (X + "compute_context_field_with_separate_value", 'expect("query was not returned")<-Option::take'): (1, "GUARD:G-CARRIER", "C02 r1"),
    (X + "compute_context_field_with_separate_value", "index &BTreeMap<ir::FieldRef, interpreter::TaggedValue>"): (1, "INVARIANT", "a tag from an outer component is in imported_tags of every enclosing fold (C11 r3/r4)"),
    # one of the two sites is a listed known finding (dynamic hint for a tag defined on the vertex being filtered): audited count 1 of 2
    (X + "compute_context_field_with_separate_value", "index &BTreeMap<ir::Vid, Option<V>>"): (1, "INVARIANT", "the tagged vertex was resolved before the use (C11 r3)"),
    (X + "compute_context_field_with_separate_value", "unwrap<-Vec::pop"): (1, "LOCAL", "pops what the closure before the adapter call pushed"),
    (X + "compute_fold", "assert_eq!(len,.folded_values)"): (1, "INVARIANT", "output names are unique across the query (indexer codes 3, 15)"),
    (X + "compute_fold", "debug_assert_eq!()"): (1, "LOCAL", "both sides say whether the source vertex exists"),
    (X + "compute_fold", 'expect("fold did not contain elements")<-local'): (1, "LOCAL", "inside the branch where the element list is non-empty, hence Some"),
    (X + "compute_fold", 'expect("key not present")<-BTreeMap::get_mut'): (1, "LOCAL", "folded_values was initialised with every output name"),
    (X + "compute_fold", "expect(\"not Some\")<-<'a, K, V, A>::or_insert_with"): (1, "LOCAL", "defaults inserted here are Some(Vec)"),
    (X + "compute_fold", 'expect("not a Vec")<-ValueOrVec::as_mut_vec'): (2, "LOCAL", "entries of this fold's outputs are created as Vec"),
    (X + "compute_fold", 'expect("query was not returned")<-Option::take'): (3, "GUARD:G-CARRIER", "C02 r1"),
    (X + "compute_fold", 'expect("this fold output was already computed")<-BTreeMapTryInsertExt::insert_or_error'): (1, "INVARIANT", "unique (eid, output name)"),
    (X + "compute_fold", 'expect("value was None")<-Option::expect'): (1, "LOCAL", "in the branch where the fold exists, defaults are Some"),
    (X + "compute_fold", "index &BTreeMap<Arc<str>, ir::ContextField>"): (1, "LOCAL", "names are the map's own keys"),
    (X + "compute_fold", "index &BTreeMap<ir::Eid, Option<Vec<interpreter::DataContext<<AdapterT as interpreter::Adapter<'"): (1, "LOCAL", "inserted by the filter_map above for every context"),
    (X + "compute_fold", "index &BTreeMap<ir::Vid, Option<<AdapterT as interpreter::Adapter<'_>>::Vertex>>"): (4, "INVARIANT", "source vertex / tagged vertices / output vertices are recorded before use (C11)"),
    (X + "compute_fold", "index &BTreeMap<ir::Vid, ir::IRVertex>"): (2, "INVARIANT", "imported tags name vertices of the parent component; outputs name vertices of the fold component (indexer codes 1, 2)"),
    (X + "compute_fold", "overflow:Add"): (1, "LIMIT", "sum of two map lengths"),
    (X + "compute_fold", "unwrap<-BTreeMap::remove"): (1, "LOCAL", "removes the imported tags inserted at the top of compute_fold for the same list"),
    (X + "compute_fold", "unwrap<-BTreeMapTryInsertExt::insert_or_error"): (1, "INVARIANT", "one fold per eid per context"),
    (X + "compute_fold", "unwrap<-Vec::pop"): (1, "LOCAL", "one value was pushed per output name"),
    (X + "compute_fold_specific_field_with_separate_value", "index &BTreeMap<ir::Eid, Option<Vec<interpreter::DataContext<Vertex>>>>"): (1, "INVARIANT", "count fields refer to folds computed earlier (tag defined before use; post-filters run after materialisation)"),
    (X + "compute_local_field_with_separate_value", 'expect("query was not returned")<-Option::take'): (1, "GUARD:G-CARRIER", "C02 r1"),
    (X + "compute_local_field_with_separate_value", "index &BTreeMap<ir::Vid, ir::IRVertex>"): (1, "INVARIANT", "current vid is a vertex of the component"),
    (X + "construct_outputs", "assert!(is_none)"): (1, "INVARIANT", "output names are unique (indexer codes 3, 15)"),
    (X + "construct_outputs", "assert!(len,.values)"): (1, "LOCAL", "one value pushed per output name"),
    (X + "construct_outputs", "call <T, A>::drain"): (1, "LOCAL", "full range"),
    (X + "construct_outputs", "debug_assert_eq!()"): (1, "INVARIANT", "rows carry the declared outputs (C13 r5)"),
    (X + "construct_outputs", 'expect("query was not returned")<-Option::take'): (1, "GUARD:G-CARRIER", "C02 r1"),
    (X + "construct_outputs", "index &BTreeMap<Arc<str>, ir::ContextField>"): (1, "LOCAL", "names are the map's own keys"),
    (X + "construct_outputs", "index &BTreeMap<ir::Vid, Option<<AdapterT as interpreter::Adapter<'_>>::Vertex>>"): (1, "INVARIANT", "output vertices are recorded (all edges of the root component are expanded before outputs)"),
    (X + "construct_outputs", "index &BTreeMap<ir::Vid, ir::IRVertex>"): (1, "INVARIANT", "outputs name vertices of their component (indexer codes 1, 2)"),
    (X + "expand_edge", "index &BTreeMap<ir::Vid, ir::IRVertex>"): (5, "INVARIANT", "edge endpoints are vertices of the component (indexer codes 5-8)"),
    (X + "expand_non_recursive_edge", 'expect("query was not returned")<-Option::take'): (1, "GUARD:G-CARRIER", "C02 r1"),
    (X + "expand_recursive_edge", 'expect("query was not returned")<-Option::take'): (1, "GUARD:G-CARRIER", "C02 r1"),
    (X + "get_max_fold_count_limit", 'expect("for field value to be coercible to usize")<-execution::usize_from_field_value'): (3, "GUARD:G-ARGS", "count-filter variables are typed Int! / [Int!]! and validated, so never null"),
    (X + "get_max_fold_count_limit", 'expect("query was not returned")<-field:QueryCarrier.query'): (1, "GUARD:G-CARRIER", "read outside every bracket (C02 r1)"),
    (X + "get_max_fold_count_limit", "index &BTreeMap<Arc<str>, ir::value::FieldValue>"): (3, "GUARD:G-ARGS", "every variable has a value"),
    (X + "get_max_fold_count_limit", "unreachable!(internal error: entered unreachable code)"): (1, "GUARD:G-ARGS", "a one_of variable is list-typed"),
    (X + "get_min_fold_count_limit", 'expect("for field value to be coercible to usize")<-execution::usize_from_field_value'): (2, "GUARD:G-ARGS", "as above"),
    (X + "get_min_fold_count_limit", 'expect("query was not returned")<-field:QueryCarrier.query'): (1, "GUARD:G-CARRIER", "read outside every bracket"),
    (X + "get_min_fold_count_limit", "index &BTreeMap<Arc<str>, ir::value::FieldValue>"): (2, "GUARD:G-ARGS", "every variable has a value"),
    (X + "perform_coercion", 'expect("query was not returned")<-Option::take'): (1, "GUARD:G-CARRIER", "C02 r1"),
    (X + "perform_one_recursive_edge_expansion", 'expect("query was not returned")<-Option::take'): (1, "GUARD:G-CARRIER", "C02 r1"),
    (X + "post_process_recursive_expansion", "assert!(is_none,.piggyback)"): (1, "LOCAL", "unpack_piggyback takes every piggyback"),
    (X + "unpack_piggyback_inner", "call <T, A>::drain"): (1, "LOCAL", "full range"),
    (X + "usize_from_field_value", 'expect("i64 can be converted to usize")<-TryFrom::try_from'): (2, "LIMIT", "non-negative 64-bit value on a 64-bit target"),
    (X + "usize_from_field_value", "panic!()"): (1, "GUARD:G-ARGS", "count-filter variables are integers (type Int)"),
    (FL + "apply_filter", 'expect("query was not returned")<-field:QueryCarrier.query'): (1, "GUARD:G-CARRIER", "read outside every bracket"),
    (FL + "apply_filter", "index &BTreeMap<Arc<str>, ir::value::FieldValue>"): (1, "GUARD:G-ARGS", "every variable has a value"),
    (FL + "apply_filter", "index &BTreeMap<ir::FieldRef, interpreter::TaggedValue>"): (1, "INVARIANT", "a fold-count tag from an outer component is imported (C11 r4)"),
    (FL + "apply_filter", "unreachable!()"): (1, "LOCAL", "unary operators returned a few lines above"),
    (FL + "apply_filter_op_with_static_argument", 'expect("no value present")<-Vec::pop'): (1, "LOCAL", "the field iterator pushed the value"),
    (FL + "apply_filter_op_with_tagged_argument", 'expect("no value present")<-Vec::pop'): (1, "LOCAL", "the field iterator pushed the value"),
    (FL + "apply_filter_with_static_argument_value", 'expect("regex argument was not a string")<-FieldValue::as_str'): (2, "GUARD:G-ARGS", "regex variables are typed String!"),
    (FL + "apply_filter_with_static_argument_value", "unreachable!()"): (1, "LOCAL", "unary operators are handled earlier"),
    (FL + "apply_filter_with_tagged_argument_value", "unreachable!()"): (1, "LOCAL", "unary operators are handled earlier"),
    (FL + "apply_unary_filter", 'expect("no value present")<-Vec::pop'): (1, "LOCAL", "the field iterator pushed the value"),
    (FL + "has_prefix", "unreachable!()"): (1, "GUARD:G-OPTYPES", "both operands are String-typed (validated); an adapter returning another type breaks the contract"),
    (FL + "has_substring", "unreachable!()"): (1, "GUARD:G-OPTYPES", "as above"),
    (FL + "has_suffix", "unreachable!()"): (1, "GUARD:G-OPTYPES", "as above"),
    (FL + "one_of", "unreachable!()"): (1, "GUARD:G-OPTYPES", "the right operand is list-typed (validated) or null"),
    (FL + "regex_matches_optimized", "unreachable!()"): (1, "GUARD:G-OPTYPES", "left operand String-typed"),
    (FL + "regex_matches_slow_path", "unreachable!()"): (1, "GUARD:G-OPTYPES", "both operands String-typed"),
    (HI + "ResolveEdgeInfo::edge", "debug_assert_eq!()"): (2, "INVARIANT", "ResolveEdgeInfo is built with the edge's own endpoints (C21 r1)"),
    (HI + "ResolveEdgeInfo::edge", "index &BTreeMap<ir::Eid, ir::indexed::EdgeKind>"): (1, "INVARIANT", "every edge and fold is in IndexedQuery::eids (C11 r1)"),
    (HI + "candidates::CandidateValue::<T>::intersect", "unreachable!()"): (1, "SEMANTIC", "C06 r4 evaluates every pair of candidates without reaching it"),
    (HI + "candidates::CandidateValue::<T>::normalize", 'expect("no value present")<-Vec::pop'): (1, "SEMANTIC", "C06 r5"),
    (HI + "candidates::Range::<T>::intersect", "debug_assert!()"): (10, "INVARIANT", "range bounds are never null (constructors assert it)"),
    (HI + "dynamic::DynamicallyResolvedValue::<'a>::compute_candidate_from_tagged_value_with_imported_tags", "index &BTreeMap<ir::FieldRef, interpreter::TaggedValue>"): (1, "INVARIANT", "imported tags (C11 r4)"),
    (HI + "dynamic::DynamicallyResolvedValue::<'a>::resolve_fold_specific_field", "panic!()"): (1, "GUARD:G-OPTYPES", "a one_of tag is list-typed"),
    (HI + "dynamic::DynamicallyResolvedValue::<'a>::resolve_fold_specific_field", "unreachable!()"): (1, "LOCAL", "dynamically_required_property only builds values for the seven supported operators"),
    # dynamic::compute_candidate_from_operation panic!(): NOT audited any more - a nullable list tag legitimately holds null (known finding)
    (HI + "dynamic::compute_candidate_from_operation", "unreachable!()"): (1, "LOCAL", "only the seven supported operators"),
    (HI + "filters::candidate_from_statically_evaluated_filters", 'expect("not_one_of operand was not a list")<-FieldValue::as_slice'): (1, "GUARD:G-ARGS", "typed [T]!"),
    (HI + "filters::candidate_from_statically_evaluated_filters", 'expect("query variable was not list-typed")<-FieldValue::as_vec_with'): (1, "GUARD:G-ARGS", "typed [T]!"),
    (HI + "filters::candidate_from_statically_evaluated_filters", "index &BTreeMap<Arc<str>, ir::value::FieldValue>"): (1, "GUARD:G-ARGS", "every variable has a value"),
    ("ir::Argument::evaluate_statically", "index &BTreeMap<Arc<str>, ir::value::FieldValue>"): (1, "GUARD:G-ARGS", "every variable has a value"),
})
