"""C19 — schema validation never panics and accepts exactly the valid schemas (RK3 + RK5)."""
from tfv.tast import walk, walk_with_ctx, strip, ekey, calls_in
from . import rk3, panic_audit

EXPLANATION = ("r1 inventory: every panic-capable construct reachable from Schema::parse / Schema::new must have an audit entry "
               "(class + reason) or be a listed known finding; constructs for unsupported GraphQL features (enum / union / input / "
               "extend) are out of the property's scope. r2: Schema::new runs all validation passes, merges their errors and "
               "returns Ok exactly when none was reported; every InvalidSchemaError variant is still constructed somewhere "
               "(no check was silently dropped).")
ASSUMPTIONS = ["async-graphql-parser rejects empty documents and schema blocks without a query type (EXTERNAL entries)",
               "that the implemented rules are exactly the documented schema rules is decided only as far as r2's structure goes"]

S = "trustfall_core::schema::"
ENTRIES = [S + "Schema::parse", S + "Schema::new"]
AUDIT = dict(panic_audit.C19)
AUDIT.update({
    ("schema::Schema::new", 'expect("No query type was declared in the schema")<-field:SchemaDefinition.query'):
        (1, "EXTERNAL", "the parser rejects a schema block without `query:` (\"Schema failed to parse\")"),
    ("schema::Schema::new", "overflow:Sub"): (2, "EXTERNAL", "the parser rejects documents without definitions, so len() >= 1"),
})
CHECKS = ("check_required_transitive_implementations", "check_field_type_narrowing", "check_fields_required_by_interface_implementations",
          "check_type_and_property_and_edge_invariants", "check_root_query_type_invariants", "get_field_origins", "check_ambiguous_field_origins")


# r3: audited early exits inside loops of the validation code. Every other loop examines every element.
#   (function, kind) -> (count, reason)
EARLY_EXIT_AUDIT = {
    ("check_fields_required_by_interface_implementations", "continue"):
        (1, "the implemented interface is not defined: reported by check_required_transitive_implementations / the type checks"),
    ("get_field_origins", "continue"):
        (1, "the implemented interface is not defined: reported elsewhere; nothing to inherit from it"),
}


def early_exits(C, R):
    """`Schema::parse` must accept exactly the valid schemas, so a validation loop may stop early only to *report an error*
    (return Err(..)); any other break / continue / return inside a loop skips elements and makes acceptance depend on their
    order. Such exits are inventoried per function and must be audited (new ones re-open the question)."""
    R.rule("r3", "validation loops examine every element: early exits inside loops are `return Err(..)` or audited")
    seen = {}
    nloops = 0
    for f in C.fns:
        p = f["path"]
        if not p.startswith(S) or "::tests::" in p or "::adapter::" in p or "::error::" in p:
            continue
        for n, anc in walk_with_ctx(f["body"]):
            if n.get("k") == "loop":
                nloops += 1
            if n.get("k") not in ("break", "continue", "ret"):
                continue
            if not any(a.get("k") == "loop" for a in anc):
                continue
            mac = C.S(n.get("mac")) if n.get("mac") is not None else ""
            if "desugar:ForLoop" in (mac or "") or "desugar:WhileLoop" in (mac or ""):
                continue          # the loop's own exit
            # a closure boundary between the loop and the exit means the exit belongs to the closure, not the loop
            inner = None
            for a in reversed(anc):
                if a.get("k") in ("loop", "closure"):
                    inner = a.get("k")
                    break
            if inner == "closure":
                continue
            if n["k"] == "ret":
                e = strip(n.get("e", {}))
                is_err = (e.get("k") == "ctor" and e.get("variant") == "Err") or \
                    (e.get("k") == "call" and (e.get("callee") or "").endswith("FromResidual::from_residual"))
                if is_err:
                    continue      # stops to report an error (incl. `?`)
            seen.setdefault((f["path"].split("::")[-1], n["k"]), []).append(n)
    R.units["validation_loops"] = nloops
    R.floor("r3", "loops in the schema validation code", nloops, 15)
    for key, nodes in sorted(seen.items()):
        ent = EARLY_EXIT_AUDIT.get(key)
        if ent is None or len(nodes) > ent[0]:
            R.fail("r3", "early-exit/%s/%s" % key, C.loc(nodes[-1]["sp"]),
                   "`%s` inside a validation loop of %s (%d site(s), %d audited): the loop no longer examines every element, so whether an "
                   "invalid schema is rejected depends on the order of its definitions / implements lists" % (key[1], key[0], len(nodes), ent[0] if ent else 0))
        else:
            R.ok("r3", "early-exit/%s/%s" % key, {"reason": ent[1]})
    for key in EARLY_EXIT_AUDIT:
        if key not in seen:
            R.ok("r3", "early-exit/%s/%s" % key, {"note": "audited exit no longer present"}, nontrivial=False)


def uniqueness_obligations(C, R):
    """r4: every name-keyed scope of a schema document must be checked for duplicates, otherwise an invalid document (two
    definitions under one name) is accepted. Scopes of the supported constructs: type/interface names, field names of a type,
    argument names of a field, scalar names vs type names, directive names. The first two and the last are visible as
    insert_or_error calls whose Err is turned into an error (or a known panic); the other two are looked for structurally."""
    R.rule("r4", "every name scope of the schema document has a duplicate check (types, fields, field arguments, scalar vs type names)")
    new = C.fn(S + "Schema::new")
    if new is None:
        return
    ins = [c for c in calls_in(new["body"]) if c.get("name") == "insert_or_error"]
    scopes = {ekey(c["recv"]).split(".")[-1] for c in ins}
    for need in ("vertex_types", "fields"):
        R.check(need in scopes, "r4", "uniqueness/%s" % need, C.loc(new["sp"]), "Schema::new no longer detects duplicate %s" % need)
    # argument names of one field: some validation code must iterate `arguments` of a FieldDefinition and test for repeats
    arg_dup = False
    for f in C.fns:
        if not f["path"].startswith(S) or "::tests::" in f["path"] or "::adapter::" in f["path"]:
            continue
        for n, anc in walk_with_ctx(f["body"]):
            if n.get("k") in ("mcall", "call") and n.get("name") in ("insert", "insert_or_error", "all_unique", "duplicates"):
                loops = [a for a in anc if a.get("k") in ("loop", "match", "closure")]
                txt = " ".join(ekey(x) for a in loops for x in walk(a) if x.get("k") == "field" and x.get("name") == "arguments")
                # the outcome of the insertion must be looked at (if / match / `?` / let-else), not discarded
                used = bool(anc) and anc[-1].get("k") in ("if", "letx", "match", "let", "un", "mcall", "call") and \
                    not (anc[-1].get("k") == "block")
                if txt and used and "name" in " ".join(ekey(x) for x in walk(n)):
                    arg_dup = True
    R.check(arg_dup, "r4", "uniqueness/field-arguments", C.loc(new["sp"]),
            "no validation pass checks that the arguments of one field have distinct names: `e(p: Int, p: Int): A` is accepted by "
            "Schema::parse (and every query through that edge then panics in the frontend)")
    # scalar names vs type/interface names live in two maps: one must be consulted when inserting into the other
    cross = False
    for f in C.fns:
        if not f["path"].startswith(S) or "::tests::" in f["path"] or "::adapter::" in f["path"]:
            continue
        for n in walk(f["body"]):
            # one expression (a condition, a call) that involves both maps, e.g. `vertex_types.contains_key(scalar_name)` while
            # iterating `scalars`, or a lookup of the other map inside the arm that inserts into one
            if n.get("k") in ("if", "match", "loop", "closure"):
                names = {ekey(x).split(".")[-1] for x in walk(n) if x.get("k") in ("local", "field")}
                if {"scalars", "vertex_types"} <= names and n.get("k") != "loop":
                    calls = [c for c in calls_in(n) if c.get("name") in ("contains_key", "get", "insert_or_error", "contains")]
                    recvs = {ekey(c["recv"]).split(".")[-1] for c in calls if c.get("k") == "mcall"}
                    if {"scalars", "vertex_types"} <= recvs and n.get("k") in ("if", "closure"):
                        cross = True
    R.check(cross, "r4", "uniqueness/scalar-vs-type-names", C.loc(new["sp"]),
            "scalars and object/interface types are collected in separate maps and never compared: `scalar A  type A { .. }` is accepted")


def origin_order_guard(C, R):
    """G-ORIGIN-ORDER: get_field_origins processes a type only after the types it waits for, and then indexes `field_origins`
    with every implemented type it does not skip. The set it *waits for* (the filter that builds `required_resolutions`) and
    the set it *does not skip* (the let-else in the processing loop) must be selected by the same predicate on the implemented
    name - today: `is defined in vertex_types`, nothing else. A predicate that is narrower on one side (e.g. `is an interface`)
    lets a type be processed before a type it then looks up: `no entry found for key` on invalid schemas."""
    f = C.fn(S + "get_field_origins")
    if f is None:
        R.fail("r2", "anchor:get_field_origins", "-", "get_field_origins not found")
        return

    def predicate_tokens(region):
        toks = set()
        for x in walk(region):
            if x.get("k") == "mcall" and ekey(x["recv"]).split(".")[-1] == "vertex_types" and x.get("name") in ("contains_key", "get"):
                toks.add("defined")
            elif x.get("k") == "mcall" and x.get("name") in ("is_some_and", "is_some", "is_none", "as_ref", "iter", "map", "filter", "collect", "node"):
                continue
            elif x.get("k") in ("pvariant",) or (x.get("k") == "match" and x.get("src") != "TryDesugar"):
                pass
        for x in walk(region):
            if x.get("k") == "match" or x.get("k") == "letx" or x.get("k") == "let":
                pats = []
                if x.get("k") == "match":
                    pats = [a["pat"] for a in x["arms"]]
                elif "pat" in x:
                    pats = [x["pat"]]
                for p in pats:
                    stack = [p]
                    while stack:
                        q = stack.pop()
                        if not isinstance(q, dict):
                            continue
                        if q.get("k") in ("pvariant", "pstruct") and (q.get("adt") or "").endswith("TypeKind"):
                            toks.add("kind:%s" % q.get("variant"))
                        for key in ("sub", "alts"):
                            v = q.get(key)
                            if isinstance(v, list):
                                stack.extend(v)
                            elif isinstance(v, dict):
                                stack.append(v)
                        for fl in q.get("fields", []) or []:
                            stack.append(fl.get("pat"))
        return toks
    waits = None
    for n in walk(f["body"]):
        if n.get("k") == "mcall" and n.get("name") == "filter" and n.get("args") and strip(n["args"][0]).get("k") == "closure":
            clo = strip(n["args"][0])
            if any(ekey(x.get("recv", {})).split(".")[-1] == "vertex_types" for x in walk(clo) if x.get("k") == "mcall"):
                waits = predicate_tokens(clo["body"])
    skips = None
    for n in walk(f["body"]):
        if n.get("k") == "let" and "els" in n and any(x.get("k") == "continue" for x in walk(n["els"])) and \
                any(ekey(x.get("recv", {})).split(".")[-1] == "vertex_types" for x in walk(n["init"]) if x.get("k") == "mcall"):
            skips = predicate_tokens(n["init"]) | predicate_tokens({"k": "let", "pat": n["pat"]})
    R.check(waits is not None and skips is not None and waits == skips, "r2", "G-ORIGIN-ORDER", C.loc(f["sp"]),
            "get_field_origins waits for implemented names selected by %s but looks up the origins of names selected by %s: a type can be "
            "processed before a type whose field origins it then indexes (panic on invalid schemas instead of a typed error)"
            % (sorted(waits) if waits is not None else "?", sorted(skips) if skips is not None else "?"))


def run(ctx, R):
    C = ctx.core
    R.rule("r1", "reachable panic-capable constructs = audited set + listed known findings")
    R.rule("r2", "Schema::new calls every validation pass, merges errors, Ok iff none; all error variants still constructed")
    rk3.run_inventory(C, R, ENTRIES, AUDIT)
    R.floor("r1", "audited keys for schema construction", len(AUDIT), 20)

    f = C.fn(S + "Schema::new")
    if f is None:
        R.fail("r2", "anchor", "-", "Schema::new not found")
        return
    called = {}
    for n, anc in walk_with_ctx(f["body"]):
        if n.get("k") == "call" and (n.get("callee") or "").startswith(S):
            nm = n["callee"].split("::")[-1]
            if nm in CHECKS:
                called[nm] = (n, anc)
    for nm in CHECKS:
        if nm not in called:
            R.fail("r2", "pass/%s" % nm, C.loc(f["sp"]), "Schema::new no longer runs the validation pass %s: schemas violating its rules are accepted" % nm)
            continue
        n, anc = called[nm]
        # the result must feed `errors` (if let Err(e) = .. { errors.extend/push }) or a match with an Err arm that pushes
        merged = False
        for a in reversed(anc):
            if a.get("k") in ("if", "match"):
                body_calls = [c.get("name") for c in calls_in(a)]
                if "extend" in body_calls or "push" in body_calls:
                    merged = True
                break
        R.check(merged, "r2", "pass/%s" % nm, C.loc(n["sp"]), "the errors of %s are not merged into Schema::new's error list" % nm)
    tail = f["body"].get("tail")
    ok_tail = False
    if tail is not None and tail.get("k") == "if":
        c = strip(tail["cond"])
        ok_tail = c.get("k") == "mcall" and c.get("name") == "is_empty" and "errors" in ekey(c["recv"]) and \
            any(x.get("k") == "ctor" and x.get("variant") == "Ok" for x in walk(tail["then"])) and \
            any(x.get("k") == "ctor" and x.get("variant") == "Err" for x in walk(tail.get("els", {})))
    R.check(ok_tail, "r2", "ok-iff-no-errors", C.loc(f["sp"]), "Schema::new must end with `if errors.is_empty() { Ok(..) } else { Err(..) }`")
    early_exits(C, R)
    uniqueness_obligations(C, R)
    origin_order_guard(C, R)
    # every error variant constructed somewhere in the schema module
    adt = C.adt_by_path.get(S + "error::InvalidSchemaError")
    if adt is None:
        R.fail("r2", "anchor:errors", "-", "InvalidSchemaError not found")
        return
    built = set()
    for g in C.fns:
        if g["path"].startswith(S) or g["path"].startswith("<" + S):
            if "::tests::" in g["path"]:
                continue
            if g.get("impl_trait") in ("core::clone::Clone", "core::fmt::Debug", "core::cmp::PartialEq") or "serde" in g["path"]:
                continue
            for n in walk(g["body"]):
                if n.get("k") in ("ctor", "path", "struct") and n.get("adt") == S + "error::InvalidSchemaError" and n.get("variant"):
                    built.add(n["variant"])
    for v in adt["variants"]:
        R.check(v["name"] in built, "r2", "error-variant/%s" % v["name"], C.loc(adt["sp"]),
                "InvalidSchemaError::%s is never constructed: the rule it reports is no longer checked" % v["name"])
