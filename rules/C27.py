"""C27 — Python bindings agree with the Rust engine (narrow: value conversion tables + shim wiring)."""
from tfv import facts
from tfv import absint as A
from tfv import stdmodel as M
from tfv.prov import Scope
from tfv.tast import walk, walk_with_ctx, strip, calls_in

EXPLANATION = (
    "r1 Python -> Rust: <FieldValue as FromPyObject>::extract is abstractly evaluated (typed AST; pyo3's extract::<T>/cast/"
    "is_none modelled from their documented semantics) on one Python object of every class the conversions distinguish - None, "
    "True/False, integers at every boundary (below i64, i64 range, (i64::MAX, u64::MAX], above u64, beyond f64), finite float, "
    "nan, +-inf, str, other objects, and lists (empty, homogeneous, with nulls, nested, mixed, with a failing element): the "
    "outcome must be the variant the value denotes (bool -> Boolean, never Int64; int -> Int64 / Uint64 by range, never Float64 "
    "when it fits; non-finite floats, unsupported objects and lists containing them -> error). r2 Rust -> Python: "
    "into_pyobject maps every variant to the Python object of the same kind and value, lists elementwise, and "
    "extract(into_pyobject(v)) is numerically v. r3 the two From conversions with trustfall_core's FieldValue are the identity "
    "on variants and payloads, lists elementwise. r4 to_query_arguments propagates extraction errors and converts every "
    "entry; interpret_query maps argument / parse / validation failures to Python exceptions and converts every row entry "
    "under its own key. r5 AdapterShim: each resolver calls the Python method of its own name with its arguments in "
    "declaration order (edge parameters converted entry by entry); each result iterator takes the context from tuple "
    "element 0 and the value from element 1 and returns them paired in that order.")
ASSUMPTIONS = [
    "pyo3 0.29 semantics of extract::<bool|i64|u64|f64|String>, cast::<PyList>, is_none, into_pyobject for the std types "
    "(bool is exact; integer extraction accepts int and bool within range; f64 extraction accepts float and int)",
    "integers outside the 64-bit ranges are outside the property's value kinds: converting them to a float approximation or "
    "rejecting them are both accepted (argument validation rejects them for Int-typed variables, C12)",
    "the Python side (execution.py) only wraps the adapter in AdapterShim and forwards its arguments",
]

PY = "trustfall::value::FieldValue"
CORE = "trustfall_core::ir::value::FieldValue"
I64_MIN, I64_MAX, U64_MAX = -(2 ** 63), 2 ** 63 - 1, 2 ** 64 - 1
F64_MAX_INT = 2 ** 1024


class PyObj:
    def __init__(self, kind, v=None):
        self.kind = kind          # none bool int float str list other
        self.v = v

    def __repr__(self):
        if self.kind == "list":
            return "[%s]" % ", ".join(map(repr, self.v))
        return "py:%s(%s)" % (self.kind, self.v) if self.v is not None else "py:%s" % self.kind


class PyErrV:
    def __init__(self, why):
        self.why = why

    def __repr__(self):
        return "PyErr(%s)" % self.why


def ok(x):
    return M.ok(x)


def err(why):
    return M.err(PyErrV(why))


def target_of(ip, n):
    t = ip.C.S(n.get("ty")) or ""
    if t.startswith("core::result::Result<"):
        return t[len("core::result::Result<"):].rsplit(",", 1)[0].strip()
    return t


def intrinsics(C, extract_fn, into_fn, from_py, from_core):
    I = M.intrinsics()
    I.update(M.string_intrinsics())
    d = A.deref

    def py_extract(ip, n, a):
        o = d(a[0])
        if not isinstance(o, PyObj):
            raise A.Unsupported("extract on %r" % (o,))
        tgt = target_of(ip, n)
        if tgt == "bool":
            return ok(A.Sym("Boolean:%s" % o.v, rank=int(o.v), ty="bool")) if o.kind == "bool" else err("not a bool")
        if tgt in ("i64", "u64"):
            if o.kind not in ("int", "bool"):
                return err("not an int")
            lo, hi = (I64_MIN, I64_MAX) if tgt == "i64" else (0, U64_MAX)
            v = int(o.v)
            return ok(A.Sym("%s:%d" % (tgt, v), rank=v, ty=tgt)) if lo <= v <= hi else err("OverflowError")
        if tgt == "f64":
            if o.kind == "float":
                return ok(A.Sym("f64:%s" % o.v, rank=None, ty="f64", props={"fclass": o.v}))
            if o.kind in ("int", "bool"):
                v = int(o.v)
                if abs(v) >= F64_MAX_INT:
                    return err("OverflowError")
                return ok(A.Sym("f64:approx(%d)" % v, rank=None, ty="f64", props={"fclass": "finite", "from_int": v}))
            return err("not a float")
        if tgt == "alloc::string::String":
            if o.kind == "str" and str(o.v).startswith("sur:"):
                return err("UnicodeEncodeError")       # a str with a lone surrogate has no UTF-8 form: extract::<String> fails
            return ok(A.Sym("str:%s" % o.v, rank=None, ty="str", props={"id": o.v})) if o.kind == "str" else err("not a str")
        if tgt == PY:
            return ip.call_fn(extract_fn, [o])
        raise A.Unsupported("extract::<%s>" % tgt)

    def py_cast(ip, n, a):
        o = d(a[0])
        tgt = target_of(ip, n)
        if "PyList" in tgt:
            return ok(o) if isinstance(o, PyObj) and o.kind == "list" else err("not a list")
        if "PyString" in tgt:
            return ok(o) if isinstance(o, PyObj) and o.kind == "str" else err("not a str")
        raise A.Unsupported("cast::<%s>" % tgt)

    def py_to_str(ip, n, a):
        o = d(a[0])
        if isinstance(o, PyObj) and o.kind == "str":
            if str(o.v).startswith("sur:"):
                return err("UnicodeEncodeError")
            return ok(A.Sym("str:%s" % o.v, rank=None, ty="str", props={"id": o.v}))
        return ok("<repr>")

    def py_to_string_lossy(ip, n, a):
        o = d(a[0])
        if not (isinstance(o, PyObj) and o.kind == "str"):
            raise A.Unsupported("to_string_lossy on %r" % (o,))
        ident = "lossy(%s)" % o.v if str(o.v).startswith("sur:") else o.v      # U+FFFD replaces what has no UTF-8 form
        return A.Sym("str:%s" % ident, rank=None, ty="str", props={"id": ident})

    I["pyo3::instance::Borrowed::<'a, 'py, T>::extract"] = py_extract
    I["pyo3::types::any::PyAnyMethods::extract"] = py_extract
    I["pyo3::instance::Borrowed::<'a, 'py, T>::cast"] = py_cast
    I["pyo3::types::any::PyAnyMethods::cast"] = py_cast
    I["pyo3::types::any::PyAnyMethods::is_none"] = lambda ip, n, a: d(a[0]).kind == "none"
    I["pyo3::types::list::PyListMethods::len"] = lambda ip, n, a: len(d(a[0]).v)
    I["pyo3::types::list::PyListMethods::iter"] = lambda ip, n, a: M.IterV(list(d(a[0]).v))
    # float classes: finite (normal, non-zero), zero, subnormal, nan, inf, -inf
    I["core::f64::<impl f64>::is_finite"] = lambda ip, n, a: d(a[0]).props.get("fclass") in ("finite", "zero", "subnormal")
    I["core::f64::<impl f64>::is_normal"] = lambda ip, n, a: d(a[0]).props.get("fclass") == "finite"
    I["core::f64::<impl f64>::is_subnormal"] = lambda ip, n, a: d(a[0]).props.get("fclass") == "subnormal"
    I["core::f64::<impl f64>::is_nan"] = lambda ip, n, a: d(a[0]).props.get("fclass") == "nan"
    I["core::f64::<impl f64>::is_infinite"] = lambda ip, n, a: d(a[0]).props.get("fclass") in ("inf", "-inf")
    I["pyo3::exceptions::PyValueError::new_err"] = lambda ip, n, a: PyErrV("ValueError")
    I["pyo3::types::any::PyAnyMethods::repr"] = lambda ip, n, a: ok(A.Sym("repr"))
    I["pyo3::types::any::PyAnyMethods::get_type"] = lambda ip, n, a: A.Sym("type")
    I["pyo3::types::string::PyStringMethods::to_str"] = py_to_str
    I["pyo3::types::string::PyStringMethods::to_string_lossy"] = py_to_string_lossy
    I["pyo3::types::string::PyStringMethods::to_cow"] = py_to_str
    I["alloc::borrow::Cow::<'_, B>::into_owned"] = lambda ip, n, a: d(a[0])
    I["core::result::Result::<T, E>::as_ref"] = lambda ip, n, a: d(a[0])
    I["core::result::Result::<T, E>::unwrap_or"] = lambda ip, n, a: d(a[0]).fields[0] if d(a[0]).variant == "Ok" else a[1]
    I["core::fmt::rt::Argument::<'_>::new_display"] = lambda ip, n, a: "<display>"
    I["core::fmt::rt::Argument::<'_>::new_debug"] = lambda ip, n, a: "<debug>"
    I[PY + "::python_type_name"] = lambda ip, n, a: "<type name>"
    I["core::mem::discriminant"] = lambda ip, n, a: "discriminant:" + d(a[0]).variant
    I["pyo3::instance::Bound::<'py, T>::into_any"] = lambda ip, n, a: d(a[0])
    I["pyo3::instance::Borrowed::<'a, 'py, T>::to_owned"] = lambda ip, n, a: d(a[0])
    I["pyo3::instance::Bound::<'py, T>::unbind"] = lambda ip, n, a: d(a[0])

    def into_py(ip, n, a):
        v = d(a[0])
        if isinstance(v, A.Enum) and v.adt == PY:
            return ip.call_fn(into_fn, [v, a[1] if len(a) > 1 else None])
        if isinstance(v, A.Enum) and v.adt == M.OPTION:
            if v.variant == "None":
                return ok(PyObj("none"))
            return into_py(ip, n, [v.fields[0]])
        if isinstance(v, A.Sym):
            if v.ty in ("i64", "u64"):
                return ok(PyObj("int", v.rank))
            if v.ty == "bool":
                return ok(PyObj("bool", bool(v.rank)))
            if v.ty == "f64":
                return ok(PyObj("float", v.props.get("fclass", "finite")))
            if v.ty == "str":
                return ok(PyObj("str", v.props.get("id")))
        if isinstance(v, A.VecV):
            items = [d(x) for x in v.items]
            if all(isinstance(x, PyObj) for x in items):
                return ok(PyObj("list", items))
        raise A.Unsupported("into_pyobject of %r" % (v,))
    I["pyo3::conversion::IntoPyObject::into_pyobject"] = into_py

    def into(ip, n, a):
        v = d(a[0])
        if isinstance(v, A.Enum) and v.adt == PY and from_py is not None:
            return ip.call_fn(from_py, [v])
        if isinstance(v, A.Enum) and v.adt == CORE and from_core is not None:
            return ip.call_fn(from_core, [v])
        tgt = (ip.C.S(n.get("ty")) or "") if isinstance(n, dict) else ""
        if isinstance(v, A.Sym) and tgt in ("i64", "u64", "i32", "u32", "f64") and v.ty in ("bool", "i64", "u64") and v.ty != tgt:
            if tgt == "f64":
                return A.Sym("f64:from(%s)" % v.name, rank=None, ty="f64", props={"fclass": "finite", "from_int": v.rank})
            return A.Sym("%s:from(%s)" % (tgt, v.name), rank=int(v.rank), ty=tgt)   # lossless std From between numeric types
        return v
    I["core::convert::Into::into"] = into
    I["core::convert::From::from"] = into
    return I


def py_objects():
    """(label, object, expected): expected is a set of acceptable outcome keys."""
    def i(v):
        return PyObj("int", v)
    out = [
        ("None", PyObj("none"), {"Null"}),
        ("True", PyObj("bool", True), {"Boolean:1"}),
        ("False", PyObj("bool", False), {"Boolean:0"}),
        ("int i64::MIN", i(I64_MIN), {"Int64:%d" % I64_MIN}),
        ("int -1", i(-1), {"Int64:-1"}),
        ("int 0", i(0), {"Int64:0", "Uint64:0"}),
        ("int 1", i(1), {"Int64:1", "Uint64:1"}),
        ("int i64::MAX", i(I64_MAX), {"Int64:%d" % I64_MAX, "Uint64:%d" % I64_MAX}),
        ("int i64::MAX+1", i(I64_MAX + 1), {"Uint64:%d" % (I64_MAX + 1)}),
        ("int u64::MAX", i(U64_MAX), {"Uint64:%d" % U64_MAX}),
        ("int u64::MAX+1", i(U64_MAX + 1), {"Err", "Float64:approx"}),
        ("int i64::MIN-1", i(I64_MIN - 1), {"Err", "Float64:approx"}),
        ("int 2**1024", i(F64_MAX_INT), {"Err"}),
        ("float finite", PyObj("float", "finite"), {"Float64:finite"}),
        ("float 0.0 / -0.0", PyObj("float", "zero"), {"Float64:zero"}),
        ("float subnormal (5e-324)", PyObj("float", "subnormal"), {"Float64:subnormal"}),
        ("[0.0, 1.5]", PyObj("list", [PyObj("float", "zero"), PyObj("float", "finite")]), {"List[Float64:zero,Float64:finite]"}),
        ("float nan", PyObj("float", "nan"), {"Err"}),
        ("float +inf", PyObj("float", "inf"), {"Err"}),
        ("float -inf", PyObj("float", "-inf"), {"Err"}),
        ("str", PyObj("str", "s1"), {"String:s1"}),
        # a str holding a lone surrogate (os.fsdecode of a non-UTF-8 file name) has no Rust String: refuse it, never rewrite it
        ("str with a lone surrogate", PyObj("str", "sur:s2"), {"Err"}),
        ("object", PyObj("other", "dict"), {"Err"}),
    ]
    L = lambda *xs: PyObj("list", list(xs))
    out += [
        ("[]", L(), {"List[]"}),
        ("[1, 2]", L(i(1), i(2)), {"List[Int64:1,Int64:2]", "List[Uint64:1,Uint64:2]"}),
        ("[None, 1, None]", L(PyObj("none"), i(1), PyObj("none")), {"List[Null,Int64:1,Null]", "List[Null,Uint64:1,Null]"}),
        ("[None]", L(PyObj("none")), {"List[Null]"}),
        ("[-1, 1]", L(i(-1), i(1)), {"List[Int64:-1,Int64:1]"}),
        ("[1, i64::MAX+1]", L(i(1), i(I64_MAX + 1)), {"Err", "List[Int64:1,Uint64:%d]" % (I64_MAX + 1), "List[Uint64:1,Uint64:%d]" % (I64_MAX + 1)}),
        ("[1, 2.5]", L(i(1), PyObj("float", "finite")), {"Err", "List[Int64:1,Float64:finite]"}),
        ("['a', 'b']", L(PyObj("str", "a"), PyObj("str", "b")), {"List[String:a,String:b]"}),
        ("[[1], [2, None]]", L(L(i(1)), L(i(2), PyObj("none"))), {"List[List[Int64:1],List[Int64:2,Null]]", "List[List[Uint64:1],List[Uint64:2,Null]]"}),
        ("[1.5, nan]", L(PyObj("float", "finite"), PyObj("float", "nan")), {"Err"}),
        ("[1, object]", L(i(1), PyObj("other", "x")), {"Err"}),
        ("[1, 'a']", L(i(1), PyObj("str", "a")), {"Err", "List[Int64:1,String:a]"}),
        ("[True, 1]", L(PyObj("bool", True), i(1)), {"Err", "List[Boolean:1,Int64:1]"}),
        ("[True, False]", L(PyObj("bool", True), PyObj("bool", False)), {"List[Boolean:1,Boolean:0]"}),
        ("[[1], ['a']]", L(L(i(1)), L(PyObj("str", "a"))), {"Err", "List[List[Int64:1],List[String:a]]"}),
    ]
    return out


def outcome_key(v):
    v = A.deref(v)
    if isinstance(v, A.Enum) and v.adt == M.RESULT:
        if v.variant == "Err":
            return "Err"
        return value_key(v.fields[0])
    return "?%r" % (v,)


def value_key(v):
    v = A.deref(v)
    if not isinstance(v, A.Enum):
        return "?%r" % (v,)
    if v.variant == "Null":
        return "Null"
    if v.variant == "List":
        inner = A.deref(v.fields[0])
        return "List[%s]" % ",".join(value_key(x) for x in inner.items)
    p = A.deref(v.fields[0])
    if isinstance(p, A.Sym):
        if p.ty in ("i64", "u64", "bool"):
            want = {"Int64": "i64", "Uint64": "u64", "Boolean": "bool"}.get(v.variant)
            if want != p.ty:
                return "%s:<payload of type %s>" % (v.variant, p.ty)
            return "%s:%d" % (v.variant, p.rank)
        if p.ty == "f64":
            return "%s:%s" % (v.variant, "approx" if "from_int" in p.props else p.props.get("fclass"))
        if p.ty == "str":
            return "%s:%s" % (v.variant, p.props.get("id"))
    return "%s:?%r" % (v.variant, p)


def field_values(adt):
    """(label, value builder, python expectation) for into_pyobject / From tables."""
    def sym(ty, name, rank=None, **props):
        return A.Sym(name, rank=rank, ty=ty, props=props)
    reps = [
        ("Null", lambda: A.Enum(adt, "Null"), ("none", None)),
        ("Int64(-1)", lambda: A.Enum(adt, "Int64", [sym("i64", "i64:-1", -1)]), ("int", -1)),
        ("Int64(i64::MIN)", lambda: A.Enum(adt, "Int64", [sym("i64", "i64:min", I64_MIN)]), ("int", I64_MIN)),
        ("Int64(i64::MAX)", lambda: A.Enum(adt, "Int64", [sym("i64", "i64:max", I64_MAX)]), ("int", I64_MAX)),
        ("Uint64(0)", lambda: A.Enum(adt, "Uint64", [sym("u64", "u64:0", 0)]), ("int", 0)),
        ("Uint64(i64::MAX+1)", lambda: A.Enum(adt, "Uint64", [sym("u64", "u64:big", I64_MAX + 1)]), ("int", I64_MAX + 1)),
        ("Uint64(u64::MAX)", lambda: A.Enum(adt, "Uint64", [sym("u64", "u64:max", U64_MAX)]), ("int", U64_MAX)),
        ("Float64", lambda: A.Enum(adt, "Float64", [sym("f64", "f64:x", fclass="finite")]), ("float", "finite")),
        ("String", lambda: A.Enum(adt, "String", [sym("str", "str:s", id="s")]), ("str", "s")),
        ("Boolean(true)", lambda: A.Enum(adt, "Boolean", [sym("bool", "bool:1", 1)]), ("bool", True)),
        ("Boolean(false)", lambda: A.Enum(adt, "Boolean", [sym("bool", "bool:0", 0)]), ("bool", False)),
    ]
    return reps


def py_key(o):
    o = A.deref(o)
    if not isinstance(o, PyObj):
        return "?%r" % (o,)
    if o.kind == "list":
        return "[%s]" % ",".join(py_key(x) for x in o.v)
    return "%s:%s" % (o.kind, o.v)


def numeric(vk):
    """Normalise Int64/Uint64 keys to their number for round-trip comparison."""
    import re
    return re.sub(r"\b(Int64|Uint64):", "Int:", vk)


def find_impl(C, trait, self_ty, name, param_ty=None):
    for f in C.fns:
        if f.get("impl_trait") == trait and f.get("name") == name and (f.get("self_ty") or "") == self_ty:
            if param_ty is None or (C.S(f["params"][0].get("ty")) or "").startswith(param_ty):
                return f
    return None


def run(ctx, R):
    C = ctx.crate(facts.PYTF)
    for r, t in (("r1", "Python -> FieldValue decision table"), ("r2", "FieldValue -> Python table and round trip"),
                 ("r3", "conversions with trustfall_core's FieldValue are identities"),
                 ("r4", "arguments and rows: errors propagate, every entry converted under its own key"),
                 ("r5", "AdapterShim wiring: method names, argument order, tuple element pairing")):
        R.rule(r, t)
    extract_fn = find_impl(C, "pyo3::conversion::FromPyObject", PY, "extract")
    into_fn = find_impl(C, "pyo3::conversion::IntoPyObject", PY, "into_pyobject")
    from_py = find_impl(C, "core::convert::From", CORE, "from")
    from_core = find_impl(C, "core::convert::From", PY, "from")
    for nm, f, rule in (("FromPyObject for FieldValue", extract_fn, "r1"), ("IntoPyObject for FieldValue", into_fn, "r2"),
                        ("From<FieldValue> for core FieldValue", from_py, "r3"), ("From<core FieldValue> for FieldValue", from_core, "r3")):
        if f is None:
            R.fail(rule, "anchor:%s" % nm, "-", "impl %s not found" % nm)
    if None in (extract_fn, into_fn, from_py, from_core):
        return
    I = intrinsics(C, extract_fn, into_fn, from_py, from_core)

    def interp():
        return A.Interp(C, I, max_steps=100000)

    # ---- r1
    for label, obj, expected in py_objects():
        try:
            got = outcome_key(interp().call_fn(extract_fn, [obj]))
        except A.PanicReached as p:
            got = "panic:%s" % p.what
        except A.Unsupported as e:
            R.fail("r1", "unanalysable:%s" % label, C.loc(extract_fn["sp"]), "abstract evaluation failed on Python object %s: %s (fail closed)" % (label, e))
            continue
        R.check(got in expected, "r1", "extract:%s" % label, C.loc(extract_fn["sp"]),
                "the Python value %s is converted to %s; the faithful conversion is %s" % (label, got, " or ".join(sorted(expected))),
                {"python": label, "outcome": got})

    # ---- r2
    for label, mk, (kind, pv) in field_values(PY):
        try:
            res = A.deref(interp().call_fn(into_fn, [mk(), A.Sym("py")]))
            got = py_key(res.fields[0]) if res.variant == "Ok" else "Err"
        except A.PanicReached as p:
            got = "panic:%s" % p.what
        except A.Unsupported as e:
            R.fail("r2", "unanalysable:%s" % label, C.loc(into_fn["sp"]), "abstract evaluation failed: %s" % e)
            continue
        want = "%s:%s" % (kind, pv)
        R.check(got == want, "r2", "into_py:%s" % label, C.loc(into_fn["sp"]),
                "FieldValue::%s is sent to Python as %s, expected %s" % (label, got, want), {"value": label, "python": got})
        if got == want:
            try:
                back = outcome_key(interp().call_fn(extract_fn, [A.deref(res.fields[0])]))
            except (A.Unsupported, A.PanicReached) as e:
                back = "?%s" % e
            orig = value_key(mk())
            R.check(numeric(back) == numeric(orig), "r2", "round-trip:%s" % label, C.loc(into_fn["sp"]),
                    "FieldValue::%s comes back from Python as %s" % (label, back))
    # lists elementwise
    try:
        lst = A.Enum(PY, "List", [A.VecV([mk() for _, mk, _ in field_values(PY)[:3]])])
        res = A.deref(interp().call_fn(into_fn, [lst, A.Sym("py")]))
        got = py_key(res.fields[0]) if res.variant == "Ok" else "Err"
        want = "[%s]" % ",".join("%s:%s" % kv for _, _, kv in field_values(PY)[:3])
        R.check(got == want, "r2", "into_py:List", C.loc(into_fn["sp"]), "a list is sent to Python as %s, expected %s" % (got, want))
    except (A.Unsupported, A.PanicReached) as e:
        R.fail("r2", "unanalysable:List", C.loc(into_fn["sp"]), "abstract evaluation failed: %s" % e)

    # ---- r3
    for (src, dst, f, nm) in ((PY, CORE, from_py, "py->core"), (CORE, PY, from_core, "core->py")):
        reps = field_values(src) + [("Enum", lambda src=src: A.Enum(src, "Enum", [A.Sym("enum:e", ty="str", props={"id": "e"})]), None)]
        for label, mk, _ in reps:
            v = mk()
            try:
                got = A.deref(interp().call_fn(f, [v]))
            except (A.Unsupported, A.PanicReached) as e:
                R.fail("r3", "unanalysable:%s:%s" % (nm, label), C.loc(f["sp"]), "abstract evaluation failed: %s" % e)
                continue
            same = isinstance(got, A.Enum) and got.adt == dst and got.variant == v.variant and \
                len(got.fields) == len(v.fields) and all(A.deref(x) is A.deref(y) for x, y in zip(got.fields, v.fields))
            R.check(same, "r3", "identity:%s:%s" % (nm, label), C.loc(f["sp"]),
                    "conversion %s maps FieldValue::%s to %r (must be the same variant with the same payload)" % (nm, label, got))
        try:
            items = [mk() for _, mk, _ in field_values(src)[:4]]
            inner = A.VecV(list(items))
            got = A.deref(interp().call_fn(f, [A.Enum(src, "List", [inner])]))
            gl = A.deref(got.fields[0]) if isinstance(got, A.Enum) and got.variant == "List" else None
            same = gl is not None and len(gl.items) == len(items) and all(
                A.deref(g).variant == it.variant and A.deref(g).adt == dst and
                all(A.deref(x) is A.deref(y) for x, y in zip(A.deref(g).fields, it.fields)) for g, it in zip(gl.items, items))
            R.check(same, "r3", "identity:%s:List" % nm, C.loc(f["sp"]), "conversion %s does not map lists elementwise in order: %r" % (nm, got))
        except (A.Unsupported, A.PanicReached) as e:
            R.fail("r3", "unanalysable:%s:List" % nm, C.loc(f["sp"]), "abstract evaluation failed: %s" % e)

    shim_rules(C, R)

    # ---- r6: no numeric `as` cast in the bindings' own code (value.rs / shim.rs); the tables above model casts as identities
    R.rule("r6", "no numeric `as` cast in the bindings (conversions go through pyo3 / From only)")
    nb = 0
    for m in C.mir:
        if not m["path"].startswith(("trustfall::value::", "<trustfall::value::", "trustfall::shim::", "<trustfall::shim::")):
            continue
        if any(s in m["path"] for s in ("pyo3::impl_::", "pyo3::type_object::", "pyo3::pyclass::", "_PYO3", "__pymethod", "__pyfunction")):
            continue      # code generated by pyo3's attribute macros
        nb += 1
        for c in m["casts"]:
            if c["kind"] in ("IntToInt", "FloatToInt", "IntToFloat", "FloatToFloat"):
                R.fail("r6", "cast:%s/%s->%s" % (m["path"].split("::")[-1], c["from"], c["to"]), C.loc(c.get("sp")),
                       "`%s as %s` in %s: values crossing the language boundary must not be converted with `as` (wraps / rounds silently)"
                       % (c["from"], c["to"], m["path"]))
    R.floor("r6", "MIR bodies of the bindings scanned", nb, 25)
    R.ok("r6", "no-numeric-casts", {"bodies": nb})


SH = "trustfall::shim::"
RESOLVERS = {
    "resolve_starting_vertices": ["edge_name", "parameters"],
    "resolve_property": ["contexts", "type_name", "property_name"],
    "resolve_neighbors": ["contexts", "type_name", "edge_name", "parameters"],
    "resolve_coercion": ["contexts", "type_name", "coerce_to_type"],
}


def root_param(sc, e, depth=0):
    """Index of the function parameter an expression is derived from (through lets, method chains, closures over it)."""
    e = strip(e)
    if not isinstance(e, dict) or depth > 25:
        return None
    k = e.get("k")
    if k == "local":
        d = sc.single_def(e["bid"])
        if d is None:
            return None
        if d[0] == "param":
            return d[4]
        if d[0] in ("let", "arm") and d[1] is not None:
            return root_param(sc, d[1], depth + 1)
        return None
    if k == "mcall":
        return root_param(sc, e["recv"], depth + 1)
    if k == "call" and e.get("args"):
        return root_param(sc, e["args"][0], depth + 1)
    if k == "match" and e.get("src") == "TryDesugar":
        return root_param(sc, e["scrut"], depth + 1)
    if k == "block" and "tail" in e:
        return root_param(sc, e["tail"], depth + 1)
    return None


def shim_rules(C, R):
    # ---- r4
    tq = C.fn(SH + "to_query_arguments")
    if tq is None:
        R.fail("r4", "anchor:to_query_arguments", "-", "to_query_arguments not found")
    else:
        ex = [n for n in calls_in(tq["body"]) if n.get("name") == "extract"]
        prop = False
        for n, anc in walk_with_ctx(tq["body"]):
            if n in ex:
                prop = any(a.get("k") == "match" and a.get("src") == "TryDesugar" for a in anc)
        R.check(bool(ex) and prop, "r4", "arguments:error-propagates", C.loc(tq["sp"]),
                "to_query_arguments must extract the argument map and propagate the extraction error with `?`")
        ty = [C.S(n.get("ty")) or "" for n in ex]
        R.check(any("BTreeMap<alloc::string::String, trustfall::value::FieldValue>" in t for t in ty), "r4", "arguments:typed-extraction",
                C.loc(tq["sp"]), "arguments must be extracted as a map of FieldValue (so every value goes through the conversion table), got %s" % ty)
        conv = False
        for n in walk(tq["body"]):
            if n.get("k") == "closure":
                b = strip(n["body"])
                if b.get("k") == "tuple" and len(b["elems"]) == 2:
                    ks = [strip(x) for x in b["elems"]]
                    names = [strip(x.get("recv", {})).get("name") if x.get("k") == "mcall" and x.get("name") == "into" else None for x in ks]
                    ps = [p["sub"][i]["name"] if p.get("k") == "ptuple" and p["sub"][i].get("k") == "bind" else None
                          for p in n["params"][:1] for i in (0, 1)]
                    conv = names == ps and None not in names
        R.check(conv, "r4", "arguments:entrywise", C.loc(tq["sp"]), "every (key, value) entry must be converted as (key.into(), value.into())")
    iq = C.fn(SH + "interpret_query")
    if iq is None:
        R.fail("r4", "anchor:interpret_query", "-", "interpret_query not found")
    else:
        names = [n.get("callee") or "" for n in calls_in(iq["body"])]
        for callee, what in (("trustfall_core::frontend::parse", "parse"), ("trustfall_core::interpreter::execution::interpret_ir", "interpret_ir")):
            sites = [n for n, anc in walk_with_ctx(iq["body"]) if n.get("k") == "call" and n.get("callee") == callee]
            okp = False
            for n, anc in walk_with_ctx(iq["body"]):
                if n.get("k") == "call" and n.get("callee") == callee:
                    okp = any(a.get("k") == "match" and a.get("src") == "TryDesugar" for a in anc) and \
                        any(a.get("k") == "mcall" and a.get("name") == "map_err" for a in anc)
            R.check(bool(sites) and okp, "r4", "query:%s-error" % what, C.loc(iq["sp"]),
                    "interpret_query must call %s and turn its error into a Python exception (`map_err(..)?`)" % what)
        errs = {n.get("callee", "").split("::")[-2] for n in calls_in(iq["body"]) if (n.get("callee") or "").endswith("::new_err")}
        R.check({"ParseError", "ValidationError", "FrontendError", "QueryArgumentsError"} <= errs, "r4", "query:exception-kinds", C.loc(iq["sp"]),
                "interpret_query must raise ParseError / ValidationError / FrontendError / QueryArgumentsError, found %s" % sorted(errs))
        rowok = False
        for n in walk(iq["body"]):
            if n.get("k") == "closure" and n["params"] and n["params"][0].get("k") == "ptuple":
                sub = n["params"][0]["sub"]
                if len(sub) == 2 and all(s.get("k") == "bind" for s in sub):
                    kb, vb = sub[0]["bid"], sub[1]["bid"]
                    sc = Scope(C, iq)
                    for t in walk(n["body"]):
                        if t.get("k") == "tuple" and len(t["elems"]) == 2:
                            a = {x["bid"] for x in walk(t["elems"][0]) if x.get("k") == "local"}
                            b_locals = [x for x in walk(t["elems"][1]) if x.get("k") == "local"]
                            b = set()
                            for x in b_locals:
                                b.add(x["bid"])
                                dd = sc.single_def(x["bid"])
                                if dd and dd[0] == "let" and dd[1] is not None:
                                    b |= {y["bid"] for y in walk(dd[1]) if y.get("k") == "local"}
                            if kb in a and vb not in a and vb in b and kb not in b:
                                has_conv = any(c.get("name") == "into_pyobject" for c in calls_in(t["elems"][1]))
                                rowok = has_conv
        R.check(rowok, "r4", "rows:entrywise", C.loc(iq["sp"]),
                "each row entry (k, v) must be returned as (k, into_pyobject(FieldValue::from(v))): key from the key, value from the value")

    # ---- r5 resolvers
    found = 0
    for f in C.fns:
        if f.get("impl_trait") != "trustfall_core::interpreter::Adapter" or f.get("name") not in RESOLVERS:
            continue
        if not (f.get("self_ty") or "").endswith("AdapterShim"):
            continue
        found += 1
        name = f["name"]
        sc = Scope(C, f)
        cm = [n for n in calls_in(f["body"]) if n.get("name") == "call_method"]
        if len(cm) != 1:
            R.fail("r5", "call:%s" % name, C.loc(f["sp"]), "expected exactly one Python method call in %s, found %d" % (name, len(cm)))
            continue
        n = cm[0]
        lits = []
        for a in n["args"][1:2]:
            for x in walk(a):
                if x.get("k") == "lit" and isinstance(x.get("v"), str):
                    lits.append(x["v"])
                elif x.get("k") == "path" and x.get("def") and C.fn(x["def"]) is not None:
                    # pyo3::intern!(py, "name") keeps the literal in a function-local static
                    lits += [y["v"] for y in walk(C.fn(x["def"])["body"]) if y.get("k") == "lit" and isinstance(y.get("v"), str)]
        R.check(lits == [name], "r5", "method-name:%s" % name, C.loc(n["sp"]),
                "AdapterShim::%s calls the Python method %s; it must call `%s`" % (name, lits, name))
        tup = strip(n["args"][2]) if len(n["args"]) > 2 else {}
        want = RESOLVERS[name]
        pnames = [p.get("name") for p in f["params"]]
        got = []
        for e in tup.get("elems", []) if tup.get("k") == "tuple" else []:
            i = root_param(sc, e)
            got.append(pnames[i] if i is not None and i < len(pnames) else None)
        R.check(got == want, "r5", "argument-order:%s" % name, C.loc(n["sp"]),
                "AdapterShim::%s passes %s to Python; the Python Adapter API takes %s in this order" % (name, got, want))
        if "parameters" in want:
            okpd = False
            for c in walk(f["body"]):
                if c.get("k") == "closure" and c["params"] and c["params"][0].get("k") == "ptuple" and len(c["params"][0]["sub"]) == 2:
                    kb, vb = [s.get("bid") for s in c["params"][0]["sub"]]
                    b = strip(c["body"])
                    if b.get("k") == "block" and "tail" in b and not b.get("stmts"):
                        b = strip(b["tail"])
                    if b.get("k") == "tuple" and len(b["elems"]) == 2:
                        a0 = {x["bid"] for x in walk(b["elems"][0]) if x.get("k") == "local"}
                        a1 = {x["bid"] for x in walk(b["elems"][1]) if x.get("k") == "local"}
                        if kb in a0 and vb not in a0 and vb in a1 and kb not in a1 and \
                                any(x.get("name") == "into_pyobject" for x in calls_in(b["elems"][1])):
                            okpd = True
            R.check(okpd, "r5", "parameters-entrywise:%s" % name, C.loc(f["sp"]),
                    "edge parameters must be sent to Python as {name: into_pyobject(value)} entry by entry")
        if "contexts" in want:
            # the mapping closure over the Python iterator: (opaque, value) -> (take_context(opaque), value[.into()])
            okmap = False
            for c in walk(f["body"]):
                if c.get("k") == "closure" and c["params"] and c["params"][0].get("k") == "ptuple" and len(c["params"][0]["sub"]) == 2:
                    ob, vb = [s.get("bid") for s in c["params"][0]["sub"]]
                    b = strip(c["body"])
                    tups = [t for t in walk(b) if t.get("k") == "tuple" and len(t["elems"]) == 2]
                    csc = sc
                    for t in tups:
                        def roots(e):
                            out = set()
                            for x in walk(e):
                                if x.get("k") == "local":
                                    out.add(x["bid"])
                                    dd = csc.single_def(x["bid"])
                                    if dd and dd[0] == "let" and dd[1] is not None:
                                        out |= {y["bid"] for y in walk(dd[1]) if y.get("k") == "local"}
                            return out
                        r0, r1 = roots(t["elems"][0]), roots(t["elems"][1])
                        tc = any((x.get("callee") or "").endswith("take_context") for x in calls_in(t["elems"][0])) or \
                            any((x.get("callee") or "").endswith("take_context") for e in [t["elems"][0]] for x0 in walk(e) if x0.get("k") == "local"
                                for dd in [csc.single_def(x0["bid"])] if dd and dd[1] is not None for x in calls_in(dd[1]))
                        if ob in r0 and vb not in r0 and vb in r1 and ob not in r1 and tc:
                            okmap = True
            R.check(okmap, "r5", "pairing:%s" % name, C.loc(f["sp"]),
                    "the result of %s must pair take_context(<tuple element 0>) with the value from the same tuple, in (context, value) order" % name)
    R.floor("r5", "AdapterShim resolver methods", found, 4)

    # ---- r5 iterators: element 1 -> value, element 0 -> context, Some((context, value))
    its = 0
    for f in C.fns:
        if f.get("impl_trait") != "core::iter::traits::iterator::Iterator" or f.get("name") != "next":
            continue
        st = f.get("self_ty") or ""
        if not st.startswith(SH + "PythonResolve"):
            continue
        its += 1
        sc = Scope(C, f)
        okit = False
        for t in walk(f["body"]):
            if t.get("k") == "ctor" and t.get("variant") == "Some" and t.get("args") and strip(t["args"][0]).get("k") == "tuple":
                el = strip(t["args"][0])["elems"]
                if len(el) != 2:
                    continue

                def idx_of(e):
                    e = strip(e)
                    src = e
                    if e.get("k") == "local":
                        dd = sc.single_def(e["bid"])
                        src = dd[1] if dd and dd[1] is not None else e
                    out = set()
                    for x in calls_in(src):
                        if x.get("name") == "get_borrowed_item" and x.get("args"):
                            out.add(strip(x["args"][0]).get("v"))
                    # one more level (e.g. neighbors built from neighbors_iterable)
                    for y in walk(src):
                        if y.get("k") == "local":
                            d2 = sc.single_def(y["bid"])
                            if d2 and d2[0] == "let" and d2[1] is not None:
                                for x in calls_in(d2[1]):
                                    if x.get("name") == "get_borrowed_item" and x.get("args"):
                                        out.add(strip(x["args"][0]).get("v"))
                                for z in walk(d2[1]):
                                    if z.get("k") == "local":
                                        d3 = sc.single_def(z["bid"])
                                        if d3 and d3[0] == "let" and d3[1] is not None:
                                            for x in calls_in(d3[1]):
                                                if x.get("name") == "get_borrowed_item" and x.get("args"):
                                                    out.add(strip(x["args"][0]).get("v"))
                    return out
                i0, i1 = idx_of(el[0]), idx_of(el[1])
                t0 = C.S(strip(el[0]).get("ty")) or ""
                if i0 == {0} and i1 == {1} and "Opaque" in t0:
                    okit = True
        R.check(okit, "r5", "tuple-elements:%s" % st.split("::")[-1], C.loc(f["sp"]),
                "%s::next must take the context from tuple element 0 and the value from element 1 and yield Some((context, value))" % st.split("::")[-1])
    R.floor("r5", "Python result iterators", its, 3)
