"""C03 — evaluation is lazy: starting vertices are pulled only on demand (RK4 phase/effect)."""
from tfv.tast import walk, walk_with_ctx, strip, ekey
from . import sites as S

EXPLANATION = ("Phase/effect analysis of the engine (interpreter::execution, interpreter::filtering). Construction phase = "
               "function bodies outside closures (what runs while interpret_ir builds the pipeline); lazy phase = closure "
               "bodies, hand-written Iterator::next impls and functions only called from them. r1: no construction-phase code "
               "consumes an iterator of contexts / context pairs / adapter vertices (anything but the lazy std adapters), "
               "so nothing is pulled before the first row is requested. r2: no closure captures, and no engine struct "
               "stores, an upstream context iterator, so lazy-phase consumers (fold materialisation, fold outputs) can only "
               "drain per-context data handed to them as parameters. r3: the hand-written expanders pull at most once from "
               "their inner iterator per `next`, never in a loop. r4: the starting-vertex iterator is wrapped in lazy "
               "adapters only.")
ASSUMPTIONS = ["std's iterator adapters (map, filter, filter_map, flat_map, take, chain, zip, inspect) are lazy",
               "the adapter itself does not read ahead (the property assumes this)"]

LAZY = {"map", "filter", "filter_map", "flat_map", "chain", "take", "zip", "inspect", "enumerate", "rev", "peekable",
        "into_iter", "by_ref", "cloned", "copied", "skip", "map_while", "take_while", "fuse", "flatten", "scan", "step_by"}
NONPULLING = {"size_hint"}      # inspects, never advances
ITER_TRAITS = ("core::iter::traits::iterator::Iterator", "core::iter::traits::collect::IntoIterator",
               "itertools::Itertools", "core::iter::traits::double_ended::DoubleEndedIterator")


def iter_method(n):
    if n.get("k") != "mcall":
        return False
    if n.get("trait") in ITER_TRAITS:
        return True
    # inherent methods of std adapter types (Peekable::peek, ...) and of boxed iterators
    c = n.get("callee") or ""
    return c.startswith("core::iter::adapters::") or c.startswith("itertools::")


def run(ctx, R):
    C = ctx.core
    R.rule("r1", "construction phase never consumes a context / vertex iterator")
    R.rule("r2", "no closure captures and no engine struct stores an upstream context iterator")
    R.rule("r3", "one pull per `next` in the hand-written expanders, not in a loop")
    R.rule("r4", "interpret_ir wraps resolve_starting_vertices(..) in lazy adapters only")
    fns = S.engine_fns(C)
    R.floor("r1", "engine functions", len(fns), 30)

    # functions only reachable from closures / next impls (lazy phase): callers all inside closures
    called_outside = set()
    called_inside = set()
    for f in fns:
        in_next = f.get("impl_trait") == "core::iter::traits::iterator::Iterator"
        for n, anc in walk_with_ctx(f["body"]):
            if n.get("k") in ("call", "mcall"):
                c = n.get("resolved") or n.get("callee") or ""
                if S.enclosing_closure(anc) is not None or in_next:
                    called_inside.add(c)
                else:
                    called_outside.add(c)
    changed = True
    lazy_fns = set()
    while changed:
        changed = False
        for f in fns:
            p = f["path"]
            if p in lazy_fns:
                continue
            if f.get("impl_trait") == "core::iter::traits::iterator::Iterator" or (p in called_inside and p not in called_outside):
                lazy_fns.add(p)
                changed = True
                # its callees count as called from inside
                for n in walk(f["body"]):
                    if n.get("k") in ("call", "mcall"):
                        called_inside.add(n.get("resolved") or n.get("callee") or "")
        # recompute called_outside ignoring lazy fns' bodies
        co = set()
        for f in fns:
            if f["path"] in lazy_fns:
                continue
            for n, anc in walk_with_ctx(f["body"]):
                if n.get("k") in ("call", "mcall") and S.enclosing_closure(anc) is None:
                    co.add(n.get("resolved") or n.get("callee") or "")
        if co != called_outside:
            called_outside = co
            changed = True
    R.units["lazy_phase_functions"] = sorted(p.split("::")[-1] for p in lazy_fns)

    # r1
    nsites = 0
    for f in fns:
        if f["path"] in lazy_fns:
            continue
        fname = f["path"].split("::")[-1]
        for n, anc in walk_with_ctx(f["body"]):
            if S.enclosing_closure(anc) is not None:
                continue
            recv_ty = None
            name = None
            if iter_method(n):
                recv_ty = C.S(n.get("recv_ty"))
                name = n.get("name")
            elif n.get("k") == "call" and n.get("trait") in ITER_TRAITS and n.get("args"):
                recv_ty = C.S(strip(n["args"][0]).get("ty")) or C.S(n["args"][0].get("ty"))
                name = n.get("name")
                if name == "into_iter":
                    # `for x in ctx_iterator` in construction code = eager drain
                    parent = anc[-1] if anc else {}
                    if not (parent.get("k") == "match" and parent.get("src") == "ForLoopDesugar"):
                        continue
                    name = "for-loop"
            if recv_ty is None or not S.is_ctx_iter_type(recv_ty):
                continue
            if name in NONPULLING:
                continue
            nsites += 1
            key = "%s/%s" % (fname, name)
            R.check(name in LAZY, "r1", key, C.loc(n["sp"]),
                    "%s calls `%s` on an iterator of contexts/vertices while the pipeline is being built: data is pulled "
                    "before the caller asks for a row (receiver type %s)" % (f["path"], name, recv_ty[:90]))
    R.floor("r1", "context-iterator method calls in construction code", nsites, 25)

    # r2
    ncap = 0
    for f in fns:
        for n in walk(f["body"]):
            if n.get("k") != "closure":
                continue
            for c in n["caps"]:
                ncap += 1
                ty = C.S(c["ty"]) or ""
                if S.is_ctx_iter_type(ty):
                    R.fail("r2", "%s/%s/%s" % (f["path"].split("::")[-1], n["def"].split("::")[-1], c["name"]), C.loc(n["sp"]),
                           "a closure in %s captures the context iterator `%s`; draining it from inside a closure pulls "
                           "upstream data that the requested row does not need" % (f["path"], c["name"]))
    R.ok("r2", "closure-captures", {"captures_inspected": ncap})
    for a in C.adts:
        if any(m in a["path"] for m in S.ENGINE_MODS) and "::tests::" not in a["path"]:
            for v in a["variants"]:
                for fl in v["fields"]:
                    bad = "DataContext<" in fl["ty"] and ("dyn core::iter::traits::iterator::Iterator" in fl["ty"]
                                                         or "alloc::vec::Vec<" in fl["ty"] or "VecDeque<" in fl["ty"])
                    R.check(not bad, "r2", "field/%s.%s" % (a["path"].split("::")[-1], fl["name"]), C.loc(a["sp"]),
                            "engine struct %s stores `%s: %s` — a buffer of / handle on upstream contexts (read-ahead)" % (a["path"], fl["name"], fl["ty"]))
    # lazy-phase consumers: enumerate, require the consumed iterator to be a parameter / local of the lazy function
    ncons = 0
    for f in fns:
        for n, anc in walk_with_ctx(f["body"]):
            inside = S.enclosing_closure(anc) is not None or f["path"] in lazy_fns
            if not inside:
                continue
            if iter_method(n) and n.get("name") not in LAZY and S.is_ctx_iter_type(C.S(n.get("recv_ty")) or ""):
                ncons += 1
                R.ok("r2", "consumer/%s/%s(%s)" % (f["path"].split("::")[-1], n.get("name"), ekey(n["recv"])[:40]),
                     {"at": C.loc(n["sp"])})
    R.floor("r2", "lazy-phase consumers (fold materialisation / expanders)", ncons, 5)

    # r3
    nx = [f for f in fns if f.get("impl_trait") == "core::iter::traits::iterator::Iterator" and f["name"] == "next"]
    R.floor("r3", "hand-written Iterator::next impls in the engine", len(nx), 2)
    for f in nx:
        pulls = []
        for n, anc in walk_with_ctx(f["body"]):
            if iter_method(n) and n.get("name") not in LAZY:
                in_loop = any(a.get("k") == "loop" for a in anc)
                pulls.append((n, in_loop))
        owner = (f.get("self_ty") or "").split("<")[0].split("::")[-1]
        R.check(len(pulls) == 1 and not pulls[0][1], "r3", "%s::next" % owner, C.loc(f["sp"]),
                "%s::next pulls %d time(s) from its inner iterator%s; one `next` may pull at most once (a read-ahead loop pulls "
                "data for rows that were not requested)" % (owner, len(pulls), " inside a loop" if any(p[1] for p in pulls) else ""))

    # r4
    f = C.fn("trustfall_core::interpreter::execution::interpret_ir")
    if f is None:
        R.fail("r4", "anchor", "-", "interpret_ir not found")
    else:
        found = False
        index = list(walk_with_ctx(f["body"]))

        def chain(n, anc, depth=0):
            """Follow the value of node n outwards: through lazy adapter calls, Box::new, `&`/`&mut`, and - when it is bound to a
            local by a plain `let` - through every use of that local. Returns the name of a consuming method, or None."""
            cur = n
            for p in reversed(anc):
                if p.get("k") == "mcall" and (strip(p.get("recv", {})) is cur or p.get("recv") is cur):
                    if p.get("name") in LAZY:
                        cur = p
                        continue
                    if p.get("name") in NONPULLING:
                        return None
                    return p.get("name")
                if p.get("k") == "call" and (p.get("callee") or "").endswith("Box::<T>::new"):
                    cur = p
                    continue
                if p.get("k") in ("ref", "paren", "cast", "block") and depth < 6:
                    cur = p
                    continue
                if p.get("k") == "let" and p.get("init") is cur and p.get("pat", {}).get("k") == "bind" and depth < 6:
                    bid = p["pat"].get("bid")
                    for m, manc in index:
                        if m.get("k") == "local" and m.get("bid") == bid:
                            w = chain(m, manc, depth + 1)
                            if w is not None:
                                return w
                    return None
                break
            return None
        for n, anc in index:
            if n.get("k") == "mcall" and n.get("name") == "resolve_starting_vertices" and n.get("trait") == S.ADAPTER:
                found = True
                why = chain(n, anc)
                R.check(why is None, "r4", "starting-vertices-wrapping", C.loc(n["sp"]),
                        "the starting-vertex iterator is consumed by `%s` in interpret_ir" % why)
        R.check(found, "r4", "anchor:call", C.loc(f["sp"]), "no resolve_starting_vertices call in interpret_ir")
