"""C13 — result rows carry exactly the declared outputs, typed as declared (narrow)."""
import itertools

from tfv import absint as A
from tfv import stdmodel as S
from tfv.tast import walk, walk_with_ctx, strip, ekey, calls_in
from tfv.prov import Scope
from . import tymodel as T

EXPLANATION = ("r1: complete table of the output-type wrapper (ir::indexed::get_output_type) by abstract evaluation over "
               "field types x optional/non-optional vertex x 0..2 enclosing folds with every optional flag combination, "
               "against the definition (nullable inside @optional; one list level per enclosing fold, outermost fold "
               "outermost, each list nullable exactly when that fold is inside @optional). r2: the set of optional "
               "vertices of a component (transitive closure over edges) by abstract evaluation over all optional-flag "
               "assignments of chain / branching components of three edges. r3: the per-fold optional flag is pushed "
               "before and popped after the recursive indexing call, and is `the fold's source vertex is optional`. "
               "r4: fold counts are declared Int! (then wrapped like any output at the fold's source vertex) and "
               "produced as Uint64 of the element count, null only when the fold does not exist. r5: the empty-fold "
               "default walker in the engine and the indexer read the same three output sources. r6: decision table of "
               "DataContext::ensure_suspended / ensure_unsuspended over every (active vertex?, suspension stack) shape: "
               "suspending is idempotent, un-suspending restores the last saved vertex, other fields untouched.")
ASSUMPTIONS = ["validity of adapter-supplied property values is the adapter's contract", "Type model as in C17"]

IDX = "trustfall_core::ir::indexed::"
IR = "trustfall_core::ir::"


def run(ctx, R):
    C = ctx.core
    R.rule("r1", "get_output_type table = definition")
    R.rule("r2", "optional vertices of a component = vertices behind an @optional edge, transitively")
    R.rule("r3", "fold optional flag: push / recursive call / pop pairing; flag = source vertex optional")
    R.rule("r4", "fold count: declared Int!, produced as Uint64(len), null only for a non-existent fold")
    R.rule("r5", "engine's empty-fold defaults and the indexer read the same output sources")
    intr = S.intrinsics()
    intr.update(T.intrinsics())

    # ---- r1
    f = C.fn(IDX + "get_output_type")
    if f is None:
        R.fail("r1", "anchor", "-", "get_output_type not found")
    else:
        types = T.all_types(bases=("Int",), max_depth=1)
        n = 0
        bad = None
        try:
            for t in types:
                for at_optional in (False, True):
                    for nf in (0, 1, 2):
                        for flags in itertools.product((False, True), repeat=nf):
                            opt = S.SetV([5] if at_optional else [])
                            ip = A.Interp(C, intrinsics=intr)
                            got = A.deref(ip.call_by_type(f, [("Vid", 5), ("types::base::Type", t), ("BTreeSet", opt), ("[bool]", A.VecV(list(flags)))]))
                            want = T.TypeV(t.base, t.nullable or at_optional, t.inner)
                            for fl in reversed(flags):
                                want = T.listof(want, fl)
                            n += 1
                            if (not isinstance(got, T.TypeV) or got.key() != want.key()) and bad is None:
                                bad = {"field_type": repr(t), "vertex_optional": at_optional, "fold_flags_outer_to_inner": flags,
                                       "got": repr(got), "want": repr(want)}
        except (A.Unsupported, A.PanicReached) as e:
            R.fail("r1", "unanalysable", C.loc(f["sp"]), "cannot evaluate get_output_type abstractly: %s (fail closed)" % getattr(e, "what", e))
            bad = "skip"
        if bad != "skip":
            R.extra["r1_cases"] = n
            R.check(bad is None, "r1", "table", C.loc(f["sp"]), "get_output_type is wrong for %s" % (bad,), {"cases": n})
            for cls in ("optional-vertex", "no-fold", "one-fold", "two-folds", "list-field"):
                R.ok("r1", "class/%s" % cls)

    # ---- r2
    g = C.fn(IDX + "get_optional_vertices_in_component")
    if g is None:
        R.fail("r2", "anchor", "-", "get_optional_vertices_in_component not found")
    else:
        shapes = {"chain": [(1, 2), (2, 3), (3, 4)], "star": [(1, 2), (1, 3), (1, 4)], "tree": [(1, 2), (2, 3), (1, 4)],
                  "late-branch": [(1, 2), (2, 3), (2, 4)]}
        n = 0
        bad = None
        try:
            for name, edges in shapes.items():
                for flags in itertools.product((False, True), repeat=3):
                    em = S.MapV([(i + 1, A.Struct(IR + "IREdge", {"from_vid": a, "to_vid": b, "optional": fl}))
                                 for i, ((a, b), fl) in enumerate(zip(edges, flags))])
                    comp = A.Struct(IR + "IRQueryComponent", {"edges": em})
                    ip = A.Interp(C, intrinsics=intr)
                    got = A.deref(ip.call_fn(g, [comp]))
                    gotset = set(A.deref(x) for x in got.items())
                    want = set()
                    changed = True
                    while changed:
                        changed = False
                        for (a, b), fl in zip(edges, flags):
                            if (fl or a in want) and b not in want:
                                want.add(b)
                                changed = True
                    n += 1
                    if gotset != want and bad is None:
                        bad = {"shape": name, "edges": edges, "optional": flags, "got": sorted(gotset), "want": sorted(want)}
        except (A.Unsupported, A.PanicReached) as e:
            R.fail("r2", "unanalysable", C.loc(g["sp"]), "cannot evaluate get_optional_vertices_in_component: %s" % getattr(e, "what", e))
            bad = "skip"
        if bad != "skip":
            R.check(bad is None, "r2", "table", C.loc(g["sp"]), "optional-vertex set is wrong for %s" % (bad,), {"cases": n})
            for s in shapes:
                R.ok("r2", "shape/%s" % s)

    # ---- r3
    h = C.fn(IDX + "add_data_from_component")
    if h is None:
        R.fail("r3", "anchor", "-", "add_data_from_component not found")
    else:
        sc = Scope(C, h)
        found = 0
        for n, anc in walk_with_ctx(h["body"]):
            if n.get("k") == "block":
                st = n.get("stmts", [])
                for i, s in enumerate(st):
                    if s.get("k") == "mcall" and s.get("name") == "push" and ekey(s["recv"]) == "are_folds_optional":
                        found += 1
                        arg = s["args"][0]
                        toks = sc.tokens(arg)
                        flag_ok = ("field:%sIRFold.from_vid" % IR) in toks and any(t.endswith("::contains") for t in toks if t.startswith("call:"))
                        rest = st[i + 1:]
                        rec = [j for j, x in enumerate(rest) if any(c.get("callee") == h["path"] for c in calls_in(x))]
                        pop = [j for j, x in enumerate(rest) if any(c.get("name") == "pop" and ekey(c["recv"]) == "are_folds_optional" for c in calls_in(x))]
                        between_push = [x for x in rest[:rec[0]] if list(calls_in(x))] if rec else ["?"]
                        R.check(bool(rec) and bool(pop) and rec[0] < pop[0] and not between_push and flag_ok, "r3", "push-call-pop",
                                C.loc(s["sp"]), "the fold-optional flag must be pushed (= source vertex optional), then the component "
                                "indexed recursively, then popped: flag_ok=%s recursive_call=%s pop=%s" % (flag_ok, rec, pop))
        R.floor("r3", "push sites of the fold-optional stack", found, 1)
        # the recursive call receives the same stack
        for c in calls_in(h["body"]):
            if c.get("callee") == h["path"]:
                R.check(ekey(c["args"][-1]) == "are_folds_optional", "r3", "recursive-call-passes-stack", C.loc(c["sp"]),
                        "the recursive indexing call must pass the fold-optional stack on")

    # ---- r4
    k = [x for x in C.fns if x["path"].startswith(IR + "FoldSpecificFieldKind::") and x["name"] == "field_type"]
    if not k:
        R.fail("r4", "anchor:field_type", "-", "FoldSpecificFieldKind::field_type not found")
    else:
        cs = [c.get("callee") or c.get("def") for c in calls_in(k[0]["body"])] + [n.get("def") for n in walk(k[0]["body"]) if n.get("k") == "path"]
        R.check(any("non_null_int_type" in (c or "").lower() or "NON_NULL_INT_TYPE" in (c or "") for c in cs), "r4", "declared-type",
                C.loc(k[0]["sp"]), "FoldSpecificFieldKind::Count must be declared as the non-null Int type (refs: %s)" % cs)
        init = [x for x in C.fns if "non_null_int_type" in x["path"].lower() or any((n.get("def") or "").endswith("NON_NULL_INT_TYPE") for n in walk(x["body"]))]
        lits = []
        for x in init:
            for c in calls_in(x["body"]):
                if c.get("name") == "new_named_type":
                    lits.append((strip(c["args"][0]).get("v"), strip(c["args"][1]).get("v")))
        R.check(("Int", False) in lits, "r4", "declared-type-is-Int!", "-", "the non-null Int type is built as %s, expected (\"Int\", false)" % lits)
    cf = C.fn("trustfall_core::interpreter::execution::compute_fold")
    if cf is None:
        R.fail("r4", "anchor:compute_fold", "-", "compute_fold not found")
    else:
        prod = []
        for n in walk(cf["body"]):
            if n.get("k") == "ctor" and n.get("variant") == "Uint64" and (n.get("adt") or "").endswith("FieldValue"):
                a = strip(n["args"][0])
                inner = strip(a["e"]) if a.get("k") == "cast" else a
                prod.append(inner.get("name") == "len")
        R.check(bool(prod) and all(prod), "r4", "count-produced-as-uint64-len", C.loc(cf["sp"]),
                "the fold count output must be FieldValue::Uint64(elements.len()) (found %s)" % prod)
        # value is `fold_elements.as_ref().map(..)`: null exactly when the fold does not exist
        maps = [n for n in walk(cf["body"]) if n.get("k") == "mcall" and n.get("name") == "map" and "Option" in (n.get("callee") or "")
                and "fold_elements" in ekey(n["recv"]) and any(x.get("variant") == "Uint64" for x in walk(n))]
        R.check(len(maps) == 1, "r4", "count-null-iff-fold-missing", C.loc(cf["sp"]),
                "the count output must be `fold_elements.map(|e| count)` so that it is null exactly for a non-existent fold")

    # ---- r5
    if cf is not None and h is not None:
        need = ["field:%sIRFold.fold_specific_outputs" % IR, "field:%sIRQueryComponent.outputs" % IR, "field:%sIRQueryComponent.folds" % IR]
        def foot(fn):
            return {"field:%s.%s" % (n.get("adt"), n["name"]) for n in walk(fn["body"]) if n.get("k") == "field"}
        fe, fi = foot(cf), foot(h)
        for t in need:
            R.check(t in fe and t in fi, "r5", "source/%s" % t.split(".")[-1], C.loc(cf["sp"]),
                    "output source %s is read by %s but not by %s: rows and declared outputs disagree for empty folds"
                    % (t, "the indexer" if t in fi else "the engine", "the engine" if t in fi else "the indexer"))
    suspension_table(ctx, R)
    missing_nested_value(ctx, R)
    empty_fold_defaults(ctx, R)


def empty_fold_defaults(ctx, R):
    """r8: when a @fold is empty (or does not exist) the engine does not run its component, so every output declared anywhere below
    it - in folds nested at any depth, whether or not the folds in between have outputs of their own - must be filled with the
    default. The worklist loop that does this (located as the block that seeds a queue from `.folds.values()` and pops it) is
    evaluated on a nest of folds F1{no outputs; F2{o2, count; F3{o3}}}, F4{o4}: the filled keys are exactly all declared outputs."""
    C = ctx.core
    R.rule("r8", "empty-fold defaults reach every output of every nested fold, through folds that have no outputs of their own (worklist evaluated)")
    EXEp = "trustfall_core::interpreter::execution::"
    found = None
    for f in C.fns:
        if not f["path"].startswith(EXEp) or "::tests" in f["path"]:
            continue
        for blk in walk(f["body"]):
            if blk.get("k") != "block":
                continue
            lets = [s for s in blk.get("stmts", []) if s.get("k") == "let" and s.get("pat", {}).get("k") == "bind" and "init" in s and
                    any(c.get("name") == "values" and ekey(c.get("recv", {})).endswith(".folds") for c in calls_in(s["init"]))]
            loops = [s for s in blk.get("stmts", []) + ([blk["tail"]] if "tail" in blk else []) if any(x.get("k") == "loop" for x in walk(s))]
            qbids = {s["pat"].get("bid") for s in lets}
            pops = [c for lp in loops for c in calls_in(lp) if c.get("k") == "mcall" and c.get("name") == "pop" and
                    strip(c.get("recv", {})).get("k") == "local" and strip(c["recv"]).get("bid") in qbids]
            if lets and pops:      # the queue seeded from `.folds.values()` is the one the loop pops
                found = (f, blk)
    if found is None:
        R.fail("r8", "anchor", "-", "the worklist that fills the outputs of nested folds of an empty fold was not found in interpreter::execution")
        return
    f, blk = found
    bound = set()
    for n in walk(blk):
        if n.get("k") in ("let", "letx") and "pat" in n:
            stack = [n["pat"]]
            while stack:
                q = stack.pop()
                if isinstance(q, dict):
                    if q.get("k") == "bind":
                        bound.add(q.get("bid"))
                    stack.extend(v for v in q.values() if isinstance(v, (dict, list)))
                elif isinstance(q, list):
                    stack.extend(q)
        if n.get("k") == "match":
            for a in n["arms"]:
                stack = [a["pat"]]
                while stack:
                    q = stack.pop()
                    if isinstance(q, dict):
                        if q.get("k") == "bind":
                            bound.add(q.get("bid"))
                        stack.extend(v for v in q.values() if isinstance(v, (dict, list)))
                    elif isinstance(q, list):
                        stack.extend(q)
        if n.get("k") == "closure":
            for p in n.get("params", []):
                stack = [p]
                while stack:
                    q = stack.pop()
                    if isinstance(q, dict):
                        if q.get("k") == "bind":
                            bound.add(q.get("bid"))
                        stack.extend(v for v in q.values() if isinstance(v, (dict, list)))
                    elif isinstance(q, list):
                        stack.extend(q)
    free = {}
    for n in walk(blk):
        if n.get("k") == "local" and n.get("bid") not in bound:
            free[n["bid"]] = C.S(n.get("ty")) or ""

    def fold(eid, outs, count, inner):
        comp = A.Struct(IR + "IRQueryComponent", {"outputs": S.MapV([(o, A.Sym("cf:" + o)) for o in outs]),
                                                 "folds": S.MapV([(x.fields["eid"], x) for x in inner])})
        return A.Struct(IR + "IRFold", {"eid": eid, "component": comp,
                                        "fold_specific_outputs": S.MapV([(c_, A.Sym("count")) for c_ in count])})
    f3 = fold(13, ["o3"], [], [])
    f2 = fold(12, ["o2"], ["c2"], [f3])
    f1 = fold(11, [], [], [f2])
    f4 = fold(14, ["o4"], [], [])
    top = A.Struct(IR + "IRQueryComponent", {"outputs": S.MapV([]), "folds": S.MapV([(11, f1), (14, f4)])})
    values = S.MapV([])
    env = {}
    for bid, ty in free.items():
        ty = ty.replace("&mut ", "").lstrip("&")       # the block may live in a helper that takes these by reference
        if "IRQueryComponent" in ty:
            env[bid] = A.Cell(top)
        elif "ir::IRFold" in ty:          # the (empty) fold itself: the worklist starts from its component's folds
            env[bid] = A.Cell(A.Struct(IR + "IRFold", {"eid": 10, "component": top, "fold_specific_outputs": S.MapV([])}))
        elif "BTreeMap<(" in ty and "ValueOrVec" in ty:
            env[bid] = A.Cell(values)
        elif ty.startswith("core::option::Option<") and "ValueOrVec" in ty:
            env[bid] = A.Cell(S.some(A.Sym("default")))
        else:
            R.fail("r8", "unanalysable/free", C.loc(blk["sp"]), "the worklist block reads a local of type %s that the model does not provide (fail closed)" % ty[:80])
            return
    try:
        A.Interp(C, S.intrinsics(), max_steps=100000).ev(blk, env)
    except A.Unsupported as e:
        R.fail("r8", "unanalysable", C.loc(blk["sp"]), "cannot evaluate the nested-fold default worklist: %s (fail closed)" % e)
        return
    except A.PanicReached as e:
        R.fail("r8", "panic", C.loc(blk["sp"]), "the nested-fold default worklist panics: %s" % e.what)
        return
    got = sorted((A.deref(A.deref(k).elems[0]), A.deref(A.deref(k).elems[1])) for k, _ in values.items())
    want = sorted([(12, "o2"), (12, "c2"), (13, "o3"), (14, "o4")])
    R.check(got == want, "r8", "defaults-reach-every-nested-output", C.loc(blk["sp"]),
            "for an empty fold with nested folds F1{no outputs; F2{o2, count c2; F3{o3}}} and F4{o4} the defaults are filled for %s, expected %s: "
            "rows of queries whose outer fold is empty lack declared outputs (or the engine indexes a missing key)" % (got, want))


def missing_nested_value(ctx, R):
    """r7: when an outer @fold gathers, per element, the value of a fold nested deeper (or of an output under an @optional inside
    it), an element for which that value does not exist (its @optional was not taken) contributes null - that is what makes the
    declared type `[T]` (nullable element) right. The expression compute_fold pushes for each element is evaluated with the
    element's value absent and present: absent -> ValueOrVec::Value(FieldValue::Null), present -> the value itself."""
    C = ctx.core
    R.rule("r7", "compute_fold: an element without a nested value contributes null, an element with one contributes it unchanged")
    f = C.fn("trustfall_core::interpreter::execution::compute_fold")
    if f is None:
        R.fail("r7", "anchor", "-", "compute_fold not found")
        return
    VOV = "trustfall_core::interpreter::ValueOrVec"
    FVp = "trustfall_core::ir::value::FieldValue"
    sites = []
    for n in walk(f["body"]):
        if n.get("k") == "mcall" and n.get("name") == "push" and n.get("args") and "folded_values" in ekey(n["recv"]):
            arg = n["args"][0]
            opt = [x for x in walk(arg) if x.get("k") == "local" and (C.S(x.get("ty")) or "").startswith("core::option::Option<" + VOV)]
            if opt:
                sites.append((n, arg, opt[0]))
    R.floor("r7", "sites gathering an optional nested value", len(sites), 1)
    I = S.intrinsics()
    I["const:" + FVp + "::NULL"] = lambda ip, n, a: A.Enum(FVp, "Null")
    for n, arg, loc in sites:
        try:
            absent = A.deref(A.Interp(C, I).ev(arg, {loc["bid"]: A.Cell(S.none())}))
            present = A.deref(A.Interp(C, I).ev(arg, {loc["bid"]: A.Cell(S.some(A.Sym("nested-value")))}))
        except A.Unsupported as e:
            R.fail("r7", "unanalysable", C.loc(n["sp"]), "cannot evaluate the gathered expression: %s (fail closed)" % e)
            continue
        except A.PanicReached as e:
            R.fail("r7", "panic", C.loc(n["sp"]), "gathering a missing nested value panics: %s" % e.what)
            continue
        is_null = isinstance(absent, A.Enum) and absent.variant == "Value" and absent.fields and \
            isinstance(A.deref(absent.fields[0]), A.Enum) and A.deref(absent.fields[0]).variant == "Null"
        same = isinstance(present, A.Sym) and present.name == "nested-value"
        R.check(is_null and same, "r7", "missing-nested-value-is-null", C.loc(n["sp"]),
                "compute_fold gathers %r for an element whose nested value does not exist (and %r for one that has it): the declared output "
                "type has a nullable element there (`[T]`), and an empty list instead of null also turns a declared `[Int]!` count list "
                "into a list of lists" % (absent, present))


def suspension_table(ctx, R):
    """r6: a context whose vertex cannot continue (failed implicit coercion in @recurse, missing @optional) is *suspended* and
    restored later; the vertex it is restored to is what its outputs are read from. ensure_suspended / ensure_unsuspended are
    abstractly evaluated on every (active vertex?, suspension stack) shape: suspending is idempotent (a second suspension of an
    already suspended context must not bury the saved vertex under a None), un-suspending restores exactly the last saved
    vertex, nothing else in the context changes - otherwise a non-optional output of a restored context is null."""
    C = ctx.core
    R.rule("r6", "context suspension: ensure_suspended idempotent, ensure_unsuspended restores the saved vertex, other fields untouched (table)")
    DCP = "trustfall_core::interpreter::DataContext"
    fs = {nm: [f for f in C.fns if f["name"] == nm and (f.get("self_ty") or "").split("<")[0] == DCP] for nm in ("ensure_suspended", "ensure_unsuspended")}
    if any(len(v) != 1 for v in fs.values()):
        R.fail("r6", "anchor", "-", "DataContext::ensure_suspended / ensure_unsuspended not found")
        return
    sus, unsus = fs["ensure_suspended"][0], fs["ensure_unsuspended"][0]
    adt = C.adt_by_path.get(DCP)
    other = [fl["name"] for fl in adt["variants"][0]["fields"] if fl["name"] not in ("active_vertex", "suspended_vertices")] if adt else []
    I = S.intrinsics()

    def mk(active, stack):
        d = {"active_vertex": S.some(A.Sym(active)) if active else S.none(),
             "suspended_vertices": A.VecV([S.some(A.Sym(x)) if x else S.none() for x in stack])}
        for o in other:
            d[o] = A.Sym("field:" + o)
        return A.Struct(DCP, d)

    def view(c):
        c = A.deref(c)
        av = A.deref(c.fields["active_vertex"])
        st = [A.deref(x) for x in A.deref(c.fields["suspended_vertices"]).items]
        name = lambda o: A.deref(o.fields[0]).name if o.variant == "Some" else None
        keep = all(isinstance(A.deref(c.fields[o]), A.Sym) and A.deref(c.fields[o]).name == "field:" + o for o in other)
        return (name(av), [name(x) for x in st], keep)

    def run_(f, c):
        return A.Interp(C, I).call_fn(f, [c])
    n = 0
    bad = None
    try:
        for active in ("v", None):
            for stack in ([], ["w"], [None], ["w", None]):
                c0 = (active, list(stack))
                s1 = view(run_(sus, mk(active, stack)))
                want1 = (None, stack + [active], True) if active else (None, list(stack), True)
                n += 1
                if s1 != want1 and bad is None:
                    bad = ("ensure_suspended", c0, s1, want1)
                s2 = view(run_(sus, run_(sus, mk(active, stack))))
                n += 1
                if s2 != want1 and bad is None:
                    bad = ("ensure_suspended twice (idempotence)", c0, s2, want1)
                if active or stack:
                    u = view(run_(unsus, mk(active, stack)))
                    wantu = (active, list(stack), True) if active else (stack[-1], stack[:-1], True)
                    n += 1
                    if u != wantu and bad is None:
                        bad = ("ensure_unsuspended", c0, u, wantu)
                if active:
                    r = view(run_(unsus, run_(sus, run_(sus, mk(active, stack)))))
                    n += 1
                    if r != (active, list(stack), True) and bad is None:
                        bad = ("suspend, suspend, unsuspend (a vertex that fails the implicit coercion at two recursion levels)", c0, r, (active, list(stack), True))
    except A.Unsupported as e:
        R.fail("r6", "unanalysable", C.loc(sus["sp"]), "cannot evaluate the suspension methods abstractly: %s (fail closed)" % e)
        return
    except A.PanicReached as e:
        R.fail("r6", "panic", C.loc(sus["sp"]), "a suspension method panics on a reachable context shape: %s" % e.what)
        return
    R.floor("r6", "suspension cases", n, 20)
    R.check(bad is None, "r6", "suspension-table", C.loc(sus["sp"]),
            "%s on a context (active vertex, suspension stack) = %s gives (active, stack, other fields kept) = %s, expected %s: the context is "
            "later restored to the wrong vertex (or to none), so outputs declared non-null come out null"
            % (bad or ("", "", "", "")), {"cases": n})
