"""C21 — adapters are called only with promised arguments (RK2 same-origin, abstract evaluation of edge parameters)."""
import itertools
import re

from tfv import absint as A
from tfv import stdmodel as S
from tfv.tast import walk, walk_with_ctx, strip, ekey, calls_in
from tfv.prov import Scope
from . import sites
from . import tymodel as T

EXPLANATION = ("For each of the engine's adapter call sites: r1 the vertex id used to look up the type name, the vertex id "
               "the contexts were activated on, and the vertex id handed to ResolveInfo / ResolveEdgeInfo have the same "
               "origin (canonical expressions after expanding local bindings); r2 the property name comes from the same IR "
               "field reference as that vertex id, and at every internal call all projections of an edge / fold passed "
               "together come from one edge / fold object, with its own endpoints in from,to order; r3 coercions are called "
               "with (coerced_from_type, type_name) of one vertex, in that order, and the recursive re-coercion with (edge "
               "endpoint type, Recursive::coerce_to); r4 make_edge_parameters is abstractly evaluated over every combination "
               "of declared parameter (nullable?, default?) x supplied (absent / valid / ill-typed) plus an undeclared "
               "argument: the result holds exactly the declared names with explicit, default or null values, otherwise "
               "the matching errors. r5: expand_recursive_edge is abstractly evaluated for depth 1..5 x implicit coercion "
               "present/absent x destination coercion present/absent, with the context iterator abstracted to the type of its "
               "active vertices (source type on entry; the edge's endpoint type after an expansion; coerce_to only after a "
               "resolve_coercion from the current type whose closure suspends the contexts that cannot be coerced): the type "
               "named in every resolve_neighbors and the source type of every resolve_coercion equal that typestate.")
ASSUMPTIONS = ["that active vertices are instances of the named type rests on C11 (well-formed IR) and on the adapter returning "
               "vertices of the declared edge type", "Type model / collection model as in C12"]

EXE = "trustfall_core::interpreter::execution::"
IR = "trustfall_core::ir::"
EDGE_FIELDS = {"eid", "edge_name", "parameters", "optional", "from_vid", "to_vid", "recursive"}


def info_ctor(C, f, arg):
    """The Resolve(Edge)Info::new(..) call a `&resolve_info` argument refers to."""
    sc = Scope(C, f)
    e = sc.expand(arg)
    if e.get("k") == "call" and (e.get("callee") or "").endswith(("ResolveInfo::new", "ResolveEdgeInfo::new")):
        return e
    return None


def activation_vid(sc, ctx_arg):
    """Vid the contexts were moved/activated to, if the iterator argument is built by a local map closure."""
    e = sc.expand(ctx_arg)
    seen = 0
    while e.get("k") in ("call", "mcall") and seen < 6:
        seen += 1
        if e.get("k") == "call" and (e.get("callee") or "").endswith("Box::<T>::new"):
            e = sc.expand(e["args"][0])
            continue
        if e.get("k") == "mcall" and e.get("name") == "map" and e["args"] and strip(e["args"][0]).get("k") == "closure":
            clo = strip(e["args"][0])
            for c in calls_in(clo["body"]):
                if c.get("name") == "activate_vertex":
                    return sc.canon(c["args"][0])
                if c.get("name") == "move_to_vertex":
                    for x in walk(clo["body"]):
                        if x.get("k") == "index" and ekey(x["base"]).endswith(".vertices"):
                            return sc.canon(x["idx"])
            return None
        break
    return None


class IterState:
    """Typestate of a context iterator inside expand_recursive_edge: what type its active (non-suspended) vertices have."""

    def __init__(self, kind, vtype, to=None, from_ok=True):
        self.kind, self.vtype, self.to, self.from_ok = kind, vtype, to, from_ok

    def __repr__(self):
        return "IterState(%s, active vertices: %s)" % (self.kind, self.vtype)


class CtxV:
    def __init__(self, active):
        self.active = active


def recursion_typestate(C, R, er):
    """r5: abstract evaluation of expand_recursive_edge over depth x coerce_to x coerced_from_type with the iterator abstracted to
    the type of its active vertices: every expansion names that type, every re-coercion starts from it."""
    R.rule("r5", "recursion typestate: at every depth the type named to resolve_neighbors / resolve_coercion is the type of the active vertices "
                 "(edge endpoint type after an expansion, coerce_to only after a suspending re-coercion)")
    where = C.loc(er["sp"])
    I = S.intrinsics()
    d = A.deref
    base_map = I["core::iter::traits::iterator::Iterator::map"]
    log = []

    def it_of(v, what):
        v = d(v)
        if not isinstance(v, IterState) or v.kind != "ctx":
            raise A.Unsupported("%s receives %r, not a context iterator" % (what, v))
        return v

    def imap(ip, n, a):
        v = d(a[0])
        if not isinstance(v, IterState):
            return base_map(ip, n, a)
        if v.kind == "ctx":
            return v                      # per-context bookkeeping closures: activation is r1's subject
        outs = {}
        for can in (True, False):
            r = d(S.call_f(ip, a[1], [A.Tuple([CtxV(True), can])]))
            if not isinstance(r, CtxV):
                raise A.Unsupported("coercion closure returns %r" % (r,))
            outs[can] = r.active
        if not outs[True]:
            raise A.Unsupported("coercion closure suspends the contexts that can be coerced")
        narrowed = not outs[False] and v.from_ok
        return IterState("ctx", v.to if narrowed else v.vtype)
    I["core::iter::traits::iterator::Iterator::map"] = imap
    I["ensure_suspended"] = lambda ip, n, a: CtxV(False)
    I["alloc::boxed::Box::<T>::new"] = lambda ip, n, a: a[0]

    def coercion(ip, n, a):
        it = it_of(a[1], "resolve_coercion")
        frm, to = d(a[2]), d(a[3])
        log.append(("coercion", frm, it.vtype))
        return IterState("pairs", it.vtype, to=to, from_ok=(frm == it.vtype))
    I["trustfall_core::interpreter::Adapter::resolve_coercion"] = coercion
    cfg = {}

    def expansion(ip, n, a):
        # arguments by type, not by position (the helper's parameter list may be reordered / trimmed): the context iterator is the
        # IterState value, the type name is the first `&Arc<str>` argument (the edge name follows it)
        its = [x for x in a if isinstance(d(x), IterState)]
        tys = [(C.S(strip(x).get("ty")) or "") for x in n["args"]]
        names = [a[i] for i, t in enumerate(tys) if "Arc<str>" in t and i < len(a)]
        if len(its) != 1 or not names:
            raise A.Unsupported("perform_one_recursive_edge_expansion is called with an unexpected argument list")
        it = it_of(its[0], "perform_one_recursive_edge_expansion")
        log.append(("neighbors", d(names[0]), it.vtype))
        return IterState("ctx", cfg["endpoint"])
    I[EXE + "perform_one_recursive_edge_expansion"] = expansion
    I[EXE + "post_process_recursive_expansion"] = lambda ip, n, a: a[0]
    I["trustfall_core::interpreter::hints::ResolveInfo::new"] = lambda ip, n, a: A.Struct("ResolveInfo", {"query": a[0]})
    I["trustfall_core::interpreter::hints::ResolveInfo::into_inner"] = lambda ip, n, a: d(a[0]).fields["query"]

    cases = 0
    bad = None
    names = [p.get("name") for p in er["params"]]
    try:
        for depth, co, cf in itertools.product(range(1, 6), (False, True), (False, True)):
            del log[:]
            cfg["endpoint"] = "ToBase" if cf else "ToT"
            vals = {
                "adapter": A.Sym("adapter"), "component": A.Sym("component"), "edge_id": A.Sym("eid"), "edge_name": "edge",
                "edge_parameters": A.Sym("params"),
                "carrier": A.Struct("QueryCarrier", {"query": S.some(A.Sym("query"))}),
                "expanding_from": A.Struct(IR + "IRVertex", {"vid": A.Sym("from_vid"), "type_name": "FromT", "coerced_from_type": S.none()}),
                "expanding_to": A.Struct(IR + "IRVertex", {"vid": A.Sym("to_vid"), "type_name": "ToT",
                                                           "coerced_from_type": S.some("ToBase") if cf else S.none()}),
                "recursive": A.Struct(IR + "Recursive", {"depth": depth, "coerce_to": S.some("CoT") if co else S.none()}),
                "iterator": IterState("ctx", "FromT"),
            }
            # arguments are matched to parameters by type (the two IRVertex parameters by the from / to in their names), so a
            # reordering or renaming of this private function's parameters is not an alarm
            A.Interp(C, I, max_steps=200000).call_by_type(er, [
                ("QueryCarrier", vals["carrier"], "optional"), ("IRQueryComponent", vals["component"], "optional"),
                ("name:_from", vals["expanding_from"]), ("name:_to", vals["expanding_to"]), ("Eid", vals["edge_id"], "optional"),
                ("Arc<str>", vals["edge_name"], "optional"), ("EdgeParameters", vals["edge_parameters"], "optional"),
                ("Recursive", vals["recursive"]), ("Iterator", vals["iterator"]), ("&", vals["adapter"], "optional")])
            cases += 1
            nb = [x for x in log if x[0] == "neighbors"]
            if not nb and bad is None:
                bad = (depth, co, cf, "no expansion is performed", "")
            for i, (what, named, have) in enumerate(log):
                if named != have and bad is None:
                    k = 1 + sum(1 for x in log[:i] if x[0] == "neighbors")
                    bad = (depth, co, cf, "the %s call of expansion #%d names type `%s`" % (
                        "resolve_neighbors" if what == "neighbors" else "resolve_coercion", k, named),
                        "but the active vertices at that point are only known to be `%s`" % have)
    except A.Unsupported as e:
        R.fail("r5", "unanalysable", where, "cannot evaluate expand_recursive_edge over the iterator typestate: %s (fail closed)" % e)
        return
    except A.PanicReached as e:
        R.fail("r5", "panic", where, "expand_recursive_edge panics in the typestate evaluation: %s" % e.what)
        return
    R.floor("r5", "depth x coerce_to x coerced_from_type cases", cases, 20)
    R.check(bad is None, "r5", "recursive/typestate", where,
            "@recurse(depth: %s) with implicit coercion %s and destination coercion %s: %s %s (FromT = source vertex type, ToT/ToBase = the "
            "edge's endpoint type, CoT = Recursive.coerce_to): the adapter is handed vertices that are not instances of the type it is told"
            % ((bad or [0])[0], "present" if bad and bad[1] else "absent", "present" if bad and bad[2] else "absent",
               bad and bad[3], bad and bad[4]), {"cases": cases})


def implicit_coercion_table(C, R):
    """r6: the frontend decides, per @recurse, whether one implicit coercion (to which type) makes every level of the recursion
    well-typed, or rejects the query. get_recurse_implicit_coercion is abstractly evaluated on one schema per documented case
    (1 unrelated types, 2 destination is a subtype, 3 same type, 4a destination has the edge to itself, 4b destination's edge
    leads to a wider type, 4c the edge's single origin leads to the destination / to a wider type, 4d ambiguous origin) and for
    recursion depths 1, 2, 3, 5: the decision is the documented one and does not depend on the depth. Accepting 4b / 4c-wider at
    any depth >= 2 makes the engine name a type (the coercion target) that vertices two hops away are not instances of."""
    R.rule("r6", "get_recurse_implicit_coercion decision table: one case per documented situation x recursion depth; decision independent of depth")
    f = C.fn("trustfall_core::frontend::get_recurse_implicit_coercion")
    if f is None:
        R.fail("r6", "anchor", "-", "get_recurse_implicit_coercion not found")
        return
    PT = "async_graphql_parser::types::"
    FO = "trustfall_core::schema::FieldOrigin"

    def pos(x):
        return A.Struct("async_graphql_parser::pos::Positioned", {"node": x})

    def fdef(edge, to):
        return A.Struct(PT + "service::FieldDefinition", {"name": pos(edge), "ty": pos(A.Struct(PT + "Type", {"_named": to}))})
    I = S.intrinsics()
    I.update(S.string_intrinsics())
    I["trustfall_core::frontend::util::get_underlying_named_type"] = lambda ip, n, a: A.deref(a[0]).fields["_named"]
    rel = {}
    I["trustfall_core::schema::Schema::is_named_type_subtype"] = lambda ip, n, a: \
        A.deref(a[1]) == A.deref(a[2]) or (A.deref(a[2]), A.deref(a[1])) in rel["sub"]

    def schema(sub, fields, origins):
        rel["sub"] = set(sub)                      # (subtype, supertype), strict
        return A.Struct("trustfall_core::schema::Schema", {
            "fields": S.MapV([(A.Tuple([t, e]), fdef(e, to)) for (t, e), to in fields.items()]),
            "field_origins": S.MapV([(A.Tuple([t, e]), o) for (t, e), o in origins.items()])})
    single = lambda x: A.Enum(FO, "SingleAncestor", [x])
    multi = lambda *xs: A.Enum(FO, "MultipleAncestors", [S.SetV(list(xs))])
    # name -> (subtype pairs, fields, origins, source type, S.e destination, expected)
    up = [("S", "X"), ("X", "D"), ("S", "D"), ("D", "E"), ("X", "E"), ("S", "E"), ("S", "Y"), ("Y", "D"), ("Y", "E")]
    cases = {
        "1 unrelated": ([], {("S", "e"): "B"}, {("S", "e"): single("S")}, "S", "B", "Err:RecursingNonRecursableEdge"),
        "2 destination is a subtype": ([("T", "S")], {("S", "e"): "T"}, {("S", "e"): single("S")}, "S", "T", "Err:RecursionToSubtype"),
        "3 same type": ([], {("S", "e"): "S"}, {("S", "e"): single("S")}, "S", "S", "Ok:None"),
        "4a destination has the edge, to itself": (up, {("S", "e"): "D", ("D", "e"): "D"}, {("S", "e"): single("D")}, "S", "D", "Ok:None"),
        "4b destination's edge leads to a wider type": (up, {("S", "e"): "D", ("D", "e"): "E"}, {("S", "e"): single("D")}, "S", "D",
                                                        "Err:EdgeRecursionNeedingMultipleCoercions"),
        "4c single origin, its edge leads to the destination": (up, {("S", "e"): "D", ("X", "e"): "D"}, {("S", "e"): single("X")}, "S", "D", "Ok:X"),
        "4c single origin, its edge leads to a wider type": (up, {("S", "e"): "D", ("X", "e"): "E"}, {("S", "e"): single("X")}, "S", "D",
                                                             "Err:EdgeRecursionNeedingMultipleCoercions"),
        "4d ambiguous origin": (up, {("S", "e"): "D", ("X", "e"): "D", ("Y", "e"): "D"}, {("S", "e"): multi("X", "Y")}, "S", "D",
                                "Err:AmbiguousOriginEdgeRecursion"),
    }
    n = 0
    bad = None
    try:
        for name, (sub, fields, origins, src, dst, want) in cases.items():
            for depth in (1, 2, 3, 5):
                sch = schema(sub, fields, origins)
                vertex = A.Struct(IR + "IRVertex", {"vid": 1, "type_name": src, "coerced_from_type": S.none()})
                rd = A.Struct("trustfall_core::graphql_query::directives::RecurseDirective", {"depth": depth})
                res = A.deref(A.Interp(C, I).call_by_type(f, [("Schema", sch), ("IRVertex", vertex), ("FieldDefinition", fdef("e", dst)),
                                                              ("RecurseDirective", rd)]))
                if res.variant == "Ok":
                    o = A.deref(res.fields[0])
                    got = "Ok:None" if o.variant == "None" else "Ok:%s" % A.deref(o.fields[0])
                else:
                    got = "Err:%s" % A.deref(res.fields[0]).variant
                n += 1
                allowed = {want}
                if depth == 1 and want == "Err:EdgeRecursionNeedingMultipleCoercions":
                    # a depth-1 recursion never expands from the destination type, so accepting it (with the first coercion) is
                    # harmless: only depth >= 2 must be rejected
                    allowed |= {"Ok:None"} if name.startswith("4b") else {"Ok:X"}
                if got not in allowed and bad is None:
                    bad = (name, depth, got, want)
    except A.Unsupported as e:
        R.fail("r6", "unanalysable", C.loc(f["sp"]), "cannot evaluate get_recurse_implicit_coercion abstractly: %s (fail closed)" % e)
        return
    except A.PanicReached as e:
        R.fail("r6", "panic", C.loc(f["sp"]), "get_recurse_implicit_coercion panics on a documented case: %s" % e.what)
        return
    R.floor("r6", "case x depth evaluations", n, 32)
    R.check(bad is None, "r6", "implicit-coercion-table", C.loc(f["sp"]),
            "case `%s` with @recurse(depth: %s): decided %s, documented %s - a recursion that needs a second, different coercion at a deeper "
            "level is accepted, and the engine then names the coercion target for vertices that are not instances of it"
            % (bad or ("", "", "", "")), {"cases": n})


def run(ctx, R):
    C = ctx.core
    implicit_coercion_table(C, R)
    # r7: "a value of the declared type" is decided by Type::is_valid_value (used by make_edge_parameters for explicit values and by
    # the schema for defaults): its decision table over every type x value class is C12 r2 / C17 r3, re-evaluated here as a guard
    R.rule("r7", "edge parameter values are of the declared type: Type::is_valid_value equals its definition (C12 r2 re-evaluated)")
    from tfv.core import Report
    from . import C12
    R12 = Report("C12", ctx.tier, 0)
    C12.run(ctx, R12)
    bad12 = [v for v in R12.violations if v["rule"] in ("r2", "engine")]
    R.check(not bad12, "r7", "value-of-declared-type", "-",
            "Type::is_valid_value admits a value that is not of the type (%s): an edge parameter declared with that type reaches the adapter "
            "holding such a value" % (bad12[0]["msg"][:200] if bad12 else ""), {"c12_instances": len(R12.instances)})
    R.rule("r1", "type-name vid = activation vid = ResolveInfo vid at every adapter call site")
    R.rule("r2", "property / edge arguments come from the same IR node as the vid; internal calls pass projections of one edge/fold")
    R.rule("r3", "coercion arguments: (coerced_from_type, type_name) of one vertex, in order; re-coercion (endpoint type, coerce_to)")
    R.rule("r4", "make_edge_parameters: exactly the declared parameters, explicit / default / null, or the matching error")
    fns = sites.engine_fns(C)
    calls = sites.adapter_calls(C, fns)
    R.floor("r1", "adapter call sites", len(calls), 11)
    for f, n, anc in calls:
        fname = f["path"].split("::")[-1]
        sc = Scope(C, f)
        key = "%s/%s" % (fname, n["name"])
        where = C.loc(n["sp"])
        ic = info_ctor(C, f, n["args"][-1])
        if ic is None:
            R.fail("r1", key + "/info", where, "the last argument of %s is not a ResolveInfo/ResolveEdgeInfo built in this function" % n["name"])
            continue
        v_info = sc.canon(ic["args"][1])
        if n["name"] == "resolve_starting_vertices":
            toks = sc.tokens(ic["args"][1]) | sc.tokens(n["args"][0]) | sc.tokens(n["args"][1])
            ok = ("field:%sIRQueryComponent.root" % IR) in toks and ("field:%sIRQuery.root_name" % IR) in toks and \
                 ("field:%sIRQuery.root_parameters" % IR) in toks and ("field:%sIRQuery.root_component" % IR) in toks
            R.check(ok, "r1", key, where, "starting vertices must be resolved with the query's root_name / root_parameters and the "
                    "root component's root vid (provenance %s)" % sorted(t for t in toks if t.startswith("field:"))[:8])
            continue
        t_arg = sc.canon(n["args"][1])
        v_act = activation_vid(sc, n["args"][0])
        m = re.match(r"^(.*)\.vertices\[(.*)\]\.type_name$", t_arg) or re.match(r"^(.*)\.vertices\.get\((.*)\)~Some\.0\.type_name$", t_arg)
        v_type = None
        how = None
        if m:
            v_type, how = m.group(2), "indexed"
        else:
            m2 = re.match(r"^(\w+)\.type_name$", t_arg)
            if m2:
                v_type, how = m2.group(1) + ".vid", "vertex-param"
        detail = {"type_name": t_arg, "info_vid": v_info, "activation_vid": v_act}
        if n["name"] in ("resolve_coercion",) or (v_type is None):
            # recursion / coercion sites: handled by r3 and the caller rule below; still require info vid = activation vid when both known
            if v_act is not None:
                R.check(v_act == v_info, "r1", key, where, "contexts are activated on `%s` but ResolveInfo names `%s`" % (v_act, v_info), detail)
            else:
                R.ok("r1", key + "/deferred-to-callers", detail)
        else:
            ok = v_type == v_info and (v_act is None or v_act == v_info)
            R.check(ok, "r1", key, where,
                    "%s in %s: type name is taken from vertex `%s`, the ResolveInfo names `%s`, contexts are activated on `%s` — the adapter "
                    "would be told a type / vertex the active vertices do not belong to" % (n["name"], f["path"], v_type, v_info, v_act), detail)
        # r2: property name from the same field reference as the vid
        if n["name"] == "resolve_property":
            p = sc.canon(n["args"][2])
            mm = re.match(r"^(.*)\.field_name$", p)
            if mm and ("%s.vertex_id" % mm.group(1)) == v_info:
                R.ok("r2", key + "/name-vid-same-field", {"name": p, "vid": v_info})
            elif mm and mm.group(1) in [q.get("name") for q in f["params"]] and "LocalField" in (C.S(strip(n["args"][2]).get("ty")) or "") + p or \
                    any("LocalField" in (C.S(q.get("ty")) or "") and q.get("name") == (mm.group(1) if mm else None) for q in f["params"]):
                R.ok("r2", key + "/local-field", {"name": p})
            else:
                R.fail("r2", key + "/name-vid-same-field", where,
                       "the property name `%s` and the vertex id `%s` do not come from the same field reference" % (p, v_info))
        if n["name"] == "resolve_neighbors":
            e_args = [sc.canon(a) for a in n["args"][2:4]]
            info_args = [sc.canon(a) for a in ic["args"][1:]]
            bases = set()
            for s in e_args + info_args:
                mm = re.match(r"^(.*)\.(%s)$" % "|".join(EDGE_FIELDS), s)
                if mm:
                    bases.add(mm.group(1))
            R.check(len(bases) <= 1, "r2", key + "/edge-projections", where,
                    "edge name / parameters / ids passed to resolve_neighbors come from different objects: %s" % sorted(bases), {"args": e_args + info_args})

    # r2b: internal call sites pass projections of ONE edge / fold, endpoints in (from, to) order
    n2 = 0
    for f in fns:
        sc = Scope(C, f)
        for c in calls_in(f["body"]):
            callee = c.get("callee") or ""
            if not callee.startswith(EXE) or c.get("k") != "call":
                continue
            args = [sc.canon(a) for a in c["args"]]
            bases = {}
            for s in args:
                mm = re.match(r"^(.*?)(\.clone\(\))?\.(eid|edge_name|parameters|optional|from_vid|to_vid)$", s)
                if mm:
                    bases.setdefault(mm.group(1), []).append(mm.group(3))
                mv = re.match(r"^.*\.vertices\[(.*)\.(from_vid|to_vid)\]$", s)
                if mv:
                    bases.setdefault(mv.group(1), []).append("vertex:" + mv.group(2))
            if not bases:
                continue
            n2 += 1
            order = [x for s in args for x in re.findall(r"vertices\[[^\]]*\.(from_vid|to_vid)\]$", s)] or \
                    [x for s in args for x in re.findall(r"\.(from_vid|to_vid)$", s)]
            key = "%s->%s" % (f["path"].split("::")[-1], callee.split("::")[-1])
            # endpoints are passed in (source, destination) order: the first vertex / vid argument is the edge's from_vid
            ok_order = order in ([], ["from_vid"], ["from_vid", "to_vid"])
            R.check(len(bases) == 1 and ok_order, "r2", "call/" + key, C.loc(c["sp"]),
                    "%s passes projections of different edges/folds (%s) or endpoints in the wrong order (%s) to %s"
                    % (f["path"], sorted(bases), order, callee), {"args": args})
    R.floor("r2", "internal calls passing edge/fold projections", n2, 2)

    # r3: coercions
    pc = C.fn(EXE + "perform_coercion")
    ci = C.fn(EXE + "coerce_if_needed")
    if pc is None or ci is None:
        R.fail("r3", "anchor", "-", "perform_coercion / coerce_if_needed not found")
    else:
        site = [c for c in calls_in(pc["body"]) if c.get("name") == "resolve_coercion"]
        pn = [p.get("name") for p in pc["params"]]
        ok = len(site) == 1 and [ekey(a) for a in site[0]["args"][1:3]] == ["coerced_from", "coerce_to"] and pn.index("coerced_from") < pn.index("coerce_to")
        R.check(ok, "r3", "perform_coercion/argument-order", C.loc(pc["sp"]), "resolve_coercion must receive (coerced_from, coerce_to) in this order")
        sc = Scope(C, ci)
        call = [c for c in calls_in(ci["body"]) if c.get("callee") == pc["path"]]
        if len(call) != 1:
            R.fail("r3", "anchor:call", C.loc(ci["sp"]), "coerce_if_needed must call perform_coercion once")
        else:
            a = [sc.canon(x) for x in call[0]["args"]]
            vertex_arg, frm, to = a[2], a[3], a[4]
            R.check(frm.startswith(vertex_arg + ".coerced_from_type") and to == vertex_arg + ".type_name", "r3", "coerce_if_needed/same-vertex",
                    C.loc(call[0]["sp"]), "coercion must go from `%s.coerced_from_type` to `%s.type_name`; got from=%s to=%s" % (vertex_arg, vertex_arg, frm, to))
    er = C.fn(EXE + "expand_recursive_edge")
    if er is None:
        R.fail("r3", "anchor:recursive", "-", "expand_recursive_edge not found")
    else:
        sc = Scope(C, er)
        site = [c for c in calls_in(er["body"]) if c.get("name") == "resolve_coercion"]
        if len(site) != 1:
            R.fail("r3", "recursive/site", C.loc(er["sp"]), "expected one re-coercion site")
        else:
            frm, to = sc.tokens(site[0]["args"][1]), sc.tokens(site[0]["args"][2])
            ok = ("field:%sIRVertex.coerced_from_type" % IR) in frm and ("field:%sIRVertex.type_name" % IR) in frm and \
                 ("field:%sRecursive.coerce_to" % IR) in to and ("field:%sRecursive.coerce_to" % IR) not in frm
            R.check(ok, "r3", "recursive/endpoint-to-coerce_to", C.loc(site[0]["sp"]),
                    "the recursive re-coercion must go from the edge endpoint type (coerced_from_type or type_name of the destination) to Recursive::coerce_to")
            # the endpoint type is the destination vertex's
            e = sc.canon(site[0]["args"][1])
            dst = [p.get("name") for p in er["params"] if "IRVertex" in (C.S(p.get("ty")) or "")]
            R.check(len(dst) == 2 and dst[1] in e and dst[0] not in e.replace(dst[1], ""), "r3", "recursive/endpoint-is-destination", C.loc(site[0]["sp"]),
                    "the endpoint type must be read from the destination vertex `%s` (got %s)" % (dst[1:] and dst[1], e))

    if er is not None:
        recursion_typestate(C, R, er)

    # r4: make_edge_parameters
    mk = C.fn("trustfall_core::frontend::make_edge_parameters")
    if mk is None:
        R.fail("r4", "anchor", "-", "make_edge_parameters not found")
        return
    intr = S.intrinsics()
    intr.update(T.intrinsics())
    intr[T.TY + "::from_type"] = lambda ip, n, a: A.deref(a[0]).fields["_type"]
    intr["core::convert::TryFrom::try_from"] = lambda ip, n, a: S.ok(A.deref(a[0]))

    def pos(x):
        return A.Struct("async_graphql_parser::pos::Positioned", {"node": x})

    def decl(name, nullable, default):
        ty = A.Struct("async_graphql_parser::types::Type", {"nullable": nullable, "_type": T.named("Int", nullable)})
        dv = S.some(pos(T.mk_value(default))) if default is not None else S.none()
        return pos(A.Struct("async_graphql_parser::types::service::InputValueDefinition",
                            {"name": pos("p_" + name), "ty": pos(ty), "default_value": dv}))
    n = 0
    bad = None
    try:
        for nullable, has_default, supplied, extra in itertools.product((False, True), (False, True), ("absent", "valid", "invalid", "null"), (False, True)):
            d1 = decl("a", nullable, ("Int64",) if has_default else None)
            edge_def = A.Struct("async_graphql_parser::types::service::FieldDefinition", {"name": pos("edge"), "arguments": A.VecV([d1])})
            sup = S.MapV()
            if supplied == "valid":
                sup.insert("p_a", T.mk_value(("Int64",)))
            elif supplied == "invalid":
                sup.insert("p_a", T.mk_value(("String",)))
            elif supplied == "null":
                sup.insert("p_a", T.mk_value(("Null",)))
            if extra:
                sup.insert("zz", T.mk_value(("Int64",)))
            ip = A.Interp(C, intrinsics=intr)
            res = A.deref(ip.call_by_type(mk, [("FieldDefinition", edge_def), ("BTreeMap", sup)]))
            n += 1
            want_err = set()
            want_val = None
            if supplied == "absent":
                if has_default:
                    want_val = "Int64"
                elif nullable:
                    want_val = "Null"
                else:
                    want_err.add("MissingRequiredEdgeParameter")
            elif supplied == "valid":
                want_val = "Int64"
            elif supplied == "invalid":
                want_err.add("InvalidEdgeParameterType")
            elif supplied == "null":
                if nullable:
                    want_val = "Null"
                else:
                    want_err.add("InvalidEdgeParameterType")
            if extra:
                want_err.add("UnexpectedEdgeParameter")
            if res.variant == "Ok":
                ep = A.deref(res.fields[0])
                contents = A.deref(ep.fields["contents"]) if isinstance(ep, A.Struct) else A.deref(ep)
                got = {str(A.deref(k)): A.deref(v).variant for k, v in contents.items()}
                ok = not want_err and got == {"p_a": want_val}
            else:
                kinds = {A.deref(x).variant for x in A.deref(res.fields[0]).items}
                got = sorted(kinds)
                ok = bool(want_err) and kinds == want_err
            if not ok and bad is None:
                bad = {"declared": {"nullable": nullable, "default": has_default}, "supplied": supplied, "undeclared_extra": extra,
                       "got": got, "want": sorted(want_err) or {"p_a": want_val}}
    except A.Unsupported as e:
        R.fail("r4", "unanalysable", C.loc(mk["sp"]), "cannot evaluate make_edge_parameters abstractly: %s (fail closed)" % e)
        return
    except A.PanicReached as e:
        R.fail("r4", "panic", C.loc(mk["sp"]), "make_edge_parameters panics: %s" % e.what)
        return
    R.extra["r4_cases"] = n
    R.check(bad is None, "r4", "decision-table", C.loc(mk["sp"]), "make_edge_parameters decides wrongly for %s" % (bad,), {"cases": n})
    for cls in ("explicit", "default", "implicit-null", "missing-required", "ill-typed", "undeclared"):
        R.ok("r4", "class/%s" % cls)
