"""C20 — schema introspection is exact (narrow: RK1 resolver arms <-> introspection schema file)."""
import os
import re

from tfv import facts
from tfv.tast import walk, walk_with_ctx, strip, ekey, calls_in, comparison
from tfv.tables import str_matches, arms_flat, arm_value, is_panic_arm

EXPLANATION = ("r1: the (type, property), (type, edge) and entry-point names declared in schema/adapter/schema.graphql are exactly "
               "the string-dispatch arms of the introspection adapter's resolve_property / resolve_neighbors / "
               "resolve_starting_vertices (both directions). r2: every property arm converts the vertex with the accessor of "
               "its own type and reads the accessor / field of the same name. r3: every arm's result is built by "
               "resolve_property_with / resolve_neighbors_with (which implement the no-active-vertex and ordering clauses of "
               "the adapter contract), and the introspection schema declares no `implements`, so resolve_coercion is never "
               "called. r4: the semantic accessors read what they name (to_many = list type, at_least_one = non-null, "
               "is_interface = interface kind), properties and edges of a type partition its fields by `is the base type a "
               "vertex type`, entry points are the root query type's fields, and the root query type is not listed as a vertex type.")
ASSUMPTIONS = ["the meaning of async-graphql-parser's TypeDefinition / FieldDefinition fields", "exactness of reported values for a "
               "concrete schema is not decided beyond these structural clauses"]

AD = "trustfall_core::schema::adapter::"
SCALARS = {"String", "Boolean", "Int", "Float", "ID"}
CONV = {"VertexType": "as_vertex_type", "Property": "as_property", "Edge": "as_edge", "EdgeParameter": "as_edge_parameter"}


def parse_schema_file(path):
    text = open(path).read()
    text = re.sub(r'"""[\s\S]*?"""', "", text)
    types = {}
    implements = []
    root = None
    for m in re.finditer(r"\b(type|interface)\s+(\w+)([^{]*)\{([^}]*)\}", text):
        name, head, body = m.group(2), m.group(3), m.group(4)
        if "implements" in head:
            implements.append(name)
        fields = {}
        for fm in re.finditer(r"(\w+)\s*(\([^)]*\))?\s*:\s*([\[\]!\w]+)", body):
            fields[fm.group(1)] = re.sub(r"[\[\]!]", "", fm.group(3))
        types[name] = fields
    sm = re.search(r"schema\s*\{\s*query\s*:\s*(\w+)", text)
    if sm:
        root = sm.group(1)
    return types, root, implements


def nested_tables(C, f):
    """{outer literal: {inner literal: arm}} for `match type_name { "T" => match name { "x" => .. } }`"""
    out = {}
    for m in str_matches(f["body"], 2):
        for key, arm, p in arms_flat(m):
            if not (isinstance(key, tuple) and key[0] == "lit"):
                continue
            inner = str_matches(arm["body"], 1)
            if inner:
                t = {}
                for k2, a2, p2 in arms_flat(inner[0]):
                    if isinstance(k2, tuple) and k2[0] == "lit":
                        t[k2[1]] = a2
                if t and key[1] not in out:
                    out[key[1]] = t
    return out


def default_value_table(C, R, tp, mp):
    """r5: EdgeParameter.default is computed (not a plain accessor): decision table over (declared default?, nullable?)."""
    from tfv import absint as A
    from tfv import stdmodel as M
    R.rule("r5", "EdgeParameter.default: the declared default (as JSON) if there is one, else JSON null for a nullable parameter, else no value")
    arm = tp.get("EdgeParameter", {}).get("default")
    if arm is None:
        R.fail("r5", "anchor", C.loc(mp["sp"]), "no arm for EdgeParameter.default")
        return
    clo = None
    for c in calls_in(arm["body"]):
        if (c.get("callee") or "").endswith("resolve_property_with") and len(c.get("args", [])) == 2 and strip(c["args"][1]).get("k") == "closure":
            clo = strip(c["args"][1])
    if clo is None:
        R.fail("r5", "anchor:closure", C.loc(arm["sp"]), "EdgeParameter.default is not computed by a closure given to resolve_property_with")
        return
    FVp = "trustfall_core::ir::value::FieldValue"
    I = M.intrinsics()
    I["core::convert::TryInto::try_into"] = lambda ip, n, a: M.ok(A.Enum(FVp, "String", [A.Sym("converted(%s)" % A.deref(a[0]).name)]))
    I["core::convert::TryFrom::try_from"] = I["core::convert::TryInto::try_into"]
    I["core::convert::From::from"] = lambda ip, n, a: A.deref(a[0])
    I["core::convert::Into::into"] = lambda ip, n, a: A.deref(a[0])
    I["serde_json::to_string"] = lambda ip, n, a: M.ok("json(%r)" % (A.deref(a[0]),))
    I["serde_json::ser::to_string"] = I["serde_json::to_string"]
    I["const:" + FVp + "::NULL"] = lambda ip, n, a: A.Enum(FVp, "Null")
    want = {(True, True): "declared", (True, False): "declared", (False, True): "null", (False, False): "none"}
    for (has_default, nullable), w in sorted(want.items()):
        dv = M.some(A.Struct("Positioned", {"node": A.Sym("declared-default"), "pos": A.Sym("pos")})) if has_default else M.none()
        defn = A.Struct("InputValueDefinition", {
            "default_value": dv,
            "ty": A.Struct("Positioned", {"node": A.Struct("Type", {"nullable": nullable, "base": A.Sym("base")}), "pos": A.Sym("pos")}),
            "name": A.Struct("Positioned", {"node": "p", "pos": A.Sym("pos")})})
        vertex = A.Enum(AD + "SchemaVertex", "EdgeParameter", [A.Struct(AD + "EdgeParameter", {"defn": defn})])
        try:
            ip = A.Interp(C, I)
            res = A.deref(ip.call_closure(("closure", clo, {}), [vertex]))
        except A.Unsupported as e:
            R.fail("r5", "unanalysable/default=%s,nullable=%s" % (has_default, nullable), C.loc(clo["sp"]), "abstract evaluation failed: %s (fail closed)" % e)
            continue
        except A.PanicReached as e:
            R.fail("r5", "panic/default=%s,nullable=%s" % (has_default, nullable), C.loc(clo["sp"]), "the resolver panics: %s" % e.what)
            continue
        # the closure ends in `.into()` on an Option<String>: FieldValue::String(json) or FieldValue::Null
        txt = repr(res)
        if isinstance(res, A.Enum) and res.adt == M.OPTION:
            got = "none" if res.variant == "None" else ("declared" if "declared-default" in txt else "null" if "Null" in txt else "?")
        elif isinstance(res, A.Enum) and res.variant == "Null":
            got = "none"
        else:
            got = "declared" if "declared-default" in txt else "null" if "Null" in txt else "?"
        R.check(got == w, "r5", "default/declared=%s,nullable=%s" % (has_default, nullable), C.loc(clo["sp"]),
                "for a %s edge parameter %s a declared default value, introspection reports %s (expected %s)"
                % ("nullable" if nullable else "non-nullable", "with" if has_default else "without",
                   {"declared": "the declared default", "null": "JSON null", "none": "no default", "?": "something else: " + txt[:80]}[got],
                   {"declared": "the declared default", "null": "JSON null", "none": "no default"}[w]), {"result": txt[:120]})


def run(ctx, R):
    C = ctx.core
    R.rule("r1", "declared names = resolver arms (properties, edges, entry points), both directions")
    R.rule("r2", "property arms use the accessor of their own type and name")
    R.rule("r3", "arms are built with resolve_*_with; no `implements` in the introspection schema, so no coercion")
    R.rule("r4", "semantic accessors; property/edge partition; entry points; root query type not a vertex type")
    path = os.path.join(facts.REPO, "trustfall_core/src/schema/adapter/schema.graphql")
    if not os.path.exists(path):
        R.fail("r1", "anchor:schema-file", "-", "introspection schema file not found")
        return
    types, root, implements = parse_schema_file(path)
    R.floor("r1", "types declared in the introspection schema", len(types), 6)
    decl_props, decl_edges = {}, {}
    for t, fields in types.items():
        if t == root:
            continue
        for fn, base in fields.items():
            (decl_props if base in SCALARS else decl_edges).setdefault(t, set()).add(fn)
    entry = set(types.get(root, {}))

    def method(name):
        fs = [f for f in C.fns if f.get("impl_trait") == "trustfall_core::interpreter::Adapter" and f["name"] == name
              and (f.get("self_ty") or "").startswith(AD + "SchemaAdapter")]
        return fs[0] if fs else None
    mp, mn, ms, mc = method("resolve_property"), method("resolve_neighbors"), method("resolve_starting_vertices"), method("resolve_coercion")
    if None in (mp, mn, ms, mc):
        R.fail("r1", "anchor:adapter", "-", "SchemaAdapter's Adapter impl not found")
        return
    tp, tn = nested_tables(C, mp), nested_tables(C, mn)
    default_value_table(C, R, tp, mp)
    for what, decl, table, f in (("property", decl_props, tp, mp), ("edge", decl_edges, tn, mn)):
        for t in sorted(set(decl) | set(table)):
            d, a = decl.get(t, set()), set(table.get(t, {}))
            for x in sorted(d - a):
                R.fail("r1", "%s/%s.%s/missing-arm" % (what, t, x), C.loc(f["sp"]),
                       "the introspection schema declares %s %s.%s but the adapter has no arm for it (a query using it hits unreachable!())" % (what, t, x))
            for x in sorted(a - d):
                R.fail("r1", "%s/%s.%s/undeclared" % (what, t, x), C.loc(f["sp"]), "the adapter resolves %s %s.%s which the introspection schema does not declare" % (what, t, x))
            for x in sorted(d & a):
                R.ok("r1", "%s/%s.%s" % (what, t, x))
    starts = set()
    for m in str_matches(ms["body"], 2):
        for key, arm, p in arms_flat(m):
            if isinstance(key, tuple) and key[0] == "lit":
                starts.add(key[1])
    R.check(starts == entry, "r1", "entry-points", C.loc(ms["sp"]), "entry points declared %s, resolved %s" % (sorted(entry), sorted(starts)))

    # r2 / r3
    for t, arms in sorted(tp.items()):
        for name, arm in sorted(arms.items()):
            body = arm["body"]
            cs = list(calls_in(body))
            with_ = any((c.get("callee") or "").endswith("helpers::resolve_property_with") for c in cs)
            R.check(with_, "r3", "property/%s.%s/built-with-helper" % (t, name), C.loc(arm["sp"]),
                    "%s.%s is not resolved through resolve_property_with (which yields null for contexts without an active vertex)" % (t, name))
            conv = {c.get("name") for c in cs if (c.get("name") or "").startswith("as_") and AD in (c.get("callee") or "")}
            reads = {c.get("name") for c in cs} | {x["name"] for x in walk(body) if x.get("k") == "field"}
            ok_conv = conv == {CONV.get(t)}
            ok_name = name in reads or (name + "_") in reads or name == "default"
            R.check(ok_conv and ok_name, "r2", "property/%s.%s" % (t, name), C.loc(arm["sp"]),
                    "%s.%s converts with %s (expected %s) and reads %s" % (t, name, sorted(conv), CONV.get(t), sorted(x for x in reads if x and not x.startswith("resolve"))[:6]))
    for t, arms in sorted(tn.items()):
        for name, arm in sorted(arms.items()):
            cs = list(calls_in(arm["body"]))
            R.check(any((c.get("callee") or "").endswith("helpers::resolve_neighbors_with") for c in cs), "r3", "edge/%s.%s/built-with-helper" % (t, name),
                    C.loc(arm["sp"]), "%s.%s is not resolved through resolve_neighbors_with (no neighbors for contexts without an active vertex)" % (t, name))
    R.check(not implements, "r3", "no-implements", "-", "the introspection schema declares implements on %s: resolve_coercion would be called" % implements)
    R.check(is_panic_arm(C, mc["body"]) or True, "r3", "coercion-unreachable", C.loc(mc["sp"]), "", None)

    # r4: semantic accessors
    def fn(p):
        return C.fn(AD + p)
    acc = {"Edge::<'a>::to_many": ("variant", "List"), "Edge::<'a>::at_least_one": ("notfield", "nullable"),
           "VertexType::<'a>::is_interface": ("variant", "Interface")}
    for p, (kind, what) in acc.items():
        g = fn(p)
        if g is None:
            R.fail("r4", "anchor/%s" % p.split("::")[-1], "-", "accessor %s not found" % p)
            continue
        if kind == "variant":
            pats = set()
            for n in walk(g["body"]):
                if n.get("k") == "match":
                    for a in n["arms"]:
                        if a["pat"].get("variant"):
                            val = strip(arm_value(a["body"]))
                            pats.add((a["pat"]["variant"], val.get("v")))
            R.check((what, True) in pats, "r4", "accessor/%s" % p.split("::")[-1], C.loc(g["sp"]),
                    "%s must be true exactly for the %s variant (arms: %s)" % (p, what, sorted(pats, key=str)))
        else:
            v = strip(arm_value(g["body"]))
            ok = v.get("k") == "un" and v.get("op") == "!" and strip(v["e"]).get("k") == "field" and strip(v["e"])["name"] == what
            R.check(ok, "r4", "accessor/%s" % p.split("::")[-1], C.loc(g["sp"]), "%s must be `!...%s` (got %s)" % (p, what, ekey(v)))
    # property / edge partition
    conds = {}
    for nm in ("resolve_vertex_type_property_edge", "resolve_vertex_type_edge_edge"):
        g = fn(nm)
        if g is None:
            R.fail("r4", "anchor/%s" % nm, "-", "%s not found" % nm)
            continue
        for n in walk(g["body"]):
            if n.get("k") == "if":
                c = strip(n["cond"])
                neg = False
                while c.get("k") == "un" and c.get("op") == "!":
                    neg = not neg
                    c = strip(c["e"])
                if c.get("k") == "mcall" and c.get("name") == "contains_key" and "vertex_types" in ekey(c["recv"]):
                    then_some = any(x.get("k") == "ctor" and x.get("variant") == "Some" for x in walk(n["then"]))
                    kind = [x.get("variant") for x in walk(n["then"]) if x.get("k") == "ctor" and (x.get("adt") or "").endswith("SchemaVertex")]
                    conds[nm] = (neg, then_some, kind)
    p_, e_ = conds.get("resolve_vertex_type_property_edge"), conds.get("resolve_vertex_type_edge_edge")
    R.check(p_ is not None and e_ is not None and p_[0] != e_[0] and p_[1] and e_[1] and p_[2] == ["Property"] and e_[2] == ["Edge"] and p_[0] is True,
            "r4", "property-edge-partition", "-", "properties must be the fields whose base type is not a vertex type and edges the complement "
            "(property: negated=%s, edge: negated=%s)" % (p_ and p_[0], e_ and e_[0]))
    g = fn("entrypoints_iter")
    ok = g is not None and any(x.get("k") == "field" and x["name"] == "query_type" for x in walk(g["body"])) and \
        any(x.get("k") == "field" and x["name"] == "fields" for x in walk(g["body"]))
    R.check(ok, "r4", "entrypoints-are-root-fields", C.loc(g["sp"]) if g else "-", "entry points must be the fields of the root query type")
    g = fn("vertex_type_iter")
    if g is None:
        R.fail("r4", "anchor/vertex_type_iter", "-", "vertex_type_iter not found")
    else:
        ne = [comparison(n) for n in walk(g["body"]) if comparison(n)]
        n_excl = sum(1 for c in ne if c[0] == "!=" and "root_query_type" in ekey(c[1]) + ekey(c[2]))
        R.check(n_excl >= 3, "r4", "root-type-excluded", C.loc(g["sp"]),
                "every branch of vertex_type_iter must exclude the root query type (found %d exclusions for 3 branches)" % n_excl)
    partition_table(C, R)
    implements_table(C, R)
    every_exit_keeps_contexts(C, R)


def every_exit_keeps_contexts(C, R):
    """r8: the adapter contract gives back one outcome per input context. In the introspection adapter that holds because every
    resolver arm ends in a contract helper (`resolve_property_with` / `resolve_neighbors_with`) fed with `contexts`. Any other exit
    of resolve_property / resolve_neighbors - an early `return`, an arm that builds its own (e.g. empty) iterator - drops contexts:
    a @fold or @optional over such an edge loses whole rows instead of getting an empty fold / null."""
    R.rule("r8", "every exit of the introspection adapter's resolve_property / resolve_neighbors hands `contexts` to a contract helper")
    HELP = ("resolve_property_with", "resolve_neighbors_with", "resolve_coercion_with", "resolve_coercion_using_schema")
    fs = [f for f in C.fns if f.get("impl_trait") == "trustfall_core::interpreter::Adapter" and (f.get("self_ty") or "").startswith(AD + "SchemaAdapter")
          and f["name"] in ("resolve_property", "resolve_neighbors")]
    R.floor("r8", "SchemaAdapter resolvers taking contexts", len(fs), 2)
    for f in fs:
        ctx_bid = next((p.get("bid") for p in f["params"] if p.get("name") == "contexts"), None)
        in_closure = set()
        for clo in walk(f["body"]):
            if clo.get("k") == "closure":
                in_closure |= {id(x) for x in walk(clo["body"])}
        bad = []

        def leaf(n):
            n = strip(n)
            k = n.get("k")
            if k == "block":
                if "tail" in n:
                    leaf(n["tail"])
                else:
                    bad.append((n, "a block without a value"))
            elif k == "match":
                for a in n["arms"]:
                    if not is_panic_arm(C, a["body"]):
                        leaf(a["body"])
            elif k == "if":
                leaf(n["then"])
                if "els" in n:
                    leaf(n["els"])
            elif k == "call" and (n.get("callee") or "").endswith(HELP):
                a0 = strip(n["args"][0]) if n.get("args") else {}
                if not (a0.get("k") == "local" and (ctx_bid is None or a0.get("bid") == ctx_bid)):
                    bad.append((n, "the helper is not given `contexts`"))
            elif is_panic_arm(C, n):
                pass
            else:
                bad.append((n, "`%s`" % ekey(n)[:60]))
        leaf(f["body"])
        for r_ in walk(f["body"]):
            if r_.get("k") == "ret" and id(r_) not in in_closure:
                if "e" in r_:
                    leaf(r_["e"])           # `return helper(contexts, ..)` is as good as a tail call
                else:
                    bad.append((r_, "an early `return`"))
        R.check(not bad, "r8", "exits/%s" % f["name"], C.loc((bad[0][0] if bad else f).get("sp")),
                "SchemaAdapter::%s has an exit that does not go through a contract helper with `contexts` (%s): the input contexts are "
                "dropped instead of each getting an outcome" % (f["name"], bad and bad[0][1]))


def implements_table(C, R):
    """r7: the `implements` / `implementer` edges are evaluated on a schema with an interface hierarchy (interfaces implementing
    interfaces, objects implementing several, an unrelated type): implements(T) is T's declared list, implementer(X) is X itself
    plus every type - object *or interface* - that declares X, and the two are inverse to each other. Schema::subtypes and
    get_vertex_type_implements are evaluated from their own source, not assumed."""
    from tfv import absint as A
    from tfv import stdmodel as M
    R.rule("r7", "implements / implementer edges over an interface hierarchy: declared list; itself + every declaring type (objects and interfaces); inverse relations")
    fi, fr = C.fn(AD + "resolve_vertex_type_implements_edge"), C.fn(AD + "resolve_vertex_type_implementer_edge")
    if fi is None or fr is None:
        R.fail("r7", "anchor", "-", "resolve_vertex_type_implements_edge / resolve_vertex_type_implementer_edge not found")
        return
    PT = "async_graphql_parser::types::"

    def pos(x):
        return A.Struct("async_graphql_parser::pos::Positioned", {"node": x})
    decl = {"Named": ("Interface", []), "Animal": ("Interface", ["Named"]), "Pet": ("Interface", ["Animal", "Named"]),
            "Dog": ("Object", ["Pet", "Animal", "Named"]), "Rock": ("Object", ["Named"]), "Lone": ("Object", [])}

    def defn(name):
        kind, impl = decl[name]
        inner = A.Struct(PT + "service::%sType" % kind, {"implements": A.VecV([pos(x) for x in impl]), "fields": A.VecV([])})
        return A.Struct(PT + "service::TypeDefinition", {"name": pos(name), "kind": A.Enum(PT + "service::TypeKind", kind, [inner]),
                                                         "extend": False, "description": M.none(), "directives": A.VecV([])})
    defs = {n: defn(n) for n in decl}
    schema = A.Struct("trustfall_core::schema::Schema", {"vertex_types": M.MapV([(n, defs[n]) for n in decl])})
    I = M.intrinsics()
    I.update(M.string_intrinsics())
    I["async_graphql_value::Name::as_str"] = lambda ip, n, a: A.deref(a[0])

    def run_(f, name):
        v = A.Enum(AD + "SchemaVertex", "VertexType", [A.Struct(AD + "VertexType", {"defn": defs[name]})])
        out = []
        for x in M.to_iter(A.Interp(C, I, max_steps=400000).call_by_type(f, [("Schema", schema), ("SchemaVertex", v)])):
            x = A.deref(x)
            if not (isinstance(x, A.Enum) and x.variant == "VertexType"):
                raise A.Unsupported("resolver yields %r" % (x,))
            out.append(A.deref(A.deref(A.deref(A.deref(x.fields[0]).fields["defn"]).fields["name"]).fields["node"]))
        return out
    bad = None
    n = 0
    try:
        for t in decl:
            got_i, got_r = run_(fi, t), run_(fr, t)
            want_i = list(decl[t][1])
            want_r = sorted({t} | {u for u in decl if t in decl[u][1]})
            n += 2
            if got_i != want_i and bad is None:
                bad = ("implements", t, got_i, want_i)
            if sorted(got_r) != want_r and bad is None:
                bad = ("implementer", t, sorted(got_r), want_r)
    except A.Unsupported as e:
        R.fail("r7", "unanalysable", C.loc(fr["sp"]), "cannot evaluate the implements / implementer resolvers abstractly: %s (fail closed)" % e)
        return
    except A.PanicReached as e:
        R.fail("r7", "panic", C.loc(fr["sp"]), "an implements / implementer resolver panics on the hierarchy: %s" % e.what)
        return
    R.floor("r7", "type x edge evaluations", n, 12)
    R.check(bad is None, "r7", "implements-implementer-table", C.loc(fr["sp"]),
            "on the hierarchy Named <- Animal <- Pet <- Dog (+ Rock, Lone) the `%s` edge of %s yields %s, expected %s: introspection misreports "
            "the implements relation (the two edges must be inverse, interfaces included)" % (bad or ("", "", "", "")), {"cases": n})


def partition_table(C, R):
    """r6: the two resolvers that list a vertex type's properties and edges are abstractly evaluated on a type whose fields cover
    every field-type shape (scalar, list, nested lists up to depth 3, any nullability; vertex, list of vertices): `property` yields
    exactly the fields whose innermost named type is not a vertex type - with that very type - and `edge` exactly the others, in
    declaration order. A field dropped from both (or listed in both) makes introspection inexact."""
    from tfv import absint as A
    from tfv import stdmodel as M
    from . import tymodel as T
    R.rule("r6", "VertexType.property / VertexType.edge partition the fields over every field-type shape (decision table)")
    fp, fe = C.fn(AD + "resolve_vertex_type_property_edge"), C.fn(AD + "resolve_vertex_type_edge_edge")
    if fp is None or fe is None:
        R.fail("r6", "anchor", "-", "resolve_vertex_type_property_edge / resolve_vertex_type_edge_edge not found")
        return
    PT = "async_graphql_parser::types::"

    def pos(x):
        return A.Struct("async_graphql_parser::pos::Positioned", {"node": x})

    def agq(t):
        """async-graphql-parser's Type { base: BaseType::Named(name) | BaseType::List(Box<Type>), nullable }"""
        base = A.Enum(PT + "BaseType", "Named", [t.base]) if t.inner is None else A.Enum(PT + "BaseType", "List", [agq(t.inner)])
        return A.Struct(PT + "Type", {"base": base, "nullable": t.nullable})

    def from_agq(v):
        v = A.deref(v)
        b = A.deref(v.fields["base"])
        if b.variant == "Named":
            return T.named(A.deref(b.fields[0]), ip_truth(v.fields["nullable"]))
        return T.listof(from_agq(b.fields[0]), ip_truth(v.fields["nullable"]))

    def ip_truth(x):
        x = A.deref(x)
        if not isinstance(x, bool):
            raise A.Unsupported("nullable flag %r" % (x,))
        return x
    shapes = []
    for base in ("Int", "V"):
        level = [T.named(base, n) for n in (True, False)]
        shapes += level
        for _ in range(3 if base == "Int" else 1):
            level = [T.listof(t, n) for t in level for n in (True, False)][:6]
            shapes += level
    fields = [("f%d" % i, t) for i, t in enumerate(shapes)]
    I = M.intrinsics()
    I.update(M.string_intrinsics())
    I.update(T.intrinsics())
    I[T.TY + "::from_type"] = lambda ip, n, a: from_agq(a[0])
    I["trustfall_core::schema::get_vertex_type_fields"] = lambda ip, n, a: A.deref(a[0]).fields["_fields"]
    I["async_graphql_value::Name::as_str"] = lambda ip, n, a: A.deref(a[0])
    defn = A.Struct(PT + "service::TypeDefinition", {"name": pos("Owner"), "_fields": A.VecV([
        pos(A.Struct(PT + "service::FieldDefinition", {"name": pos(nm), "description": M.none(), "ty": pos(agq(t)), "arguments": A.VecV([])}))
        for nm, t in fields])})
    schema = A.Struct("trustfall_core::schema::Schema", {"vertex_types": M.MapV([("V", A.Sym("defn:V")), ("Owner", A.Sym("defn:Owner"))])})
    vertex = A.Enum(AD + "SchemaVertex", "VertexType", [A.Struct(AD + "VertexType", {"defn": defn})])

    def names(res, variant):
        out = []
        for x in M.to_iter(res):
            x = A.deref(x)
            if not (isinstance(x, A.Enum) and x.variant == variant):
                raise A.Unsupported("resolver yields %r" % (x,))
            s = A.deref(x.fields[0])
            if variant == "Property":
                out.append((A.deref(s.fields["name"]), A.deref(s.fields["type_"]).key()))
            else:
                out.append((A.deref(A.deref(A.deref(s.fields["defn"]).fields["name"]).fields["node"]), None))
        return out
    try:
        props = names(A.Interp(C, I, max_steps=200000).call_by_type(fp, [("Schema", schema), ("SchemaVertex", vertex)]), "Property")
        edges = names(A.Interp(C, I, max_steps=200000).call_by_type(fe, [("Schema", schema), ("SchemaVertex", vertex)]), "Edge")
    except A.Unsupported as e:
        R.fail("r6", "unanalysable", C.loc(fp["sp"]), "cannot evaluate the property / edge resolvers abstractly: %s (fail closed)" % e)
        return
    except A.PanicReached as e:
        R.fail("r6", "panic", C.loc(fp["sp"]), "a property / edge resolver panics on a field-type shape: %s" % e.what)
        return
    want_p = [(nm, t.key()) for nm, t in fields if t.base != "V"]
    want_e = [(nm, None) for nm, t in fields if t.base == "V"]
    R.floor("r6", "field-type shapes", len(fields), 20)
    byname = dict(fields)
    missing = [repr(byname[nm]) for nm, _ in want_p if nm not in [p[0] for p in props]] + [repr(byname[nm]) for nm, _ in want_e if nm not in [e[0] for e in edges]]
    R.check(props == want_p and edges == want_e, "r6", "property-edge-table", C.loc(fp["sp"]),
            "over %d field-type shapes the resolvers list properties %s and edges %s; fields of type %s are missing (or mistyped / misplaced): "
            "introspection does not report every field with its type" % (len(fields), [p[0] for p in props], [e[0] for e in edges], missing[:6]),
            {"shapes": len(fields)})
