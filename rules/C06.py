"""C06 — candidate intersection / exclusion are exact set operations.

Decision-table extraction by abstract evaluation: Range<T> and CandidateValue<T> touch their payload
only through <, <=, >, >=, ==, is_null, clone and move (anything else makes the evaluator fail closed),
so their behaviour is a function of the *order type* of the values involved. The rule enumerates every
candidate over three distinct bound values (plus null) x every pair, evaluates the AST of the real
functions on these order-class representatives, and compares membership of the result — over a dense
universe that has a point below, between, at and above every bound — with the set-theoretic definition.
"""
import itertools

from tfv import absint as A
from tfv.tast import walk, calls_in

EXPLANATION = ("Exhaustive decision tables of Range::contains / intersect / degenerate and "
               "CandidateValue::intersect / normalize / exclude_single_value, obtained by abstractly evaluating "
               "their typed AST on representatives of every order class of the bound values, compared with the "
               "set definitions (intersection = members of both; normalize preserves members; exclusion removes "
               "at most the excluded value and nothing else).")
ASSUMPTIONS = ["the payload type's comparison operators form a total order on non-null values (C08) and is_null is "
               "consistent with equality to the null value",
               "membership is compared over a dense order (a value exists strictly between any two bounds); "
               "set equality over the dense abstraction implies it for every sub-order",
               "derived PartialEq on Range/Bound/CandidateValue is structural"]

HINTS = "trustfall_core::interpreter::hints::candidates::"
CV = HINTS + "CandidateValue"
RANGE = HINTS + "Range"
BOUND = "core::ops::range::Bound"

BR = [2, 4, 6]                 # ranks usable as bounds / discrete members
UNIVERSE = [1, 2, 3, 4, 5, 6, 7]


def sym(r):
    return A.Sym("v%d" % r, rank=r)


NULL = lambda: A.Sym("null", rank=None, null=True)


def mk_bound(kind, r):
    if kind == "U":
        return A.Enum(BOUND, "Unbounded")
    return A.Enum(BOUND, "Included" if kind == "I" else "Excluded", [sym(r)])


def all_bounds():
    out = [("U", None)]
    for k in "IE":
        for r in BR:
            out.append((k, r))
    return out


def mk_range(s, e, nul):
    return A.Struct(RANGE, {"start": mk_bound(*s), "end": mk_bound(*e), "null_included": nul})


def all_ranges():
    for s in all_bounds():
        for e in all_bounds():
            for nul in (False, True):
                yield (s, e, nul)


def range_members(s, e, nul):
    m = set()
    for x in UNIVERSE:
        lo = True if s[0] == "U" else (s[1] <= x if s[0] == "I" else s[1] < x)
        hi = True if e[0] == "U" else (x <= e[1] if e[0] == "I" else x < e[1])
        if lo and hi:
            m.add(x)
    if nul:
        m.add("null")
    return frozenset(m)


# candidate descriptors: ("Impossible",) ("All",) ("Single", x) ("Multiple", (x,..)) ("Range", s, e, nul)
def all_candidates(small=False):
    yield ("Impossible",)
    yield ("All",)
    elems = BR + ["null"]
    for x in elems:
        yield ("Single", x)
    for n in (2, 3):
        for c in itertools.combinations(elems, n):
            yield ("Multiple", c)
    for r in all_ranges():
        yield ("Range",) + r


def cand_members(c):
    if c[0] == "Impossible":
        return frozenset()
    if c[0] == "All":
        return frozenset(UNIVERSE + ["null"])
    if c[0] == "Single":
        return frozenset([c[1]])
    if c[0] == "Multiple":
        return frozenset(c[1])
    return range_members(c[1], c[2], c[3])


def mk_val(x):
    return NULL() if x == "null" else sym(x)


def mk_cand(c):
    if c[0] in ("Impossible", "All"):
        return A.Enum(CV, c[0])
    if c[0] == "Single":
        return A.Enum(CV, "Single", [mk_val(c[1])])
    if c[0] == "Multiple":
        return A.Enum(CV, "Multiple", [A.VecV([mk_val(x) for x in c[1]])])
    return A.Enum(CV, "Range", [mk_range(c[1], c[2], c[3])])


def value_members(v):
    """Members (over UNIVERSE + null) of an abstract CandidateValue produced by the evaluator."""
    v = A.deref(v)
    if not isinstance(v, A.Enum):
        raise A.Unsupported("result is not a CandidateValue: %r" % (v,))
    def one(x):
        x = A.deref(x)
        if not isinstance(x, A.Sym):
            raise A.Unsupported("payload %r" % (x,))
        return "null" if x.null else x.rank
    if v.variant == "Impossible":
        return frozenset()
    if v.variant == "All":
        return frozenset(UNIVERSE + ["null"])
    if v.variant == "Single":
        return frozenset([one(v.fields[0])])
    if v.variant == "Multiple":
        return frozenset(one(x) for x in A.deref(v.fields[0]).items)
    if v.variant == "Range":
        r = A.deref(v.fields[0])
        def b(x):
            x = A.deref(x)
            if x.variant == "Unbounded":
                return ("U", None)
            p = A.deref(x.fields[0])
            if p.null:
                raise A.Unsupported("null bound")
            return ("I" if x.variant == "Included" else "E", p.rank)
        return range_members(b(r.fields["start"]), b(r.fields["end"]), A.deref(r.fields["null_included"]))
    raise A.Unsupported("variant %s" % v.variant)


def shape_ok(v):
    """normalize's contract: no empty/singleton Multiple, no degenerate or point Range left behind."""
    v = A.deref(v)
    if v.variant == "Multiple":
        return len(A.deref(v.fields[0]).items) >= 2
    return True


def intrinsics():
    def is_null(ip, n, args):
        x = A.deref(args[0])
        if isinstance(x, A.Sym):
            return x.null
        raise A.Unsupported("is_null on %r" % (x,))

    def contains(ip, n, args):
        v = A.deref(args[0])
        if isinstance(v, A.VecV):
            return any(A.veq(x, args[1]) for x in v.items)
        raise A.Unsupported("contains on %r" % (v,))

    def retain(ip, n, args):
        v = A.deref(args[0])
        v.items[:] = [x for x in v.items if ip.truth(ip.call_closure(args[1], [x]))]
        return A.Tuple([])

    def is_empty(ip, n, args):
        return len(A.deref(args[0]).items) == 0

    def vlen(ip, n, args):
        return len(A.deref(args[0]).items)

    def pop(ip, n, args):
        v = A.deref(args[0])
        if v.items:
            return A.Enum("core::option::Option", "Some", [v.items.pop()])
        return A.Enum("core::option::Option", "None")

    def expect(ip, n, args):
        o = A.deref(args[0])
        if o.variant == "Some":
            return o.fields[0]
        raise A.PanicReached("expect on None")

    def swap(ip, n, args):
        a, b = args
        if not (isinstance(a, A.Ref) and isinstance(b, A.Ref)):
            raise A.Unsupported("swap of non-references")
        x, y = a.get(), b.get()
        a.set(y)
        b.set(x)
        return A.Tuple([])

    def default(ip, n, args):
        return NULL()     # T::default() for the payload type is the null value (checked separately: r0)

    def into_vec(ip, n, args):
        return A.deref(args[0])

    def box_new(ip, n, args):
        return args[0]

    return {
        "is_null": is_null,
        "core::slice::<impl [T]>::contains": contains,
        "alloc::vec::Vec::<T, A>::retain": retain,
        "alloc::vec::Vec::<T, A>::is_empty": is_empty,
        "alloc::vec::Vec::<T, A>::len": vlen,
        "alloc::vec::Vec::<T, A>::pop": pop,
        "core::option::Option::<T>::expect": expect,
        "core::mem::swap": swap,
        "core::default::Default::default": default,
        "alloc::slice::<impl [T]>::into_vec": into_vec,
        "alloc::boxed::box_new": box_new,
        "alloc::boxed::Box::<T>::new": box_new,
    }


def find_fn(C, self_prefix, name):
    c = [f for f in C.fns if f.get("name") == name and f["path"].startswith(self_prefix) and "impl_trait" not in f]
    return c


def run(ctx, R):
    C = ctx.core
    R.rule("r0", "the payload's Default is the null value and NullableValue::is_null is a test for the Null variant")
    R.rule("r1", "Range::contains(x) = null_included for null; otherwise start/end tests with the bound's own inclusivity (all bound kinds x order classes)")
    R.rule("r2", "Range::intersect yields exactly the members of both ranges (all pairs of ranges over 3 bound values)")
    R.rule("r3", "Range::degenerate is true exactly when the range has no non-null member")
    R.rule("r4", "CandidateValue::intersect yields exactly the members of both candidates, for every pair of candidates; result is normalized")
    R.rule("r5", "CandidateValue::normalize never changes membership")
    R.rule("r6", "exclude_single_value(v): original minus {v} is a subset of the result, the result is a subset of the original")

    def get(prefix, name):
        fs = find_fn(C, prefix, name)
        if len(fs) != 1:
            R.fail("anchor", "%s%s" % (prefix.split("::")[-1], name), "-", "expected exactly one fn %s%s, found %d" % (prefix, name, len(fs)))
            return None
        return fs[0]

    f_contains = get(RANGE + "::<T>::", "contains")
    f_rintersect = get(RANGE + "::<T>::", "intersect")
    f_degenerate = get(RANGE + "::<T>::", "degenerate")
    f_cintersect = get(CV + "::<T>::", "intersect")
    f_normalize = get(CV + "::<T>::", "normalize")
    f_exclude = get(CV + "::<T>::", "exclude_single_value")
    if None in (f_contains, f_rintersect, f_degenerate, f_cintersect, f_normalize, f_exclude):
        return

    # r0: Default for FieldValue is Null; is_null impls
    dflt = [f for f in C.fns if f.get("impl_trait") == "core::default::Default" and (f.get("self_ty") or "").endswith("ir::value::FieldValue")]
    if dflt:
        vs = {n.get("variant") for n in walk(dflt[0]["body"]) if n.get("k") == "path" and (n.get("adt") or "").endswith("FieldValue")}
        consts = {n.get("def") for n in walk(dflt[0]["body"]) if n.get("k") == "path" and n.get("dk") in ("AssocConst", "Const")}
        R.check(vs == {"Null"} or any((c or "").endswith("FieldValue::NULL") for c in consts), "r0", "default-is-null", C.loc(dflt[0]["sp"]),
                "FieldValue::default() is not Null (normalize uses T::default() as the null member): %s %s" % (vs, consts))
    else:
        # derived Default with #[default] attribute on a variant
        fv = C.adt_by_path.get("trustfall_core::ir::value::FieldValue")
        ok = False
        if fv:
            for v in fv["variants"]:
                if any("default" in a for a in v.get("attrs", [])) and v["name"] == "Null":
                    ok = True
        R.check(ok, "r0", "default-is-null", "-", "cannot establish that FieldValue::default() is Null")
    nimpls = [f for f in C.fns if f.get("impl_trait") == HINTS + "NullableValue" and f["name"] == "is_null"]
    R.floor("r0", "NullableValue impls", len(nimpls), 3)

    intr = intrinsics()

    def run_fn(f, args, steps=40000):
        ip = A.Interp(C, intrinsics=intr, max_steps=steps)
        return ip, ip.call_fn(f, args)

    def guarded(rule, key, where, thunk):
        try:
            return thunk()
        except A.Unsupported as e:
            R.fail(rule, key + "/unanalysable", where, "abstract evaluation met an unsupported construct (%s); the function no longer "
                   "touches its payload only through comparisons, or uses an idiom the evaluator does not model — fail closed" % e)
        except A.PanicReached as e:
            R.fail(rule, key + "/panic", where, "abstract evaluation reached a panic (%s)" % e.what)
        return None

    # ---------- r1 contains
    n1 = 0
    bad = None
    def r1():
        nonlocal n1, bad
        for (s, e, nul) in all_ranges():
            for x in UNIVERSE + ["null"]:
                rv = mk_range(s, e, nul)
                _, got = run_fn(f_contains, [rv, mk_val(x)])
                want = x in range_members(s, e, nul)
                n1 += 1
                if got is not want and bad is None:
                    bad = {"start": s, "end": e, "null_included": nul, "item": x, "got": got, "want": want}
        return True
    if guarded("r1", "contains", C.loc(f_contains["sp"]), r1):
        R.extra["contains_cases"] = n1
        if bad:
            R.fail("r1", "contains/table", C.loc(f_contains["sp"]), "Range::contains disagrees with the definition for %s" % bad, bad)
        else:
            for kind in ("start:I", "start:E", "start:U", "end:I", "end:E", "end:U", "null"):
                R.ok("r1", "contains/%s" % kind, {"cases": n1})

    # ---------- r3 degenerate
    def r3():
        bad = None
        n = 0
        for (s, e, nul) in all_ranges():
            _, got = run_fn(f_degenerate, [mk_range(s, e, nul)])
            want = not (range_members(s, e, False))
            n += 1
            if got is not want and bad is None:
                bad = {"start": s, "end": e, "got": got, "want": want}
        return (n, bad)
    res = guarded("r3", "degenerate", C.loc(f_degenerate["sp"]), r3)
    if res:
        n, bad = res
        if bad:
            R.fail("r3", "degenerate/table", C.loc(f_degenerate["sp"]), "Range::degenerate disagrees with emptiness for %s" % bad, bad)
        else:
            for kk in ("II", "IE", "EI", "EE", "U"):
                R.ok("r3", "degenerate/%s" % kk, {"cases": n})

    # ---------- r2 Range::intersect
    def r2():
        bad = None
        n = 0
        per_cell = {}
        ranges = list(all_ranges())
        for a in ranges:
            ma = range_members(*a)
            for b in ranges:
                ra = mk_range(*a)
                rb = mk_range(*b)
                run_fn(f_rintersect, [ra, rb])
                got = value_members(A.Enum(CV, "Range", [ra]))
                want = ma & range_members(*b)
                n += 1
                per_cell[(a[0][0] + b[0][0], a[1][0] + b[1][0])] = True
                if got != want and bad is None:
                    bad = {"self": a, "other": b, "got": sorted(map(str, got)), "want": sorted(map(str, want))}
        return n, bad, len(per_cell)
    res = guarded("r2", "Range::intersect", C.loc(f_rintersect["sp"]), r2)
    if res:
        n, bad, cells = res
        R.extra["range_intersect_cases"] = n
        if bad:
            R.fail("r2", "Range::intersect/table", C.loc(f_rintersect["sp"]),
                   "Range::intersect is not the set intersection for self=%s other=%s: members %s, expected %s"
                   % (bad["self"], bad["other"], bad["got"], bad["want"]), bad)
        else:
            for side in ("start", "end"):
                for a in "IEU":
                    for b in "IEU":
                        R.ok("r2", "Range::intersect/%s(%s,%s)" % (side, a, b))
            R.ok("r2", "Range::intersect/null_included", {"cases": n, "kind_cells": cells})

    # ---------- r4 CandidateValue::intersect, r5 normalize, r6 exclude
    cands = list(all_candidates())
    R.units["candidate_shapes_enumerated"] = len(cands)

    def r5():
        bad = None
        n = 0
        for c in cands:
            cell = A.Cell(mk_cand(c))
            ref = A.Ref(lambda: cell.v, lambda x: setattr(cell, "v", x))
            run_fn(f_normalize, [ref])
            n += 1
            got = value_members(cell.v)
            if (got != cand_members(c) or not shape_ok(cell.v)) and bad is None:
                bad = {"candidate": c, "got": sorted(map(str, got)), "result": repr(cell.v)}
        return n, bad
    res = guarded("r5", "normalize", C.loc(f_normalize["sp"]), r5)
    if res:
        n, bad = res
        if bad:
            R.fail("r5", "normalize/table", C.loc(f_normalize["sp"]), "normalize changes membership or leaves a non-normal form: %s" % bad, bad)
        else:
            for v in ("Impossible", "Single", "Multiple", "Range", "All"):
                R.ok("r5", "normalize/%s" % v, {"cases": n})

    def r4():
        bad = None
        n = 0
        cells = set()
        for a in cands:
            ma = cand_members(a)
            for b in cands:
                cell = A.Cell(mk_cand(a))
                ref = A.Ref(lambda: cell.v, lambda x: setattr(cell, "v", x))
                run_fn(f_cintersect, [ref, mk_cand(b)])
                n += 1
                cells.add((a[0], b[0]))
                got = value_members(cell.v)
                want = ma & cand_members(b)
                if (got != want or not shape_ok(cell.v)) and bad is None:
                    bad = {"self": a, "other": b, "got": sorted(map(str, got)), "want": sorted(map(str, want)), "result": repr(cell.v)}
        return n, bad, cells
    res = guarded("r4", "CandidateValue::intersect", C.loc(f_cintersect["sp"]), r4)
    if res:
        n, bad, cells = res
        R.extra["candidate_intersect_cases"] = n
        if bad:
            R.fail("r4", "CandidateValue::intersect/table", C.loc(f_cintersect["sp"]),
                   "CandidateValue::intersect is not the set intersection for self=%s other=%s: got members %s (%s), expected %s"
                   % (bad["self"], bad["other"], bad["got"], bad["result"], bad["want"]), bad)
        else:
            for cell in sorted(cells):
                R.ok("r4", "CandidateValue::intersect/%s x %s" % cell)
            R.samples.append({"rule": "r4", "instance": "pairs evaluated", "detail": {"pairs": n}})

    def r6():
        bad = None
        n = 0
        for c in cands:
            mc = cand_members(c)
            for x in BR + ["null", 3]:
                cell = A.Cell(mk_cand(c))
                ref = A.Ref(lambda: cell.v, lambda x: setattr(cell, "v", x))
                run_fn(f_exclude, [ref, mk_val(x)])
                n += 1
                got = value_members(cell.v)
                if not ((mc - {x}) <= got <= mc) and bad is None:
                    bad = {"candidate": c, "excluded": x, "got": sorted(map(str, got)), "original": sorted(map(str, mc))}
        return n, bad
    res = guarded("r6", "exclude_single_value", C.loc(f_exclude["sp"]), r6)
    if res:
        n, bad = res
        R.extra["exclude_cases"] = n
        if bad:
            R.fail("r6", "exclude_single_value/table", C.loc(f_exclude["sp"]),
                   "exclude_single_value(%s) on %s gives members %s; must lie between original-minus-value and original %s"
                   % (bad["excluded"], bad["candidate"], bad["got"], bad["original"]), bad)
        else:
            for v in ("Impossible", "Single", "Multiple", "Range", "All"):
                R.ok("r6", "exclude_single_value/%s" % v, {"cases": n})
