"""Shared RK3 driver: compare the reachable panic-site inventory with the audit table."""
from . import panics as P

T = "trustfall_core::"


def run_inventory(C, R, entries, audit, rule="r1", stop=(), label="", ignore_fns=()):
    missing = [e for e in entries if C.fn(e) is None]
    for e in missing:
        R.fail(rule, "anchor:%s" % e.split("::")[-1], "-", "entry point %s not found" % e)
    inv, seen, parent, g = P.inventory(C, [e for e in entries if e not in missing], stop)
    R.units["%sreachable_functions" % label] = len(seen)
    R.units["%sinventory_keys" % label] = len(inv)
    R.units["%sinventory_sites" % label] = sum(len(v) for v in inv.values())
    classes = {}
    used = set()
    for (fn, key), nodes in sorted(inv.items()):
        short = fn[len(T):] if fn.startswith(T) else fn.replace("<" + T, "<").replace(" " + T, " ")
        short = short.replace(T, "")
        if any(short.startswith(i) for i in ignore_fns):
            continue
        ent = audit.get((short, key))
        where = C.loc(nodes[0].get("sp")) if isinstance(nodes[0], dict) else "-"
        ikey = "%s | %s" % (short, key)
        if ent is None:
            path = g.path_to(parent, fn)
            R.fail(rule, "unaudited %s x%d" % (ikey, len(nodes)), where,
                   "panic-capable construct `%s` (x%d) in %s is reachable from %s and has no audit entry: either it can fire on "
                   "some input (a defect) or the argument why it cannot has not been made. Call path: %s"
                   % (key, len(nodes), fn, "/".join(e.split("::")[-1] for e in entries), " -> ".join(p.split("::")[-1] for p in path)),
                   {"count": len(nodes)})
            continue
        used.add((short, key))
        cnt, cls, reason = ent
        if len(nodes) > cnt:
            R.fail(rule, "count %s" % ikey, where,
                   "%d sites of `%s` in %s but only %d are audited (%s): a new panic-capable construct appeared on an audited path"
                   % (len(nodes), key, fn, cnt, cls))
            continue
        classes[cls.split(":")[0]] = classes.get(cls.split(":")[0], 0) + len(nodes)
        R.ok(rule, ikey, {"class": cls, "reason": reason, "sites": len(nodes)} if len(R.samples) < 25 else None)
    R.units["%ssites_by_class" % label] = classes
    R.units["%saudit_entries_unused" % label] = len([k for k in audit if k not in used])
    return inv, seen, parent, g
