"""Shared RK3 driver: compare the reachable panic-site inventory with the audit table."""
import re

from . import panics as P

T = "trustfall_core::"


_LT = re.compile(r"(?<=[<&( ,])'[a-z_][a-z0-9_]*(?=[>, ])")


_GP = re.compile(r"<([A-Za-z_][A-Za-z0-9_]*) as ")


def norm_lt(s):
    """Lifetime and generic parameter names are not identity: `OutputHandler::<'query>::finish` and `OutputHandler::<'q>::finish`
    are one key, and so are `<AdapterT as Adapter<'_>>::Vertex` and `<A as Adapter<'_>>::Vertex` (a bare identifier before `as` is a
    generic parameter: concrete types are printed with their path)."""
    return _GP.sub("<_ as ", _LT.sub("'_", s))


def short_name(fn):
    short = fn[len(T):] if fn.startswith(T) else fn.replace("<" + T, "<").replace(" " + T, " ")
    return norm_lt(short.replace(T, ""))


def run_inventory(C, R, entries, audit, rule="r1", stop=(), label="", ignore_fns=()):
    missing = [e for e in entries if C.fn(e) is None]
    for e in missing:
        R.fail(rule, "anchor:%s" % e.split("::")[-1], "-", "entry point %s not found" % e)
    inv0, seen, parent, g = P.inventory(C, [e for e in entries if e not in missing], stop)
    inv = {}
    C._match_renames()
    def norm_key(key):
        # `index &<container type>` keys carry a type text that panics.short_ty cuts at 90 characters *before* parameter names are
        # normalised; compare such keys on a prefix that is the same whatever the generic parameter is called
        k = norm_lt(key)
        return k[:70] if k.startswith("index ") else k
    for (fn, key), nodes in inv0.items():
        # a function recognised as a rename / move of a reference-tree function is keyed by its reference path: its audit entries
        # and known-finding keys hold
        inv.setdefault((C._new_to_old.get(fn, fn), norm_key(key)), []).extend(nodes)
    audit0, audit = audit, {}
    for (fn, key), v in audit0.items():
        k2 = (norm_lt(fn), norm_key(key))
        if k2 in audit:            # two entries that differ only beyond the compared prefix: their sites are counted together
            audit[k2] = (audit[k2][0] + v[0], audit[k2][1], audit[k2][2])
        else:
            audit[k2] = v
    R.units["%sreachable_functions" % label] = len(seen)
    R.units["%sinventory_keys" % label] = len(inv)
    R.units["%sinventory_sites" % label] = sum(len(v) for v in inv.values())
    classes = {}
    used = set()
    # -- sites that moved with a refactoring keep their audit entry (the argument why they cannot fire is about the construct and
    #    the guards around the call path, not about the name of the function that holds it):
    #    (a) extraction: F's audited construct now sits in a new function G that only F calls, and F lost as many sites as G has;
    #    (b) inlining / rename: the audited function no longer exists and the construct sits, same key and within the audited
    #        count, in a function that has no audit entries of its own.
    full = {short_name(f["path"]): f["path"] for f in C.fns}
    audited_fns = {fn for fn, _ in audit}
    callers = {}
    for src, dsts in g.edges.items():
        if src in seen:
            for d in dsts:
                callers.setdefault(d, set()).add(src)
    present = {}
    for (fn, key), nodes in inv.items():
        present[(short_name(fn), key)] = len(nodes)

    def relocated(fn, short, key, n):
        """Audit entry (F, key) that the n sites of `key` in fn can be charged to, or None."""
        for (f_short, k), (cnt, cls, reason) in audit.items():
            if k != key or f_short == short:
                continue
            f_full = full.get(f_short)
            if f_full is None:
                # (b) the audited function is gone; fn must be a function without audit entries of its own, or the caller it was inlined into
                budget = cnt - charged.get((f_short, k), 0)
                if n <= budget:
                    return (f_short, k), "the audited function %s no longer exists (renamed or inlined)" % f_short
                continue
            # (a) extraction out of F: only F calls fn, and F lost the sites
            if short in audited_fns:
                continue
            cs = {c for c in callers.get(fn, ()) if c != fn}
            if cs and cs <= {f_full} and present.get((f_short, k), 0) + charged.get((f_short, k), 0) + n <= cnt:
                return (f_short, k), "extracted from %s, its only caller" % f_short
        return None
    charged = {}
    for (fn, key), nodes in sorted(inv.items()):
        short = short_name(fn)
        if any(short.startswith(i) for i in ignore_fns):
            continue
        ent = audit.get((short, key))
        where = C.loc(nodes[0].get("sp")) if isinstance(nodes[0], dict) else "-"
        ikey = "%s | %s" % (short, key)
        if ent is None:
            rel = relocated(fn, short, key, len(nodes))
            if rel is not None:
                (f_short, k), why = rel
                charged[(f_short, k)] = charged.get((f_short, k), 0) + len(nodes)
                used.add((f_short, k))
                cls = audit[(f_short, k)][1]
                classes[cls.split(":")[0]] = classes.get(cls.split(":")[0], 0) + len(nodes)
                R.ok(rule, "%s | %s" % (f_short, key), {"class": cls, "relocated_to": short, "why": why, "sites": len(nodes)})
                continue
            path = g.path_to(parent, fn)
            R.fail(rule, "unaudited %s x%d" % (ikey, len(nodes)), where,
                   "panic-capable construct `%s` (x%d) in %s is reachable from %s and has no audit entry: either it can fire on "
                   "some input (a defect) or the argument why it cannot has not been made. Call path: %s"
                   % (key, len(nodes), fn, "/".join(e.split("::")[-1] for e in entries), " -> ".join(p.split("::")[-1] for p in path)),
                   {"count": len(nodes)})
            continue
        used.add((short, key))
        cnt, cls, reason = ent
        if len(nodes) > cnt:
            rel = relocated(fn, short, key, len(nodes) - cnt)
            if rel is not None and full.get(rel[0][0]) is None:
                charged[rel[0]] = charged.get(rel[0], 0) + len(nodes) - cnt
                used.add(rel[0])
            else:
                R.fail(rule, "count %s" % ikey, where,
                       "%d sites of `%s` in %s but only %d are audited (%s): a new panic-capable construct appeared on an audited path"
                       % (len(nodes), key, fn, cnt, cls))
                continue
        classes[cls.split(":")[0]] = classes.get(cls.split(":")[0], 0) + len(nodes)
        R.ok(rule, ikey, {"class": cls, "reason": reason, "sites": len(nodes)} if len(R.samples) < 25 else None)
    R.units["%ssites_by_class" % label] = classes
    R.units["%saudit_entries_unused" % label] = len([k for k in audit if k not in used])
    R.units["%srelocated_sites" % label] = sum(charged.values())
    return inv, seen, parent, g
