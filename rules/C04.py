"""C04 — pruning by hints never changes results (RK1 candidate tables, guards, scope formulas)."""
from tfv.tast import walk, strip, ekey, calls_in, bool_formula, formula_atoms, truth_table, comparison
from tfv.tables import (matches_over, variant_table, adt_variants, arm_value, arms_flat, pat_key, pat_adt,
                        is_panic_arm)
from tfv.prov import Scope

EXPLANATION = ("Decides structural clauses of C04: every place that turns a filter operator into a candidate "
               "value uses a shape that over-approximates the operator's definition; hint entry points return "
               "'no information' when filters do not bind; the optional-scope flag of every look-ahead "
               "NeighborInfo includes the crossed edge's optionality and the inherited scope; is_mandatory and "
               "fold_requires_at_least_one_element tables.")
ASSUMPTIONS = ["Range::with_start/with_end/full_non_null and CandidateValue::intersect behave as decided under C06"]

OP = "trustfall_core::ir::Operation"
HINTS = "trustfall_core::interpreter::hints"
CV = HINTS + "::candidates::CandidateValue"
NI = HINTS + "::NeighborInfo"
BOUND = "core::ops::range::Bound"

# operator -> set of admissible (over-approximating) candidate shapes
SOUND = {
    "LessThan": [("Range", "with_end", "Excluded"), ("Range", "with_end", "Included")],
    "LessThanOrEqual": [("Range", "with_end", "Included")],
    "GreaterThan": [("Range", "with_start", "Excluded"), ("Range", "with_start", "Included")],
    "GreaterThanOrEqual": [("Range", "with_start", "Included")],
    "Equals": [("Single", None, None)],
    "OneOf": [("Multiple", None, None)],
    "IsNull": [("Single", None, None)],
    "IsNotNull": [("Range", "full_non_null", None)],
    "NotEquals": [("exclude", None, None), ("Range", "full_non_null", None)],
}


def arm_features(arm_body):
    cvs, ranges, bounds, excl = set(), set(), set(), False
    for n in walk(arm_body):
        k = n.get("k")
        if k in ("ctor", "path", "struct") and n.get("adt") == CV and n.get("variant"):
            cvs.add(n["variant"])
        if k in ("ctor", "path") and (n.get("adt") or "").endswith("::Bound") and n.get("variant"):
            bounds.add(n["variant"])
        if k in ("call", "mcall"):
            c = n.get("callee", "")
            if "candidates::Range" in c and n.get("name") in ("with_start", "with_end", "full_non_null", "full", "new"):
                ranges.add(n["name"])
            if n.get("name") == "exclude_single_value":
                excl = True
    return cvs, ranges, bounds, excl


def shape(cvs, ranges, bounds, excl):
    if excl and not cvs:
        return ("exclude", None, None)
    if cvs == {"Range"} and len(ranges) == 1:
        r = next(iter(ranges))
        if r == "full_non_null":
            return ("Range", r, None)
        if len(bounds) == 1:
            return ("Range", r, next(iter(bounds)))
    if len(cvs) == 1 and not ranges:
        return (next(iter(cvs)), None, None)
    return ("?", tuple(sorted(cvs)), tuple(sorted(ranges)) + tuple(sorted(bounds)))


def is_mandatory_table(C, g):
    """(ok, counterexample): EdgeInfo::is_mandatory evaluated over fold state x optional x recursive."""
    import itertools
    from tfv import absint as A
    from tfv import stdmodel as M
    FS = HINTS + "::FoldState"
    adt = C.adt_by_path.get(FS)
    states = [v["name"] for v in adt["variants"]] if adt else []
    if "FoldedOptional" not in states:
        return False, "FoldState has no FoldedOptional variant (model out of date; fail closed)"
    try:
        for fs, opt, rec in itertools.product(states, (False, True), (False, True)):
            me = A.Struct(HINTS + "::EdgeInfo", {"folded": A.Enum(FS, fs), "optional": opt,
                                                "recursive": M.some(A.Sym("recursive")) if rec else M.none()})
            val = A.deref(A.Interp(C, M.intrinsics()).call_fn(g, [me]))
            if not isinstance(val, bool):
                return False, "is_mandatory evaluates to %r" % (val,)
            if val and (fs == "FoldedOptional" or opt or rec):
                return False, {"folded": fs, "optional": opt, "recursive": rec}
    except A.Unsupported as e:
        return False, "cannot be evaluated (%s; fail closed)" % e
    except A.PanicReached as e:
        return False, "it panics (%s)" % e.what
    return True, None


def semantic_guard(C, f):
    """True if the VertexInfo method f, evaluated with non_binding_filters() = true and with every other source of information about
    the vertex raising, returns "no information" (None / an empty iterator); otherwise a string saying what happened."""
    from tfv import absint as A
    from tfv import stdmodel as M

    class Touched(Exception):
        pass

    def touch(what):
        def h(ip, n, a):
            raise Touched(what)
        return h
    I = M.intrinsics()
    VIp = HINTS + "::vertex_info::"
    I[VIp + "InternalVertexInfo::non_binding_filters"] = lambda ip, n, a: True
    for nm in ("current_vertex", "current_component", "starting_component", "query", "query_variables", "execution_frontier",
               "make_non_folded_edge_info", "make_folded_edge_info"):
        I[VIp + "InternalVertexInfo::" + nm] = touch(nm)
    for nm in ("edges_with_name", "statically_required_property", "required_properties", "first_edge"):
        I[VIp + "VertexInfo::" + nm] = touch(nm)
    I["core::iter::sources::empty::empty"] = lambda ip, n, a: M.IterV([])
    I["alloc::boxed::Box::<T>::new"] = lambda ip, n, a: a[0]
    try:
        res = A.deref(A.Interp(C, I).call_fn(f, [A.Sym("self")] + ["p"] * (len(f["params"]) - 1)))
    except Touched as t:
        return "it reads %s()" % t
    except A.Unsupported as e:
        return "not evaluable (%s)" % e
    except A.PanicReached as e:
        return "it panics (%s)" % e.what
    if isinstance(res, A.Enum) and res.variant == "None":
        return True
    if isinstance(res, M.IterV):
        try:
            return True if not list(res) else "it yields elements"
        except Touched as t:
            return "its iterator reads %s()" % t
    return "it returns %r" % (res,)


def run(ctx, R):
    C = ctx.core
    R.rule("r1", "candidate tables: each Operation arm that yields a candidate uses a shape that contains every "
                 "value satisfying the operator (`>=` -> range with an Included *start* bound, ...), in all sibling tables")
    R.rule("r2", "hint entry points return no information before reading any filter when non_binding_filters() holds")
    R.rule("r3", "within_optional_scope of every look-ahead NeighborInfo = inherited scope OR crossed edge optional "
                 "(folds: OR not(at least one element required)); locally_non_binding_filters from the edge's recursion depth")
    R.rule("r4", "EdgeInfo::is_mandatory is true only if not folded-optional, not optional and not recursive")
    R.rule("r5", "fold_requires_at_least_one_element: Included(x) -> x>=1, Excluded(x) -> any, Unbounded/All/Impossible -> false")
    static_hint_soundness(ctx, R)
    dynamic_hint_pairing(ctx, R)

    # ---------------- r1
    tables = []
    for f in C.fns:
        if HINTS not in f["path"]:
            continue
        for m in walk(f["body"]):
            if m.get("k") != "match":
                continue
            # arms keyed by Operation variant (possibly first element of a tuple pattern)
            entries = {}
            for a in m["arms"]:
                from tfv.tast import pat_variants
                for p in pat_variants(a["pat"]):
                    q = p
                    if q.get("k") == "ptuple" and q["sub"]:
                        q = q["sub"][0]
                    while q.get("k") == "pref":
                        q = q["sub"]
                    if pat_adt(q) == OP:
                        entries.setdefault(q["variant"], []).append(a)
            if len(entries) < 5:
                continue
            feats = {}
            for v, arms in entries.items():
                for a in arms:
                    fs = arm_features(a["body"])
                    if fs[0] or fs[3]:
                        feats.setdefault(v, []).append((shape(*fs), a))
            if len(feats) >= 5:
                tables.append((f, m, feats))
    R.floor("r1", "candidate tables (static, dynamic, fold-specific)", len(tables), 3)
    for f, m, feats in tables:
        tname = f["path"].split("::")[-1]
        for v, lst in sorted(feats.items()):
            for sh, arm in lst:
                key = "%s/%s" % (tname, v)
                if v not in SOUND:
                    R.fail("r1", key, C.loc(arm["sp"]), "operator %s yields a candidate %s but no sound shape is known for it" % (v, sh))
                    continue
                R.check(sh in SOUND[v], "r1", key, C.loc(arm["sp"]),
                        "operator %s yields candidate shape %s in %s; values satisfying the operator are only covered by %s"
                        % (v, sh, f["path"], SOUND[v]), detail={"variant": v, "shape": sh})
    # sibling agreement on ordering operators
    for v in ("LessThan", "LessThanOrEqual", "GreaterThan", "GreaterThanOrEqual"):
        shapes = {f["path"].split("::")[-1]: [s for s, _ in feats.get(v, [])] for f, m, feats in tables}
        present = [tuple(x) for x in shapes.values() if x]
        R.floor("r1", "tables handling %s" % v, len(present), 3)

    # ---------------- r2: guards in the blanket VertexInfo impl
    filter_readers = {g["path"] for g in C.fns if g["path"].startswith(HINTS) and "::tests" not in g["path"] and not g.get("impl_trait") and
                      any(n.get("k") == "field" and n.get("name") == "filters" and (n.get("adt") or "").endswith("ir::IRVertex") for n in walk(g["body"]))}
    guarded = []
    for f in C.fns:
        if f.get("impl_trait") != HINTS + "::vertex_info::VertexInfo":
            continue
        ret = C.S(f.get("ret_ty")) or ""
        uses_mandatory = any((n.get("def") or n.get("callee") or "").endswith("EdgeInfo::is_mandatory")
                             for n in walk(f["body"]))
        # by role, not by name: "reads the vertex's filters" = reads IRVertex.filters itself or calls a function of the hints module
        # that does (today: filters_on_local_property)
        reads_filters = any((n.get("k") == "field" and n.get("name") == "filters" and (n.get("adt") or "").endswith("ir::IRVertex")) or
                            (n.get("k") == "call" and (n.get("callee") or "") in filter_readers)
                            for n in walk(f["body"]))
        if ("CandidateValue" in ret or "DynamicallyResolvedValue" in ret) and reads_filters or uses_mandatory:
            guarded.append(f)
    R.floor("r2", "hint entry points needing the non-binding guard", len(guarded), 3)
    for f in guarded:
        name = f["name"]
        body = f["body"]
        stmts = list(body.get("stmts", []))
        if "tail" in body:
            stmts.append(body["tail"])
        ok = False
        why = "no `if self.non_binding_filters()` guard found at the top of the body"
        for i, s in enumerate(stmts):
            s0 = s
            if s0.get("k") == "if":
                def atom(x):
                    if x.get("k") == "mcall" and x.get("name") == "non_binding_filters":
                        return "NB"
                    return None
                fm = bool_formula(s0["cond"], atom)
                if formula_atoms(fm) == ["NB"]:
                    tt = truth_table(fm, ["NB"])
                    nb_branch = s0["then"] if tt[(True,)] else s0.get("els")
                    other = s0.get("els") if tt[(True,)] else s0["then"]
                    if tt[(True,)] == tt[(False,)]:
                        why = "guard condition does not depend on non_binding_filters()"
                        break
                    # nothing but the guard may precede
                    pre_calls = [c for st in stmts[:i] for c in calls_in(st)]
                    if pre_calls:
                        why = "calls precede the guard: %s" % [c.get("callee") for c in pre_calls][:3]
                        break
                    # non-binding branch yields no information
                    noinfo = False
                    if nb_branch is not None:
                        vals = [strip(x["e"]) for x in walk(nb_branch) if x.get("k") == "ret" and "e" in x]
                        if not vals:
                            vals = [strip(arm_value(nb_branch))]
                        def is_noinfo(v):
                            if v.get("k") == "path" and v.get("variant") == "None":
                                return True
                            if v.get("k") == "call" and v.get("callee", "").endswith("Box::<T>::new") and v["args"]:
                                a = strip(v["args"][0])
                                return a.get("k") == "call" and (a.get("callee") or "").startswith("core::iter::") and a.get("name") == "empty"
                            return False
                        noinfo = bool(vals) and all(is_noinfo(v) for v in vals)
                    if not noinfo:
                        why = "the non-binding branch does not return None / an empty iterator"
                        break
                    # the rest of the function must be on the binding side: either guard returns, or rest in else
                    if i < len(stmts) - 1:
                        returns = any(x.get("k") == "ret" for x in walk(nb_branch))
                        if not returns:
                            why = "the non-binding branch does not return, later code runs regardless"
                            break
                    ok = True
                    break
            # statements before the guard must be call-free
            if list(calls_in(s0)):
                why = "code precedes the guard: %s" % ekey(s0)[:80]
                break
        if not ok:
            # the guard is not in the usual `if self.non_binding_filters() { return <nothing> }` shape: decide it semantically -
            # with non_binding_filters() = true and every other source of information about the vertex off limits, the method
            # must still evaluate, to "no information"
            sem = semantic_guard(C, f)
            if sem is True:
                ok = True
            elif isinstance(sem, str):
                why = "%s; evaluated with non_binding_filters() = true: %s" % (why, sem)
        R.check(ok, "r2", "guard/%s" % name, C.loc(f["sp"]),
                "VertexInfo::%s reads binding filter/edge information without the non-binding guard: %s" % (name, why))
    # first_mandatory_edge must go through mandatory_edges_with_name
    for f in C.fns:
        if f.get("impl_trait") == HINTS + "::vertex_info::VertexInfo" and f["name"] == "first_mandatory_edge":
            cs = [c.get("name") for c in calls_in(f["body"])]
            R.check("mandatory_edges_with_name" in cs and "edges_with_name" not in cs, "r2", "guard/first_mandatory_edge",
                    C.loc(f["sp"]), "first_mandatory_edge must delegate to mandatory_edges_with_name (calls: %s)" % cs)

    # ---------------- r3: NeighborInfo constructions
    sites = []
    for f in C.fns:
        if HINTS not in f["path"]:
            continue
        for n in walk(f["body"]):
            if n.get("k") == "struct" and n.get("adt") == NI and n.get("mac") is None:
                sites.append((f, n))
    R.floor("r3", "NeighborInfo constructions", len(sites), 6)
    for f, n in sites:
        sc = Scope(C, f)
        fields = {x["name"]: x["e"] for x in n["fields"]}
        in_neighbor_impl = (f.get("self_ty") or "").endswith("hints::NeighborInfo") and f.get("impl_trait", "").endswith("InternalVertexInfo")
        # what kind of edge is crossed at this site?  decided from the provenance of `neighbor_vertex`
        nv = sc.tokens(fields.get("neighbor_vertex"))
        folded = any(t == "field:trustfall_core::ir::IRFold.to_vid" for t in nv)
        regular = any(t == "field:trustfall_core::ir::IREdge.to_vid" for t in nv)
        fname = f["path"].split("::")[-1] if not f["path"].startswith("<") else f["name"]
        owner = (f.get("self_ty") or "").split("::")[-1]
        key = "%s::%s/%s" % (owner, f["name"], "fold" if folded else "edge" if regular else "?")
        if folded == regular:
            R.fail("r3", key, C.loc(n["sp"]), "cannot tell which edge kind this NeighborInfo crosses (neighbor_vertex provenance %s)" % sorted(nv))
            continue
        e = fields.get("within_optional_scope")
        ex = sc.expand(e)

        def atom(x):
            x = sc.expand(x)
            if x.get("k") == "field" and x["name"] == "within_optional_scope" and ekey(x["base"]) == "self":
                return "SELF"
            if x.get("k") == "field" and x["name"] == "optional" and x.get("adt") == "trustfall_core::ir::IREdge":
                return "EDGE"
            if x.get("k") == "call" and x.get("name") == "fold_requires_at_least_one_element":
                return "ALO"
            if x.get("k") == "lit":
                return None
            return "other:" + ekey(x)
        fm = bool_formula(ex, atom)
        atoms = formula_atoms(fm)
        resolving_this_fold = f["name"] == "edge" and folded
        if regular:
            want_atoms = ["SELF", "EDGE"] if in_neighbor_impl else ["EDGE"]
            want = (lambda env: (env.get("SELF", False) or env["EDGE"]))
        elif resolving_this_fold:
            # audited exception: the fold currently being resolved — its own filters always apply
            want_atoms = []
            want = (lambda env: False)
        else:
            want_atoms = ["SELF", "ALO"] if in_neighbor_impl else ["ALO"]
            want = (lambda env: (env.get("SELF", False) or not env["ALO"]))
        import itertools
        ok = set(atoms) <= set(want_atoms)
        detail = {"formula_atoms": atoms, "wanted_atoms": want_atoms}
        if ok:
            for vals in itertools.product([False, True], repeat=len(want_atoms)):
                env = dict(zip(want_atoms, vals))
                from tfv.tast import eval_formula
                envf = dict(env)
                for a in atoms:
                    envf.setdefault(a, False)
                if eval_formula(fm, envf) != want(env):
                    ok = False
                    detail["counterexample"] = env
                    break
        R.check(ok, "r3", key + "/within_optional_scope", C.loc(n["sp"]),
                "NeighborInfo built in %s crosses %s but within_optional_scope = %s; it must be %s — filters behind an "
                "optional edge do not bind" % (f["path"], "a fold" if folded else "an edge", ekey(ex),
                                               " || ".join({"SELF": "self.within_optional_scope", "EDGE": "edge.optional",
                                                            "ALO": "!at_least_one_element_required"}[a] for a in want_atoms) or "false"),
                detail=detail)
        # locally_non_binding_filters
        l = sc.expand(fields.get("locally_non_binding_filters"))
        if regular:
            good = l.get("k") == "call" and l.get("callee", "").endswith("check_locally_non_binding_filters_for_edge")
            if good:
                arg = sc.tokens(l["args"][0])
                good = any(t.startswith("field:trustfall_core::ir::IREdge") or t.startswith("param:") or t.startswith("variant:") for t in arg)
            R.check(good, "r3", key + "/locally_non_binding", C.loc(n["sp"]),
                    "locally_non_binding_filters for a regular edge must come from the edge's recursion depth, got %s" % ekey(l))
        else:
            R.check(l.get("k") == "lit" and l.get("v") is False, "r3", key + "/locally_non_binding", C.loc(n["sp"]),
                    "locally_non_binding_filters for a fold is expected to be false, got %s" % ekey(l))
    # the depth helper itself
    g = C.fn(HINTS + "::check_locally_non_binding_filters_for_edge")
    if g is None:
        R.fail("r3", "anchor:check_locally_non_binding", "-", "helper not found")
    else:
        sc = Scope(C, g)
        toks = sc.tokens(g["body"])
        cmpn = [comparison(x) for x in walk(g["body"]) if comparison(x)]
        ok = "field:trustfall_core::ir::Recursive.depth" in toks and "field:trustfall_core::ir::IREdge.recursive" in toks \
            and len(cmpn) == 1 and cmpn[0][0] == ">=" and strip(cmpn[0][2]).get("v") == 2
        R.check(ok, "r3", "depth-helper", C.loc(g["sp"]),
                "check_locally_non_binding_filters_for_edge must be `recursive depth >= 2` (false when not recursive)")

    # ---------------- r4
    g = None
    for f in C.fns:
        if f["path"] == HINTS + "::EdgeInfo::is_mandatory":
            g = f
    if g is None:
        R.fail("r4", "anchor:is_mandatory", "-", "EdgeInfo::is_mandatory not found")
    else:
        def atom(x):
            c = comparison(x)
            if c:
                op, l, r = c
                ks = {ekey(l), ekey(r)}
                if "self.folded" in ks and "FoldState::FoldedOptional" in ks:
                    return ("FOLDOPT", op)
            if x.get("k") == "field" and x["name"] == "optional":
                return "OPT"
            if x.get("k") == "mcall" and x.get("name") == "is_none" and ekey(x["recv"]) == "self.recursive":
                return "NOTREC"
            if x.get("k") == "mcall" and x.get("name") == "is_some" and ekey(x["recv"]) == "self.recursive":
                return "REC"
            return "other:" + ekey(x)
        fm = bool_formula(arm_value(g["body"]), atom)
        atoms = formula_atoms(fm)
        import itertools
        from tfv.tast import eval_formula
        ok = True
        bad = None
        for fo, opt, rec in itertools.product([False, True], repeat=3):
            env = {}
            for a in atoms:
                if isinstance(a, tuple) and a[0] == "FOLDOPT":
                    env[a] = fo if a[1] == "==" else (not fo)
                elif a == "OPT":
                    env[a] = opt
                elif a == "NOTREC":
                    env[a] = not rec
                elif a == "REC":
                    env[a] = rec
                else:
                    ok = False
                    bad = "unknown atom %s" % (a,)
            if not ok:
                break
            val = eval_formula(fm, env)
            # one-sided: mandatory may only be claimed when none of the three holds
            if val and (fo or opt or rec):
                ok = False
                bad = {"folded_optional": fo, "optional": opt, "recursive": rec}
                break
        if not ok and isinstance(bad, str):
            # the expression is not in a shape the formula extractor reads (named booleans, early returns ...): decide the same
            # table by abstract evaluation of the method over every (fold state, optional, recursive) combination
            ok, bad = is_mandatory_table(C, g)
        R.check(ok, "r4", "is_mandatory", C.loc(g["sp"]),
                "EdgeInfo::is_mandatory claims an edge mandatory when %s" % (bad,), detail={"atoms": [str(a) for a in atoms]})

    # ---------------- r5
    g = C.fn(HINTS + "::filters::fold_requires_at_least_one_element")
    if g is None:
        R.fail("r5", "anchor", "-", "fold_requires_at_least_one_element not found")
    else:
        ms = matches_over(g["body"], CV, 3)
        if not ms:
            R.fail("r5", "anchor:match", C.loc(g["sp"]), "no match over CandidateValue")
        else:
            vt = variant_table(ms[0], CV)
            for v in ("Impossible", "All"):
                arms = vt.get(v) or vt.get("_") or []
                val = strip(arm_value(arms[0]["body"])) if arms else {}
                R.check(val.get("k") == "lit" and val.get("v") is False, "r5", "cv/%s" % v, C.loc(ms[0]["sp"]),
                        "CandidateValue::%s must not require an element (got %s)" % (v, ekey(val)))
            for v in ("Single", "Multiple"):
                arms = vt.get(v, [])
                cm = [comparison(x) for a in arms for x in walk(a["body"]) if comparison(x)]
                ok = len(cm) == 1 and cm[0][0] == ">=" and strip(cm[0][2]).get("v") == 1
                if v == "Multiple":
                    ok = ok and any(c.get("name") == "all" for a in arms for c in calls_in(a["body"]))
                R.check(ok, "r5", "cv/%s" % v, C.loc(ms[0]["sp"]), "CandidateValue::%s must test every value `>= 1`" % v)
            bms = [m for a in vt.get("Range", []) for m in matches_over(a["body"], BOUND, 2)]
            if not bms:
                R.fail("r5", "cv/Range", C.loc(ms[0]["sp"]), "Range arm does not dispatch on the start bound")
            else:
                scr = bms[0]["scrut"]
                R.check(scr.get("k") == "mcall" and scr.get("name") == "start_bound", "r5", "range/uses-start-bound",
                        C.loc(bms[0]["sp"]), "the Range arm must look at the *start* bound (got %s)" % ekey(scr))
                bt = variant_table(bms[0], BOUND)
                inc = [comparison(x) for a in bt.get("Included", []) for x in walk(a["body"]) if comparison(x)]
                R.check(len(inc) == 1 and inc[0][0] == ">=" and strip(inc[0][2]).get("v") == 1, "r5", "range/Included",
                        C.loc(bms[0]["sp"]), "Included(x) must be `x >= 1`")
                unb = strip(arm_value(bt["Unbounded"][0]["body"])) if bt.get("Unbounded") else {}
                R.check(unb.get("v") is False, "r5", "range/Unbounded", C.loc(bms[0]["sp"]), "Unbounded start must give false")
                exc = bt.get("Excluded", [])
                lits = [strip(arm_value(a["body"])) for a in exc]
                R.check(bool(exc) and not any(x.get("k") == "lit" and x.get("v") is True and False for x in lits), "r5",
                        "range/Excluded", C.loc(bms[0]["sp"]), "Excluded arm missing")


# ---- r7: the dynamic hint pairs an operator with the tag of the *same* filter -------------------------------------------
def dynamic_hint_pairing(ctx, R):
    """VertexInfo::dynamically_required_property is abstractly evaluated on a vertex that carries two tag-based filters on the
    requested property (every ordered pair of supported operators, distinct tags): the DynamicallyResolvedValue it returns
    must take its operator and its tag from one and the same filter; and with a tag whose vertex is not computed yet it must
    not use that filter at all."""
    import itertools
    from tfv import absint as A
    from tfv import stdmodel as M
    C = ctx.core
    IRp = "trustfall_core::ir::"
    VIp = "trustfall_core::interpreter::hints::vertex_info::"
    R.rule("r7", "dynamically_required_property: operator and tag come from the same @filter; tags of vertices not yet computed are not used")
    impl = [f for f in C.fns if f.get("impl_trait") == VIp + "VertexInfo" and f["name"] == "dynamically_required_property"]
    stat = [f for f in C.fns if f.get("impl_trait") == VIp + "VertexInfo" and f["name"] == "statically_required_property"]
    if len(impl) != 1 or len(stat) != 1:
        R.fail("r7", "anchor", "-", "expected one impl of VertexInfo::dynamically_required_property / statically_required_property")
        return
    g = impl[0]
    I = M.intrinsics()
    BOUND = "core::ops::range::Bound"
    acc = {"non_binding_filters": lambda s: False, "execution_frontier": lambda s: A.Enum(BOUND, "Included", [5]),
           "current_vertex": lambda s: s.fields["vertex"], "current_component": lambda s: s.fields["component"],
           "starting_component": lambda s: s.fields["component"], "query": lambda s: A.Sym("query"),
           "query_variables": lambda s: M.MapV()}
    for nm, fn_ in acc.items():
        I[VIp + "InternalVertexInfo::" + nm] = (lambda fn_: lambda ip, n, a: fn_(A.deref(a[0])))(fn_)
    I[VIp + "VertexInfo::statically_required_property"] = lambda ip, n, a: ip.call_fn(stat[0], a)

    def contains(ip, n, a):
        rng, x = A.deref(a[0]), A.deref(a[1])
        lo, hi = [A.deref(b) for b in rng.elems]

        def ok(b, cmp_incl, cmp_excl):
            if b.variant == "Unbounded":
                return True
            v = A.deref(b.fields[0])
            return cmp_incl(v) if b.variant == "Included" else cmp_excl(v)
        return ok(lo, lambda v: v <= x, lambda v: v < x) and ok(hi, lambda v: x <= v, lambda v: x < v)
    I["core::ops::range::RangeBounds::contains"] = contains
    TY_N = A.Sym("Int?")

    def tagarg(vid, name):
        return A.Enum(IRp + "Argument", "Tag", [A.Enum(IRp + "FieldRef", "ContextField", [A.Struct(IRp + "ContextField", {
            "vertex_id": vid, "field_name": name, "field_type": TY_N})])])

    def lf():
        return A.Struct(IRp + "LocalField", {"field_name": "prop", "field_type": A.Struct("FakeType", {})})
    I["trustfall_core::ir::types::base::Type::nullable"] = lambda ip, n, a: True
    ops = ["Equals", "NotEquals", "LessThan", "LessThanOrEqual", "GreaterThan", "GreaterThanOrEqual", "OneOf"]
    bad = None
    n = 0
    try:
        for o1, o2 in itertools.permutations(ops, 2):
            for (v1, v2) in ((1, 2), (2, 9), (9, 2)):          # vid 9 lies beyond the execution frontier (5): not computed yet
                filters = A.VecV([A.Enum(IRp + "Operation", o1, [lf(), tagarg(v1, "tag_a")]),
                                  A.Enum(IRp + "Operation", o2, [lf(), tagarg(v2, "tag_b")]),
                                  A.Enum(IRp + "Operation", "Equals", [A.Struct(IRp + "LocalField", {"field_name": "other", "field_type": A.Struct("FakeType", {})}), tagarg(1, "tag_c")])])
                vertex = A.Struct(IRp + "IRVertex", {"vid": 6, "type_name": "T", "coerced_from_type": M.none(), "filters": filters})
                comp = A.Struct(IRp + "IRQueryComponent", {"root": 1, "vertices": M.MapV([(6, vertex)]), "edges": M.MapV([]), "folds": M.MapV([]), "outputs": M.MapV([])})
                recv = A.Struct("FakeVertexInfo", {"vertex": vertex, "component": comp})
                ip = A.Interp(C, I, max_steps=200000)
                res = A.deref(ip.call_fn(g, [recv, "prop"]))
                n += 1
                usable = [(o, t) for o, t, v in ((o1, "tag_a", v1), (o2, "tag_b", v2)) if v <= 5]
                if res.variant == "None":
                    if usable and bad is None:
                        bad = {"filters": [(o1, "tag_a", v1), (o2, "tag_b", v2)], "got": "no hint", "usable": usable}
                    continue
                drv = A.deref(res.fields[0])
                fld = A.deref(drv.fields["field"])
                got = (A.deref(drv.fields["operation"]).variant, A.deref(A.deref(fld.fields[0]).fields["field_name"]))
                if got not in usable and bad is None:
                    bad = {"filters": [(o1, "tag_a", v1), (o2, "tag_b", v2)], "hint_uses": got, "usable (operator, tag) pairs": usable}
    except A.Unsupported as e:
        R.fail("r7", "unanalysable", C.loc(g["sp"]), "abstract evaluation of dynamically_required_property failed: %s (fail closed)" % e)
        return
    except A.PanicReached as e:
        R.fail("r7", "panic", C.loc(g["sp"]), "dynamically_required_property panics: %s" % e.what)
        return
    R.floor("r7", "filter pairs evaluated", n, 100)
    R.check(bad is None, "r7", "operator-and-tag-from-one-filter", C.loc(g["sp"]),
            "with the filters %s on one property (frontier at vid 5) the dynamic hint is built from %s, which is not one of the usable "
            "filters %s: the candidate combines one filter's operator with another filter's tag (or a tag that is not computed yet), so an "
            "adapter that prunes by it drops matching vertices"
            % (bad and bad["filters"], bad and (bad.get("hint_uses") or bad.get("got")), bad and (bad.get("usable (operator, tag) pairs") or bad.get("usable"))),
            {"cases": n})


# ---- r6: value-level soundness of the static hints ---------------------------------------------------------------------
def static_hint_soundness(ctx, R):
    """`candidate_from_statically_evaluated_filters` (what statically_required_property returns) is abstractly evaluated for
    every single filter and every pair of filters on one property, over the order classes of the operand values, with the
    field nullable and non-nullable: every value that satisfies all the filters must be a member of the returned candidate
    (an adapter that prunes by the candidate must not lose a row). fold_requires_at_least_one_element likewise: when it says
    yes, every count that satisfies the fold's count filters is >= 1."""
    import itertools
    from tfv import absint as A
    from tfv import stdmodel as M
    from . import C06 as K
    C = ctx.core
    IRp = "trustfall_core::ir::"
    FVp = IRp + "value::FieldValue"
    R.rule("r6", "value-level soundness: every value satisfying the static filters on a property is a member of the candidate the hint returns")
    f = C.fn("trustfall_core::interpreter::hints::filters::candidate_from_statically_evaluated_filters")
    g = C.fn("trustfall_core::interpreter::hints::filters::fold_requires_at_least_one_element")
    if f is None or g is None:
        R.fail("r6", "anchor", "-", "candidate_from_statically_evaluated_filters / fold_requires_at_least_one_element not found")
        return
    I = M.intrinsics()
    I.update(K.intrinsics())

    def partition_map(ip, n, a):
        left, right = [], []
        for x in M.to_iter(a[0]):
            e = A.deref(M.call_f(ip, a[1], [x]))
            (left if e.variant == "Left" else right).append(e.fields[0])
        return A.Tuple([A.VecV(left), A.VecV(right)])
    I["itertools::Itertools::partition_map"] = partition_map
    I["const:" + FVp + "::NULL"] = lambda ip, n, a: K.NULL()
    I["as_u64"] = lambda ip, n, a: M.some(A.deref(a[0]).rank) if isinstance(A.deref(a[0]), A.Sym) and not A.deref(a[0]).null else M.none()
    I["core::option::Option::<T>::unwrap_or_default"] = lambda ip, n, a: A.deref(a[0]).fields[0] if A.deref(a[0]).variant == "Some" else 0

    def val(v):
        if isinstance(v, tuple):
            return A.Enum(FVp, "List", [A.VecV([K.mk_val(x) for x in v])])
        return K.mk_val(v)

    def flt(i, op, unary=False):
        left = A.Sym("subject")
        if unary:
            return A.Enum(IRp + "Operation", op, [left])
        vref = A.Struct(IRp + "VariableRef", {"variable_name": "v%d" % i, "variable_type": A.Sym("ty")})
        return A.Enum(IRp + "Operation", op, [left, A.Enum(IRp + "Argument", "Variable", [vref])])
    U = K.UNIVERSE + ["null"]

    def sat(x, op, v):
        if op == "IsNull":
            return x == "null"
        if op == "IsNotNull":
            return x != "null"
        if op == "Equals":
            return x == v
        if op == "NotEquals":
            return x != v
        if op in ("LessThan", "LessThanOrEqual", "GreaterThan", "GreaterThanOrEqual"):
            if x == "null" or v == "null":
                return False
            return {"LessThan": x < v, "LessThanOrEqual": x <= v, "GreaterThan": x > v, "GreaterThanOrEqual": x >= v}[op]
        if op == "OneOf":
            return x in v
        if op == "NotOneOf":
            return x not in v
        return True            # operators that produce no candidate: no constraint assumed
    singles = [("IsNull", None), ("IsNotNull", None)]
    for op in ("Equals", "NotEquals"):
        singles += [(op, 2), (op, 4), (op, "null")]
    for op in ("LessThan", "LessThanOrEqual", "GreaterThan", "GreaterThanOrEqual"):
        singles += [(op, 2), (op, 4), (op, 6)]
    singles += [("OneOf", (2, 4)), ("OneOf", (4,)), ("OneOf", ()), ("OneOf", (2, "null")), ("NotOneOf", (4,)), ("NotOneOf", (2, 4)),
                ("HasPrefix", 4)]
    sets = [(s,) for s in singles] + list(itertools.combinations(singles, 2)) + [(a, b, c) for a, b, c in itertools.combinations(singles, 3)
                                                                                   if {a[0], b[0], c[0]} & {"NotEquals", "NotOneOf"}][:400]
    bad = None
    n = 0
    none_n = 0
    try:
        for fs in sets:
            for nullable in (True, False):
                filters = A.VecV([flt(i, op, v is None) for i, (op, v) in enumerate(fs)])
                args = M.MapV([("v%d" % i, val(v)) for i, (op, v) in enumerate(fs) if v is not None])
                ip = A.Interp(C, I, max_steps=200000)
                res = A.deref(ip.call_by_type(f, [("Iterator", M.to_iter(filters)), ("BTreeMap", args), ("bool", nullable)]))
                n += 1
                if res.variant == "None":
                    none_n += 1
                    continue
                members = K.value_members(res.fields[0])
                for x in U:
                    if x == "null" and not nullable:
                        continue           # a non-nullable field never holds null
                    if all(sat(x, op, v) for op, v in fs) and x not in members and bad is None:
                        bad = {"filters": fs, "field_nullable": nullable, "value": x, "candidate": repr(A.deref(res.fields[0]))[:120]}
    except A.Unsupported as e:
        R.fail("r6", "unanalysable", C.loc(f["sp"]), "abstract evaluation of the static hint failed: %s (fail closed)" % e)
        return
    except A.PanicReached as e:
        R.fail("r6", "panic", C.loc(f["sp"]), "the static hint panics on well-typed filters: %s" % e.what)
        return
    R.floor("r6", "filter sets evaluated", n, 800)
    R.check(n - none_n > 400, "r6", "non-vacuous", C.loc(f["sp"]), "the hint returned no candidate for almost every filter set (%d of %d)" % (none_n, n))
    R.check(bad is None, "r6", "static-candidate-contains-every-satisfying-value", C.loc(f["sp"]),
            "with the filters %s on a %s property, the value %s satisfies all of them but is not in the candidate %s the hint "
            "returns: an adapter that prunes by this hint loses that row"
            % (bad and bad["filters"], "nullable" if bad and bad["field_nullable"] else "non-nullable", bad and bad["value"], bad and bad["candidate"]),
            {"filter_sets": n, "without_candidate": none_n})

    # fold count: "requires at least one element" must be sound
    badf = None
    nf = 0
    count_filters = [(op, v) for op, v in singles if op not in ("IsNull", "IsNotNull", "HasPrefix") and v != "null" and not (isinstance(v, tuple) and "null" in v)]
    count_filters += [(op, v) for op in ("Equals", "NotEquals", "LessThan", "LessThanOrEqual", "GreaterThan", "GreaterThanOrEqual") for v in (0, 1)]
    count_filters += [("OneOf", (0, 2)), ("OneOf", (1, 2)), ("NotOneOf", (0,))]
    counts = [0, 1, 2, 3, 4, 5, 6, 7]
    try:
        for fs in [(s,) for s in count_filters] + list(itertools.combinations(count_filters, 2)):
            post = []
            for i, (op, v) in enumerate(fs):
                vref = A.Struct(IRp + "VariableRef", {"variable_name": "v%d" % i, "variable_type": A.Sym("ty")})
                post.append(A.Enum(IRp + "Operation", op, [A.Enum(IRp + "FoldSpecificFieldKind", "Count"), A.Enum(IRp + "Argument", "Variable", [vref])]))
            fold = A.Struct(IRp + "IRFold", {"post_filters": A.VecV(post)})
            args = M.MapV([("v%d" % i, val(v)) for i, (op, v) in enumerate(fs)])
            ip = A.Interp(C, I, max_steps=200000)
            says = ip.truth(ip.call_by_type(g, [("BTreeMap", args), ("IRFold", fold)]))
            nf += 1
            if says:
                for c in counts:
                    if c == 0 and all(sat(c, op, v) for op, v in fs) and badf is None:
                        badf = {"count_filters": fs, "satisfying_count": c}
    except A.Unsupported as e:
        R.fail("r6", "unanalysable/fold", C.loc(g["sp"]), "abstract evaluation of fold_requires_at_least_one_element failed: %s (fail closed)" % e)
        return
    except A.PanicReached as e:
        R.fail("r6", "panic/fold", C.loc(g["sp"]), "fold_requires_at_least_one_element panics: %s" % e.what)
        return
    R.check(badf is None, "r6", "fold-needs-an-element-is-sound", C.loc(g["sp"]),
            "fold_requires_at_least_one_element answers yes for the count filters %s although a count of 0 satisfies them: the folded edge is "
            "reported as mandatory and an adapter pruning on it drops rows with an empty fold" % (badf and badf["count_filters"],), {"filter_sets": nf})
