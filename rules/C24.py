"""C24 — schemas and compiled queries can be shared across threads (RK7 witnesses + RK6 type walk)."""
from tfv import witness
from tfv.typewalk import reach, FORBIDDEN_SHARED

EXPLANATION = ("r1: Send + Sync (+ 'static) obligations for the public value types, discharged by rustc's trait "
               "solver when the witness crate is type-checked against the current tree (proof by the type checker); "
               "thorough tier also runs the compile_fail twins showing the witness can fail. r2: no local ADT reachable "
               "from those types has a field of a cell / lock / atomic / Rc / raw-pointer type, so sharing them gives "
               "read-only access and concurrent use equals sequential use. r3: every static is immutable or a OnceLock "
               "of plain data; no static mut, no thread_local.")
ASSUMPTIONS = ["foreign (std / dependency) types listed as opaque in the evidence have no interior mutability "
               "observable through the API trustfall uses (their Send+Sync-ness itself is decided by r1)"]

ROOTS = [
    "trustfall_core::schema::Schema",
    "trustfall_core::ir::indexed::IndexedQuery",
    "trustfall_core::ir::IRQuery",
    "trustfall_core::ir::IRQueryComponent",
    "trustfall_core::interpreter::InterpretedQuery",
    "trustfall_core::ir::value::FieldValue",
    "trustfall_core::ir::types::base::Type",
    "trustfall_core::ir::EdgeParameters",
    "trustfall_core::frontend::error::FrontendError",
    "trustfall_core::ir::indexed::Output",
]


def run(ctx, R):
    C = ctx.core
    R.level = "proof"
    R.rule("r1", "Send + Sync obligations type-check (witness crate against the current tree)")
    R.rule("r2", "no interior mutability / non-thread-safe sharing in any local ADT reachable from the shared value types")
    R.rule("r3", "statics are immutable or OnceLock of plain data; no `static mut`, no thread_local")

    obs = witness.obligations("sendsync")
    ok, out, cmd = witness.check("sendsync")
    discharged = len(obs) if ok else 0
    R.extra["obligations"] = len(obs)
    R.extra["discharged"] = discharged
    R.extra["checker_cmd"] = cmd + "   (in a copy of /verif/witness/sendsync path-depending on the analysed tree)"
    R.extra["trusted_base"] = ["rustc trait solver (auto traits Send/Sync)", "cargo", "the witness source lists the right types"]
    R.floor("r1", "obligations in the witness", len(obs), 12)
    if ok:
        for o in obs:
            R.ok("r1", o, {"obligation": o})
    else:
        import re
        errs = re.findall(r"error\[E\d+\]: .*", out)
        tys = re.findall(r"`(\S+)` cannot be (?:sent|shared) between threads safely", out)
        R.fail("r1", "witness-typecheck", "witness/sendsync/src/lib.rs",
               "Send/Sync obligations no longer type-check: %s %s" % (errs[:3], sorted(set(tys))[:5]), out[-3000:])
    if ctx.tier == "thorough":
        okd, p, f, outd, cmdd = witness.doctests("sendsync")
        R.check(okd and p >= 4 and f == 0, "r1", "compile_fail-twins", "witness/sendsync/src/lib.rs",
                "compile_fail witnesses / twins did not behave as expected (%d passed, %d failed)" % (p, f), outd[-2000:])
        R.extra["doctest_cmd"] = cmdd

    # r2: reachability over local ADTs
    seen_all = {}
    for root in ROOTS:
        if root not in C.adt_by_path:
            R.fail("r2", "anchor:%s" % root.split("::")[-1], "-", "root type %s not found in the ADT table" % root)
            continue
        local, foreign, bad = reach(C, root)
        seen_all[root] = (len(local), sorted(foreign))
        if bad:
            for (adt, field, fty, what) in bad:
                R.fail("r2", "%s.%s" % (adt.split("::")[-1], field), C.loc(C.adt_by_path[adt]["sp"]),
                       "%s (reachable from %s) has field `%s: %s` containing %s; shared values must not have interior "
                       "mutability or non-thread-safe pointers" % (adt, root, field, fty, what))
        else:
            R.ok("r2", "root/%s" % root.split("::")[-1], {"local_adts_reached": len(local), "foreign_types": sorted(foreign)[:30]})
    R.units["roots"] = {k.split("::")[-1]: v[0] for k, v in seen_all.items()}

    # r3: statics
    R.floor("r3", "statics inspected", len(C.statics), 1)
    for s in C.statics:
        name = s["path"].split("::")[-1]
        bad = None
        if s["mut"]:
            bad = "static mut"
        elif s["thread_local"]:
            bad = "thread_local"
        else:
            for a in s["adts"]:
                if a in FORBIDDEN_SHARED and a != "std::sync::once_lock::OnceLock":
                    bad = "type contains %s" % a
        R.check(bad is None, "r3", "static/%s" % name, C.loc(s["sp"]),
                "static %s: %s — process-wide mutable state makes concurrent use differ from sequential use" % (s["path"], bad),
                {"ty": s["ty"]})
    # thread_local! expands to a const / static with LocalKey
    for f in C.fns:
        if "thread_local" in (C.S(f["body"].get("mac")) or "") if isinstance(f.get("body"), dict) else False:
            R.fail("r3", "thread_local/%s" % f["path"].split("::")[-1], C.loc(f["sp"]), "thread_local! state in trustfall_core")
