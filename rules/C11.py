"""C11 — compiled queries are structurally well-formed."""
import itertools

from tfv import absint as A
from tfv import stdmodel as S
from tfv.tast import walk, walk_with_ctx, strip, ekey, calls_in
from tfv.prov import Scope
from . import tymodel as T

EXPLANATION = ("r1: every success path of frontend::parse converts through IndexedQuery::try_from, and the indexer's "
               "add_data_from_component is abstractly evaluated on a well-formed two-component query (accepted) and on one "
               "malformed variant per structural invariant (edge i -> vertex i+1, endpoints in the component, fold root, "
               "unique vertex/edge ids, outputs from the own component, unique output names, variables recorded with a "
               "subtype): each is rejected with its own code — so those invariants hold for every compiled query. r2 id "
               "lockstep: the edge-id generator advances only next to one advance of the vertex-id generator, the only "
               "unpaired vertex id is the root, both count up by 1 from 1. r3: complete decision table of "
               "TagHandler::reference_tag over defining/using component paths x vertex order (defined-after-use and "
               "defined-inside-fold rejected; import recorded at exactly the component that first leaves the defining "
               "path). r4: begin/end_subcomponent are paired around the fold's component construction and the popped list "
               "becomes IRFold::imported_tags. r5: variable collection reads vertex filters and fold post-filters, recurses "
               "into folds, and turns a failed type intersection into an error.")
ASSUMPTIONS = ["std BTreeMap / Vec as modelled in tfv/stdmodel.py; Type model as in C17",
               "'folds precede their contents' and 'edges go from lower to higher vid' beyond what r1+r2 imply are not decided"]

IR = "trustfall_core::ir::"
IDX = "trustfall_core::ir::indexed::"
FE = "trustfall_core::frontend::"
OPTION = "core::option::Option"
INT_NN = T.named("Int", False)
INT_N = T.named("Int", True)


def none():
    return A.Enum(OPTION, "None")


def cf(vid, name="p"):
    return A.Struct(IR + "ContextField", {"vertex_id": vid, "field_name": name, "field_type": INT_NN})


def vertex(vid, filters=()):
    return A.Struct(IR + "IRVertex", {"vid": vid, "type_name": "T", "coerced_from_type": none(), "filters": A.VecV(list(filters))})


def edge(eid, a, b):
    return A.Struct(IR + "IREdge", {"eid": eid, "from_vid": a, "to_vid": b, "edge_name": "e", "optional": False, "recursive": none()})


def fold(eid, a, b, comp, fso=None):
    return A.Struct(IR + "IRFold", {"eid": eid, "from_vid": a, "to_vid": b, "edge_name": "f", "component": comp,
                                    "imported_tags": A.VecV([]), "post_filters": A.VecV([]),
                                    "fold_specific_outputs": S.MapV(list((fso or {}).items()))})


def component(root, vertices, edges=(), folds=(), outputs=None):
    return A.Struct(IR + "IRQueryComponent", {"root": root, "vertices": S.MapV([(v.fields["vid"], v) for v in vertices]),
                                              "edges": S.MapV(list(edges)), "folds": S.MapV(list(folds)),
                                              "outputs": S.MapV(list((outputs or {}).items()))})


def var_filter(name, ty):
    vref = A.Struct(IR + "VariableRef", {"variable_name": name, "variable_type": ty})
    return A.Enum(IR + "Operation", "Equals", [A.Struct(IR + "LocalField", {"field_name": "p", "field_type": INT_NN}),
                                               A.Enum(IR + "Argument", "Variable", [vref])])


COUNT = lambda: A.Enum(IR + "FoldSpecificFieldKind", "Count")


def base_query(**kw):
    """Well-formed: A{1 -e1-> 2 -fold e2-> B{3}} ; overridable pieces for the malformed variants."""
    b_vertices = kw.get("b_vertices", [vertex(3)])
    b = component(kw.get("b_root", 3), b_vertices, edges=kw.get("b_edges", ()), folds=kw.get("b_folds", ()),
                  outputs=kw.get("b_outputs", {"b": cf(3)}))
    f = fold(kw.get("fold_key_eid", 2), kw.get("fold_from", 2), kw.get("fold_to", 3), b, kw.get("fso", {"cnt": COUNT()}))
    a_vertices = kw.get("a_vertices", [vertex(1, [var_filter("x", kw.get("use_type", INT_NN))]), vertex(2)])
    a_edges = kw.get("a_edges", [(1, edge(1, 1, 2))])
    a_folds = kw.get("a_folds", [(kw.get("fold_key_eid", 2), f)])
    a = component(kw.get("a_root", 1), a_vertices, edges=a_edges, folds=a_folds, outputs=kw.get("a_outputs", {"a": cf(1)}))
    variables = S.MapV(list(kw.get("variables", {"x": INT_NN}).items()))
    return a, variables


def variants():
    v = []
    v.append(("well-formed", {}, "Ok"))
    v.append(("root vertex missing", {"a_root": 9}, -1))
    v.append(("vertex id used in two components", {"b_vertices": [vertex(3), vertex(2)]}, 0))
    v.append(("variable recorded with a non-subtype", {"variables": {"x": INT_N}}, -2))
    v.append(("variable not recorded", {"variables": {}}, -3))
    v.append(("output from an unknown vertex", {"a_outputs": {"a": cf(9)}}, 1))
    v.append(("output from another component's vertex", {"b_outputs": {"b": cf(1)}}, 2))
    v.append(("duplicate output name", {"b_outputs": {"a": cf(3)}}, 3))
    v.append(("edge i does not lead to vertex i+1", {"a_edges": [(5, edge(5, 1, 2))]}, 4))
    v.append(("edge from an unknown vertex", {"a_edges": [(1, edge(1, 9, 2))]}, 5))
    v.append(("edge from another component's vertex", {"b_vertices": [vertex(3), vertex(4)], "b_edges": [(3, edge(3, 1, 4))]}, 6))
    v.append(("edge to an unknown vertex", {"a_vertices": [vertex(1, [var_filter("x", INT_NN)])], "a_folds": []}, 7))
    v.append(("edge to another component's vertex", {"a_vertices": [vertex(1, [var_filter("x", INT_NN)]), vertex(2), vertex(4)],
                                                       "b_edges": [(3, edge(3, 3, 4))]}, 8))
    v.append(("fold i does not lead to vertex i+1", {"fold_key_eid": 7}, 10))
    v.append(("fold from an unknown vertex", {"fold_from": 9}, 11))
    inner = fold(3, 1, 4, component(4, [vertex(4)]), {})
    v.append(("fold from another component's vertex", {"b_folds": [(3, inner)]}, 12))
    v.append(("fold target is not the root of its component", {"b_root": 4, "b_vertices": [vertex(3), vertex(4)], "b_outputs": {}}, 13))
    v.append(("edge and fold with the same id", {"a_vertices": [vertex(1, [var_filter("x", INT_NN)]), vertex(2), vertex(3)],
                                                   "a_edges": [(1, edge(1, 1, 2)), (2, edge(2, 2, 3))]}, 14))
    v.append(("fold-specific output name already used", {"fso": {"a": COUNT()}}, 15))
    return v


def run(ctx, R):
    C = ctx.core
    R.rule("r1", "parse -> IndexedQuery::try_from on every success path; each structural invariant violation is rejected by the indexer")
    R.rule("r2", "vertex/edge id generators advance in lockstep, +1 from 1")
    R.rule("r3", "reference_tag decision table (use-before-definition, defined-inside-fold, import level)")
    R.rule("r4", "begin/end_subcomponent paired around make_query_component; popped list -> IRFold::imported_tags")
    R.rule("r5", "variables: vertex filters + fold post-filters, recursion into folds, intersect failure -> error")
    intr = S.intrinsics()
    intr.update(T.intrinsics())
    intr[IR + "FoldSpecificFieldKind::field_type"] = lambda ip, n, a: INT_NN
    # Vid / Eid are modelled by their payload (a positive integer): constructing one from a payload is the identity
    intr[IR + "Vid::new"] = lambda ip, n, a: A.deref(a[0])
    intr[IR + "Eid::new"] = lambda ip, n, a: A.deref(a[0])

    # ---------------- r1
    p = C.fn(FE + "parse")
    if p is None:
        R.fail("r1", "anchor:parse", "-", "frontend::parse not found")
    else:
        conv = [c for c in calls_in(p["body"]) if c.get("name") in ("try_into", "try_from") and
                "IndexedQuery" in ((C.S(c.get("ty")) or "") + (c.get("resolved") or ""))]
        oks = [n for n in walk(p["body"]) if n.get("k") == "ctor" and n.get("variant") == "Ok"]
        sc = Scope(C, p)
        flows = all(any("try_into" in t or "try_from" in t for t in sc.tokens(o["args"][0]) if t.startswith("call:")) for o in oks)
        R.check(bool(conv) and bool(oks) and flows, "r1", "parse-goes-through-indexer", C.loc(p["sp"]),
                "frontend::parse must build its result through IndexedQuery::try_from (conversion calls %d, Ok values %d, flows %s)"
                % (len(conv), len(oks), flows))
    f = C.fn(IDX + "add_data_from_component")
    if f is None:
        R.fail("r1", "anchor:indexer", "-", "add_data_from_component not found")
    else:
        codes_in_source = sorted({strip(n["args"][0]).get("v") if strip(n["args"][0]).get("k") == "lit" else
                                  (-strip(strip(n["args"][0])["e"]).get("v") if strip(n["args"][0]).get("k") == "un" else None)
                                  for n in walk(f["body"]) if n.get("k") == "ctor" and n.get("variant") == "GetBetterVariant"},
                                 key=lambda x: (x is None, x))
        R.units["rejection_codes_in_source"] = codes_in_source
        for name, kw, want in variants():
            key = "indexer/%s" % name
            try:
                a, variables = base_query(**kw)
                vids, eids, outs = S.MapV(), S.MapV(), S.MapV()
                ip = A.Interp(C, intrinsics=intr, max_steps=60000)
                res = A.deref(ip.call_by_type(f, [("BTreeMap<trustfall_core::ir::Vid", vids), ("BTreeMap<trustfall_core::ir::Eid", eids), ("indexed::Output", outs), ("types::base::Type", variables), ("Arc<trustfall_core::ir::IRQueryComponent", a), ("Vec<bool>", A.VecV([]))]))
                if res.variant == "Ok":
                    got = "Ok"
                else:
                    got = A.deref(A.deref(res.fields[0]).fields[0])
            except A.Unsupported as e:
                R.fail("r1", key + "/unanalysable", C.loc(f["sp"]), "cannot evaluate the indexer abstractly: %s (fail closed)" % e)
                continue
            except A.PanicReached as e:
                got = "PANIC:" + e.what
            if want == "Ok":
                okmaps = got == "Ok" and sorted(k for k, _ in ((A.deref(k), v) for k, v in vids.items())) == [1, 2, 3] and \
                    sorted(A.deref(k) for k, _ in outs.items()) == ["a", "b", "cnt"] and sorted(A.deref(k) for k, _ in eids.items()) == [1, 2]
                R.check(okmaps, "r1", key, C.loc(f["sp"]), "a well-formed query is not indexed correctly: result %s, vids %s, outputs %s"
                        % (got, [k for k, _ in vids.items()], [k for k, _ in outs.items()]))
            else:
                R.check(got == want, "r1", key, C.loc(f["sp"]),
                        "a query with `%s` must be rejected with code %s; the indexer returned %s — the engine relies on this invariant"
                        % (name, want, got), {"code": want})

    # ---------------- r2
    g = C.fn(FE + "fill_in_vertex_data")
    m = C.fn(FE + "make_ir_for_query")
    if g is None or m is None:
        R.fail("r2", "anchor", "-", "fill_in_vertex_data / make_ir_for_query not found")
    else:
        def id_advances(fn):
            out = []
            for n, anc in walk_with_ctx(fn["body"]):
                if n.get("k") == "mcall" and n.get("name") == "next" and n.get("trait", "").endswith("iterator::Iterator"):
                    parent = anc[-1] if anc else {}
                    ty = C.S(parent.get("ty")) or ""
                    kind = "Vid" if ty == IR + "Vid" else "Eid" if ty == IR + "Eid" else None
                    if kind:
                        blk = idx = None
                        for i in range(len(anc) - 1, -1, -1):
                            if anc[i].get("k") == "block":
                                for j, s in enumerate(anc[i].get("stmts", [])):
                                    if s is (anc[i + 1] if i + 1 < len(anc) else n):
                                        blk, idx = anc[i], j
                                break
                        out.append((kind, n, blk, idx))
            return out
        adv = id_advances(g)
        vs = [a for a in adv if a[0] == "Vid"]
        es = [a for a in adv if a[0] == "Eid"]
        R.floor("r2", "edge-id advances", len(es), 1)
        for kind, n, blk, idx in es:
            paired = [v for v in vs if v[2] is blk and v[3] is not None and idx is not None and abs(v[3] - idx) == 1]
            R.check(len(paired) == 1, "r2", "eid-advance-paired", C.loc(n["sp"]),
                    "an edge id is drawn without a vertex id drawn in the adjacent statement: edge i would no longer lead to vertex i+1")
        R.check(len(vs) == len(es), "r2", "no-unpaired-vid-in-walk", C.loc(g["sp"]),
                "fill_in_vertex_data draws %d vertex ids and %d edge ids; they must advance in lockstep" % (len(vs), len(es)))
        root_adv = id_advances(m)
        R.check([a[0] for a in root_adv] == ["Vid"], "r2", "root-vid-only", C.loc(m["sp"]),
                "make_ir_for_query must draw exactly one vertex id (the root) and no edge id, got %s" % [a[0] for a in root_adv])
        other = []
        for fn in C.fns:
            if "trustfall_core::frontend::" in fn["path"] and fn["path"] not in (g["path"], m["path"]) and "::tests::" not in fn["path"]:
                other += [(fn["path"], a[0]) for a in id_advances(fn)]
        R.check(not other, "r2", "no-other-advances", "-", "ids are also drawn in %s" % other)
        succ = [c for c in calls_in(m["body"]) if c.get("name") == "successors"]
        ones = 0
        for c in succ:
            lits = [x.get("v") for x in walk(c) if x.get("k") == "lit" and x.get("lk") == "int"]
            adds = [x for x in calls_in(c) if x.get("name") in ("checked_add",)]
            if lits.count(1) >= 2 and len(adds) == 1 and set(lits) == {1}:
                ones += 1
        R.check(len(succ) == 2 and ones == 2, "r2", "generators-start-at-1-step-1", C.loc(m["sp"]),
                "both id generators must be successors(1, |x| x + 1) (found %d generators, %d of that shape)" % (len(succ), ones))

    # ---------------- r3
    rt = [x for x in C.fns if x["path"].startswith(FE + "tags::TagHandler") and x["name"] == "reference_tag"]
    if not rt:
        R.fail("r3", "anchor", "-", "TagHandler::reference_tag not found")
    else:
        rt = rt[0]
        CP = FE + "util::ComponentPath"
        def path(p):
            return A.Struct(CP, {"path": A.VecV(list(p))})
        def_paths = [(1,), (1, 3), (1, 5), (1, 3, 6)]
        use_paths = [(1,), (1, 3), (1, 3, 6), (1, 5)]
        n = 0
        bad = None
        try:
            for dp in def_paths:
                for up in use_paths:
                    for rel, pre_used in [(r_, p_) for r_ in ("before", "same", "after", "fold-before", "fold-same", "fold-next", "fold-after")
                                          for p_ in (False, True)]:
                        # pre_used: the same tag was already referenced elsewhere in the query (e.g. from a sibling fold);
                        # the decision and the import bookkeeping must not depend on that history
                        use_vid = 10
                        if rel.startswith("fold-"):
                            # a fold-specific tag (`@fold @transform(op: "count") @tag`): its value exists once the fold has been
                            # computed, i.e. from the fold's root vertex on; vertex and edge ids advance in lockstep (r2), so the
                            # fold's edge id is its root vid - 1 - the vertex with that vid is resolved *before* the fold
                            dvid = {"fold-before": 7, "fold-same": 10, "fold-next": 11, "fold-after": 13}[rel]
                            field = A.Enum(IR + "FieldRef", "FoldSpecificField", [A.Struct(IR + "FoldSpecificField", {
                                "fold_eid": dvid - 1, "fold_root_vid": dvid, "kind": A.Enum(IR + "FoldSpecificFieldKind", "Count")})])
                        else:
                            dvid = {"before": 7, "same": 10, "after": 12}[rel]
                            field = A.Enum(IR + "FieldRef", "ContextField", [cf(dvid)])
                        entry = A.Struct(FE + "tags::TagEntry", {"name": "t", "field": field, "path": path(dp)})
                        stack = A.VecV([A.Tuple([r, A.VecV([])]) for r in up[1:]])
                        th = A.Struct(FE + "tags::TagHandler", {"tags": S.MapV([("t", entry)]), "used_tags": S.SetV(["t"] if pre_used else []),
                                                                "component_imported_tags": stack})
                        ip = A.Interp(C, intrinsics=intr)
                        try:
                            res = A.deref(ip.call_by_type(rt, [("TagHandler", th), ("str", "t"), ("ComponentPath", path(up)), ("Vid", use_vid)]))
                            got = "Ok" if res.variant == "Ok" else A.deref(res.fields[0]).variant
                        except A.PanicReached as e:
                            got = "PANIC:" + e.what
                        is_prefix = up[:len(dp)] == dp
                        if not is_prefix:
                            want = "TagDefinedInsideFold"
                        elif dvid > use_vid:
                            want = "TagUsedBeforeDefinition"
                        else:
                            want = "Ok"
                        imported = [len(A.deref(A.deref(t).elems[1]).items) for t in stack.items]
                        want_imp = [0] * len(stack.items)
                        if want == "Ok" and dp != up:
                            want_imp[len(dp) - 1] = 1
                        n += 1
                        used = len(A.deref(th.fields["used_tags"]).d) == 1
                        if (got != want or imported != want_imp or used != (want == "Ok" or pre_used)) and bad is None:
                            bad = {"defined_in": dp, "used_in": up, "definition": rel + " use", "got": got, "want": want,
                                   "imports": imported, "want_imports": want_imp, "tag_already_used_elsewhere": pre_used}
            ip = A.Interp(C, intrinsics=intr)
            th = A.Struct(FE + "tags::TagHandler", {"tags": S.MapV(), "used_tags": S.SetV(), "component_imported_tags": A.VecV([])})
            res = A.deref(ip.call_by_type(rt, [("TagHandler", th), ("str", "nope"), ("ComponentPath", path((1,))), ("Vid", 3)]))
            undefined_ok = res.variant == "Err" and A.deref(res.fields[0]).variant == "UndefinedTag"
        except A.Unsupported as e:
            R.fail("r3", "unanalysable", C.loc(rt["sp"]), "cannot evaluate reference_tag abstractly: %s (fail closed)" % e)
            bad = "skip"
        if bad != "skip":
            R.extra["r3_cases"] = n
            R.check(bad is None, "r3", "table", C.loc(rt["sp"]), "reference_tag decides wrongly: %s" % (bad,), {"cases": n})
            R.check(undefined_ok, "r3", "undefined-tag", C.loc(rt["sp"]), "an undefined tag must yield UndefinedTag")
            for cls in ("same-component", "imported-one-level", "imported-two-levels", "sibling-fold", "defined-deeper"):
                R.ok("r3", "class/%s" % cls)
    mf = C.fn(FE + "filters::make_filter_expr")
    if mf is not None:
        errs = {n.get("variant") for n in walk(mf["body"]) if n.get("k") in ("pvariant",) or False}
        pats = set()
        for n in walk(mf["body"]):
            if n.get("k") == "match":
                for a in n["arms"]:
                    from tfv.tast import pat_variants
                    for q in pat_variants(a["pat"]):
                        for s in [q] + list(q.get("sub", []) if isinstance(q.get("sub"), list) else []):
                            if s.get("k") == "pvariant" and (s.get("adt") or "").endswith("TagLookupError"):
                                pats.add(s["variant"])
        R.check(pats >= {"UndefinedTag", "TagUsedBeforeDefinition", "TagDefinedInsideFold"}, "r3", "lookup-errors-become-errors",
                C.loc(mf["sp"]), "make_filter_expr must map all three tag lookup errors to frontend errors (handles %s)" % sorted(pats))

    # ---------------- r4
    mk = C.fn(FE + "make_fold")
    if mk is None:
        R.fail("r4", "anchor", "-", "make_fold not found")
    else:
        pos, order = {}, []
        for i, (n, anc) in enumerate(walk_with_ctx(mk["body"])):
            pos[id(n)] = i
            order.append(n)
        def first(name):
            return next((n for n in order if n.get("k") in ("call", "mcall") and n.get("name") == name), None)
        b, e, c = first("begin_subcomponent"), first("end_subcomponent"), first("make_query_component")
        ok = b is not None and e is not None and c is not None and pos[id(b)] < pos[id(c)] < pos[id(e)]
        same_vid = ok and ekey(b["args"][0]) == ekey(e["args"][0])
        R.check(ok and same_vid, "r4", "begin-build-end", C.loc(mk["sp"]),
                "make_fold must call tags.begin_subcomponent(v), then build the component, then tags.end_subcomponent(v)")
        # lockstep of the two component stacks: ComponentPath (push/pop) and the tag handler's (begin/end_subcomponent) must
        # be advanced and unwound on exactly the same paths - an early exit between the two unwinding calls leaves them out
        # of sync and the tag handler's own assert_eq! fires on the next sibling fold
        stmts = mk["body"].get("stmts", [])

        def stmt_of(pred):
            hits = [i for i, s in enumerate(stmts) if any(pred(x) for x in walk(s))]
            return hits[0] if len(hits) == 1 else None
        is_call = lambda nm, owner: (lambda x: x.get("k") in ("call", "mcall") and x.get("name") == nm and owner in (x.get("callee") or ""))
        i_push, i_pop = stmt_of(is_call("push", "ComponentPath")), stmt_of(is_call("pop", "ComponentPath"))
        i_beg, i_end = stmt_of(is_call("begin_subcomponent", "TagHandler")), stmt_of(is_call("end_subcomponent", "TagHandler"))
        if None in (i_push, i_pop, i_beg, i_end):
            R.fail("r4", "stack-lockstep", C.loc(mk["sp"]), "make_fold must advance and unwind ComponentPath and the tag handler's component "
                   "stack exactly once each at statement level (found push/pop/begin/end at %s)" % ([i_push, i_pop, i_beg, i_end],))
        else:
            def exits_between(i, j):
                lo, hi = min(i, j), max(i, j)
                for s in stmts[lo + 1:hi + 1]:
                    # an exit in the later statement itself counts only if it precedes the call; a `?`/return anywhere is enough to alarm
                    if any(x.get("k") == "ret" for x in walk(s)):
                        return True
                return False
            R.check(not exits_between(i_push, i_beg) and abs(i_push - i_beg) == 1, "r4", "stack-lockstep/advance", C.loc(mk["sp"]),
                    "component_path.push and tags.begin_subcomponent must be adjacent statements with no early exit between them")
            R.check(not exits_between(i_pop, i_end), "r4", "stack-lockstep/unwind", C.loc(mk["sp"]),
                    "an early exit (`?` / return) lies between component_path.pop and tags.end_subcomponent: on that path one component "
                    "stack is unwound and the other is not, and the next sibling @fold trips the tag handler's assertion (frontend panic)")
            R.check(i_push < i_pop and i_beg < i_end, "r4", "stack-lockstep/order", C.loc(mk["sp"]), "push/begin must precede pop/end")
        sc = Scope(C, mk)
        st = [n for n in walk(mk["body"]) if n.get("k") == "struct" and n.get("adt") == IR + "IRFold"]
        imp = None
        for s in st:
            for fl in s["fields"]:
                if fl["name"] == "imported_tags":
                    imp = fl["e"]
        R.check(imp is not None and any(t.endswith("end_subcomponent") for t in sc.tokens(imp) if t.startswith("call:")), "r4",
                "imports-from-end_subcomponent", C.loc(mk["sp"]), "IRFold::imported_tags must be the list returned by tags.end_subcomponent")

    # ---------------- r5
    fv = C.fn(FE + "fill_in_query_variables")
    if fv is None:
        R.fail("r5", "anchor", "-", "fill_in_query_variables not found")
    else:
        variable_type_table(ctx, R, fv)
        fields = {"%s.%s" % ((n.get("adt") or "").split("::")[-1], n["name"]) for n in walk(fv["body"]) if n.get("k") == "field"}
        for need in ("IRVertex.filters", "IRFold.post_filters", "IRQueryComponent.folds", "IRFold.component"):
            R.check(need in fields, "r5", "reads/%s" % need, C.loc(fv["sp"]), "variable collection does not read %s: variable uses there go unrecorded" % need)
        rec = [c for c in calls_in(fv["body"]) if c.get("callee") == fv["path"]]
        R.check(len(rec) == 1, "r5", "recurses-into-folds", C.loc(fv["sp"]), "variable collection must recurse into fold components")
        inter = [n for n in walk(fv["body"]) if n.get("k") == "match" and n["scrut"].get("name") == "intersect"]
        okerr = False
        for mm in inter:
            for a in mm["arms"]:
                if a["pat"].get("variant") == "None":
                    okerr = any(c.get("name") == "push" for c in calls_in(a["body"]))
        R.check(okerr, "r5", "intersect-failure-is-error", C.loc(fv["sp"]), "a failed type intersection must be pushed as an error")


def variable_type_table(ctx, R, fv):
    """r5 (semantic): fill_in_query_variables is abstractly evaluated (bit-level Type representation) on components in which
    one variable is used at two places - two vertices, a vertex and a fold's count filter, a vertex and a vertex inside a
    fold - with every ordered pair of inferred types of list depth <= 1 (+ some of depth 2): the recorded type must be the
    greatest common subtype of the uses (order-independent), or an IncompatibleVariableTypeRequirements error when none exists."""
    from . import tybits as B
    C = ctx.core
    I = B.intrinsics()

    class EntryV:
        def __init__(self, m, k):
            self.m, self.k = m, k

    def entry(ip, n, a):
        return EntryV(A.deref(a[0]), a[1])

    def or_insert_with(ip, n, a):
        e = A.deref(a[0])
        if e.m.get(e.k) is None:
            e.m.insert(e.k, S.call_f(ip, a[1], []))
        return A.Ref(lambda: e.m.get(e.k), lambda v: e.m.insert(e.k, v))
    I["alloc::collections::btree::map::BTreeMap::<K, V, A>::entry"] = entry
    I["alloc::collections::btree::map::entry::Entry::<'a, K, V, A>::or_insert_with"] = or_insert_with
    I["alloc::string::ToString::to_string"] = lambda ip, n, a: "<text>"

    def use(name, tv):
        vref = A.Struct(IR + "VariableRef", {"variable_name": name, "variable_type": B.concrete(tv)})
        return A.Enum(IR + "Operation", "Equals", [A.Struct(IR + "LocalField", {"field_name": "p", "field_type": B.concrete(INT_N)}),
                                                   A.Enum(IR + "Argument", "Variable", [vref])])

    def count_use(name, tv):
        vref = A.Struct(IR + "VariableRef", {"variable_name": name, "variable_type": B.concrete(tv)})
        return A.Enum(IR + "Operation", "GreaterThan", [COUNT(), A.Enum(IR + "Argument", "Variable", [vref])])
    types = [t for t in T.all_types(bases=("Int",), max_depth=1)] + [T.listof(T.listof(T.named("Int", True), False), True), T.named("Float", False)]
    bad = None
    n = 0
    try:
        for t1, t2 in itertools.product(types, types):
            for place in ("two vertices", "vertex then fold count filter", "vertex then vertex inside a fold"):
                if place == "two vertices":
                    comp = component(1, [vertex(1, [use("x", t1)]), vertex(2, [use("x", t2)])], edges=[(1, edge(1, 1, 2))])
                elif place == "vertex then fold count filter":
                    f = fold(2, 1, 3, component(3, [vertex(3)]))
                    f.fields["post_filters"] = A.VecV([count_use("x", t2)])
                    comp = component(1, [vertex(1, [use("x", t1)])], folds=[(2, f)])
                else:
                    f = fold(2, 1, 3, component(3, [vertex(3, [use("x", t2)])]))
                    comp = component(1, [vertex(1, [use("x", t1)])], folds=[(2, f)])
                variables = S.MapV()
                ip = A.Interp(C, I, max_steps=200000)
                res = A.deref(ip.call_by_type(fv, [("BTreeMap", A.Ref(lambda variables=variables: variables, lambda v: None)), ("IRQueryComponent", comp)]))
                n += 1
                want = T.meet(t1, t2)
                rec = variables.get("x")
                try:
                    got = B.decode(rec) if rec is not None else None
                except ValueError:
                    got = None
                if want is None:
                    ok = res.variant == "Err"
                else:
                    ok = res.variant == "Ok" and got is not None and got.key() == want.key()
                if not ok and bad is None:
                    bad = {"uses": (repr(t1), repr(t2)), "where": place, "result": res.variant, "recorded": repr(got), "expected": repr(want) if want else "error"}
    except A.Unsupported as e:
        R.fail("r5", "unanalysable/table", C.loc(fv["sp"]), "abstract evaluation of fill_in_query_variables failed: %s (fail closed)" % e)
        return
    except A.PanicReached as e:
        R.fail("r5", "panic/table", C.loc(fv["sp"]), "fill_in_query_variables panics: %s" % e.what)
        return
    R.floor("r5", "variable-use cases evaluated", n, 150)
    R.check(bad is None, "r5", "recorded-type-is-meet-of-uses", C.loc(fv["sp"]),
            "a variable used with the types %s (%s) is recorded as %s (result %s); every use requires the greatest common subtype %s - "
            "otherwise ill-typed argument values are accepted for one of the uses" % (bad and bad["uses"], bad and bad["where"], bad and bad["recorded"],
                                                                                   bad and bad["result"], bad and bad["expected"]), {"cases": n})
