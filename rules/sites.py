"""Shared site discovery for the interpreter rules (C02, C03, C05, C21)."""
from tfv.tast import walk, walk_with_ctx, strip, ekey

ADAPTER = "trustfall_core::interpreter::Adapter"
CARRIER = "trustfall_core::interpreter::execution::QueryCarrier"
ENGINE_MODS = ("trustfall_core::interpreter::execution::", "trustfall_core::interpreter::filtering::")
RESOLVERS = ("resolve_starting_vertices", "resolve_property", "resolve_neighbors", "resolve_coercion")


def engine_fns(C, extra=()):
    out = []
    for f in C.fns:
        p = f["path"]
        if "::tests::" in p or "::test::" in p:
            continue
        if any(m in p for m in ENGINE_MODS + tuple(extra)):
            out.append(f)
    return out


def preorder(body):
    """node id -> pre-order index, and list of (node, ancestors)."""
    pos = {}
    lst = []
    for i, (n, anc) in enumerate(walk_with_ctx(body)):
        pos[id(n)] = i
        lst.append((n, anc))
    return pos, lst


def enclosing_closure(anc):
    for a in reversed(anc):
        if a.get("k") == "closure":
            return a
    return None


def adapter_calls(C, fns):
    """[(fn, node, ancestors)] for every call of an Adapter resolver method on a generic adapter."""
    out = []
    for f in fns:
        for n, anc in walk_with_ctx(f["body"]):
            if n.get("k") in ("mcall", "call") and n.get("trait") == ADAPTER and n.get("name") in RESOLVERS:
                out.append((f, n, anc))
    return out


def is_carrier_query_place(n):
    n = strip(n)
    return n.get("k") == "field" and n.get("name") == "query" and n.get("adt") == CARRIER


def carrier_takes(C, f):
    """[(node, ancestors, carrier expr key)] for `<carrier>.query.take()`"""
    out = []
    for n, anc in walk_with_ctx(f["body"]):
        if n.get("k") == "mcall" and n.get("name") == "take" and (n.get("callee") or "").startswith("core::option::Option") \
                and is_carrier_query_place(n["recv"]):
            out.append((n, anc, ekey(strip(n["recv"])["base"])))
    return out


def carrier_restores(C, f):
    """[(assign node, ancestors, carrier key)] for `<carrier>.query = Some(..)`"""
    out = []
    for n, anc in walk_with_ctx(f["body"]):
        if n.get("k") == "assign" and "op" not in n and is_carrier_query_place(n["place"]):
            out.append((n, anc, ekey(strip(n["place"])["base"])))
    return out


def stmt_in_block(anc, node):
    """(block, statement index) of the innermost block whose direct statement contains node."""
    chain = list(anc) + [node]
    for i in range(len(chain) - 2, -1, -1):
        b = chain[i]
        if b.get("k") == "block":
            child = chain[i + 1]
            stmts = b.get("stmts", [])
            for j, s in enumerate(stmts):
                if s is child:
                    return b, j
            if b.get("tail") is child:
                return b, len(stmts)
    return None, None


def is_ctx_iter_type(s):
    """Type string of an iterator over contexts / (context, x) pairs / adapter vertices in the engine."""
    if not s:
        return False
    import re
    return ("Iterator<Item = trustfall_core::interpreter::DataContext<" in s
            or "Iterator<Item = (trustfall_core::interpreter::DataContext<" in s
            or ("core::iter::adapters::" in s and "DataContext<" in s)
            # the adapter's own vertex iterator, under whatever lifetime name rustc prints ('query, '_, 'a)
            or re.search(r"Iterator<Item = <\w+ as trustfall_core::interpreter::Adapter<'\w+>>::Vertex>", s) is not None
            or "Iterator<Item = Vertex>" in s)
