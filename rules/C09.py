"""C09 — executing an accepted query never panics (RK3 inventory + guards)."""
from tfv.tast import walk, walk_with_ctx, strip, ekey, calls_in
from tfv.core import Report
from . import rk3, panic_audit

EXPLANATION = ("r1 inventory: every panic-capable construct reachable from interpret_ir (pipeline construction, everything the "
               "returned iterator runs) and from the hint API an adapter may call during execution (VertexInfo methods, "
               "ResolveEdgeInfo::edge/destination, DynamicallyResolvedValue::resolve/resolve_with) must have an audit entry "
               "(class + reason) or be a listed known finding. r2 guards the audit relies on: G-ARGS (interpret_ir validates "
               "the arguments first and returns the error; C12 decides what that validation accepts), G-CARRIER (C02's bracket "
               "rule, re-evaluated here), G-OPTYPES (filter operand types are validated in the frontend; C10 r3), G-ARGS-TABLE "
               "(C12 r1/r2 re-evaluated). r3: the comparison functions never panic on operand pairs the frontend admits (C07's "
               "tables). r4: the @recurse entry closure and exit closure, evaluated in sequence on every arriving context shape "
               "(source vertex present / absent x suspension stack), never panic and restore the context.")
ASSUMPTIONS = ["the adapter honours the documented contract (CONTRACT entries) and returns values of the declared property types",
               "the reasons in the audit table were made by reading; the check decides set equality and guard presence"]

T = "trustfall_core::"
H = T + "interpreter::hints::"
AUDIT = dict(panic_audit.C09)


def hint_entries(C):
    out = []
    for f in C.fns:
        if f.get("impl_trait") == H + "vertex_info::VertexInfo":
            out.append(f["path"])
        elif f["path"] in (H + "ResolveEdgeInfo::edge", H + "ResolveEdgeInfo::destination"):
            out.append(f["path"])
        elif f["path"].startswith(H + "dynamic::DynamicallyResolvedValue") and f.get("name") in ("resolve", "resolve_with"):
            out.append(f["path"])
    return out


def recursion_suspension_pairing(ctx, R):
    """r4: DataContext::ensure_unsuspended pops the suspension stack and unwraps (audited as INVARIANT: "whoever is un-suspended was
    suspended, or carries a marker"). The invariant is made by two closures that sit far apart: the one expand_recursive_edge
    applies to every context on entry, and the one post_process_recursive_expansion applies on exit. They are evaluated in
    sequence on the context shapes that can arrive - the recursion's source vertex present, or absent (a @recurse inside an
    @optional that does not exist for this row), with an empty or non-empty stack: the composition must not panic and must hand
    back the context as it came (same active vertex, same stack)."""
    from tfv import absint as A
    from tfv import stdmodel as M
    C = ctx.core
    X = T + "interpreter::execution::"
    R.rule("r4", "@recurse entry / exit closures are paired: entry then exit never panics and restores the context, also when the source vertex is absent")
    er, pp = C.fn(X + "expand_recursive_edge"), C.fn(X + "post_process_recursive_expansion")
    if er is None or pp is None:
        R.fail("r4", "anchor", "-", "expand_recursive_edge / post_process_recursive_expansion not found")
        return

    def closures(f, must_call):
        return [n for n in walk(f["body"]) if n.get("k") == "closure" and any(c.get("name") == must_call for c in calls_in(n["body"]))]
    entry, exit_ = closures(er, "activate_vertex"), closures(pp, "ensure_unsuspended")
    if len(entry) != 1 or len(exit_) != 1:
        R.fail("r4", "anchor:closures", C.loc(er["sp"]), "expected one entry closure calling activate_vertex and one exit closure calling ensure_unsuspended "
               "(found %d / %d)" % (len(entry), len(exit_)))
        return
    DCP = T + "interpreter::DataContext"
    adt = C.adt_by_path.get(DCP)
    other = [fl["name"] for fl in adt["variants"][0]["fields"] if fl["name"] not in ("active_vertex", "suspended_vertices", "vertices", "piggyback")] if adt else []
    vid_lets = [n for n in walk(er["body"]) if n.get("k") == "let" and n.get("pat", {}).get("k") == "bind" and (C.S(n["pat"].get("ty")) or "").endswith("ir::Vid")]
    I = M.intrinsics()
    bad = None
    n = 0
    try:
        for present in (True, False):
            for stack in ([], ["w"], [None]):
                src = M.some(A.Sym("v")) if present else M.none()
                me = {"active_vertex": M.some(A.Sym("prev")) if present else M.none(),
                      "vertices": M.MapV([(7, src)]),
                      "suspended_vertices": A.VecV([M.some(A.Sym(x)) if x else M.none() for x in stack]), "piggyback": M.none()}
                for o in other:
                    me[o] = A.Sym("field:" + o)
                env = {l["pat"]["bid"]: A.Cell(7) for l in vid_lets}
                ip = A.Interp(C, I)
                mid = ip.call_closure(("closure", entry[0], env), [A.Struct(DCP, me)])
                out = A.deref(A.Interp(C, I).call_closure(("closure", exit_[0], {}), [mid]))
                n += 1
                av = A.deref(out.fields["active_vertex"])
                st = [A.deref(x) for x in A.deref(out.fields["suspended_vertices"]).items]
                got = (A.deref(av.fields[0]).name if av.variant == "Some" else None,
                       [A.deref(x.fields[0]).name if x.variant == "Some" else None for x in st])
                want = ("v" if present else None, list(stack))
                if got != want and bad is None:
                    bad = ("present" if present else "absent", stack, "gives (active, stack) = %s, expected %s" % (got, want))
    except A.PanicReached as e:
        bad = ("present" if present else "absent", stack, "panics: %s" % e.what)
    except A.Unsupported as e:
        R.fail("r4", "unanalysable", C.loc(er["sp"]), "cannot evaluate the @recurse entry / exit closures: %s (fail closed)" % e)
        return
    R.floor("r4", "context shapes", n if bad is None else 6, 6)
    R.check(bad is None, "r4", "recursion-entry-exit-pairing", C.loc(entry[0]["sp"]),
            "a context whose @recurse source vertex is %s, with suspension stack %s, run through the entry closure of expand_recursive_edge and "
            "the exit closure of post_process_recursive_expansion %s (a @recurse inside an @optional that does not exist for the row)"
            % (bad or ("", "", "")), {"shapes": n})


def run(ctx, R):
    C = ctx.core
    R.rule("r1", "reachable panic-capable constructs = audited set + listed known findings")
    R.rule("r2", "guards: arguments validated before the first adapter call; carrier bracket discipline; operand types validated")
    he = hint_entries(C)
    R.floor("r1", "hint API entry points", len(he), 12)
    rk3.run_inventory(C, R, [T + "interpreter::execution::interpret_ir"] + he, AUDIT)
    R.floor("r1", "audited keys for execution", len(AUDIT), 100)

    # G-ARGS
    f = C.fn(T + "interpreter::execution::interpret_ir")
    if f is None:
        R.fail("r2", "anchor:interpret_ir", "-", "interpret_ir not found")
    else:
        st = f["body"].get("stmts", [])
        first = st[0] if st else {}
        init = first.get("init", {}) if first.get("k") == "let" else first
        ok = init.get("k") == "match" and init.get("src") == "TryDesugar" and \
            any((c.get("callee") or "").endswith("InterpretedQuery::from_query_and_arguments") for c in calls_in(init.get("scrut", {})))
        R.check(ok, "r2", "G-ARGS", C.loc(f["sp"]),
                "interpret_ir must start with `InterpretedQuery::from_query_and_arguments(..)?`: execution indexes the argument map and "
                "converts values assuming they were validated")
    # G-ARGS-TABLE: what "validated" means - the audit (and r3's set of admitted operand pairs) assumes that an accepted argument has
    # exactly the variable's type, integers for Int only, floats for Float only ...: C12's decision tables of
    # from_query_and_arguments (r1) and Type::is_valid_value (r2), re-evaluated here
    from . import C12
    R12 = Report("C12", ctx.tier, 0)
    C12.run(ctx, R12)
    # r4 of C12 = the variable's recorded type is the greatest common subtype of its uses (C11 r5 / C17): a type recorded too wide
    # admits argument values one of the uses cannot handle
    bad12 = [v for v in R12.violations if v["rule"] in ("r1", "r2", "r4", "engine")]
    R.check(not bad12, "r2", "G-ARGS-TABLE", "-",
            "argument validation admits values outside the variable's type (C12 %s): the comparison and conversion code that runs later has no "
            "arm for such operand pairs (e.g. Float64 vs Int64 reaches unreachable!()) - %s"
            % ([v["key"] for v in bad12][:3], (bad12[0]["msg"][:300] if bad12 else "")), {"c12_instances": len(R12.instances)})
    # G-CARRIER: re-evaluate C02's bracket rule
    from . import C02
    R2 = Report("C02", ctx.tier, 0)
    C02.run(ctx, R2)
    bad = [v for v in R2.violations if v["rule"] in ("r1", "r3")]
    R.check(not bad, "r2", "G-CARRIER", "-", "the carrier bracket discipline (C02 r1/r3) is broken: %s — the `expect(\"query was not returned\")` sites can fire"
            % [v["key"] for v in bad][:3], {"c02_instances": len(R2.instances)})
    # G-OPTYPES
    mf = C.fn(T + "frontend::filters::make_filter_expr")
    ok = False
    if mf is not None:
        for n in walk(mf["body"]):
            if n.get("k") == "if" and any((c.get("callee") or "").endswith("operand_types_valid") for c in calls_in(n["cond"])):
                ok = any(x.get("k") == "ctor" and x.get("variant") == "Err" for x in walk(n["then"]))
    R.check(ok, "r2", "G-OPTYPES", C.loc(mf["sp"]) if mf else "-", "make_filter_expr must validate operand types and return the errors")

    recursion_suspension_pairing(ctx, R)

    # r3: semantic discharge of the comparison functions' own panic sites (the audit lists their `unreachable!` as guarded by
    # the operand-type validation): evaluated on every operand pair the frontend admits - same scalar type, mixed integer
    # representation, null on either side (a tag of a nullable property can be null) - they must not reach a panic
    R.rule("r3", "the functions executing =, <, <=, >, >= never reach a panic on operand pairs the frontend admits (C07 r6's tables)")
    from . import C07
    R7 = Report("C07", ctx.tier, 0)
    C07.run(ctx, R7)
    pan = R7.extra.get("r6_panics")
    if not pan:
        R.fail("r3", "anchor:operator-tables", "-", "C07's operator decision tables are not available (fail closed)")
    else:
        R.floor("r3", "operators with a decision table", len(pan), 5)
        for opname, lst in sorted(pan.items()):
            ex = lst[0] if lst else None
            R.check(not lst, "r3", "operator-never-panics/%s" % opname, "-",
                    "the function executing the `%s` filter reaches %s for the operands (%s, %s); the frontend admits this pair, so "
                    "executing an accepted query panics (%d such pairs)" % (opname, ex and ex[2], ex and ex[0], ex and ex[1], len(lst)),
                    {"pairs_evaluated": R7.extra.get("r6_pairs", {}).get(opname)})
