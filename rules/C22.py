"""C22 — fold-count early termination is invisible in results."""
import itertools

from tfv import absint as A
from tfv import stdmodel as S
from tfv.tast import walk, walk_with_ctx, strip, ekey, calls_in
from tfv.prov import Scope
from . import sites

EXPLANATION = ("r1 who may observe a truncated fold: the data flow into the minimum-size argument of the fold "
               "materialisation must depend on every observer of the fold's elements or count — outputs inside the fold, "
               "outputs of nested folds, the count output, and count tags used by the parent's vertex filters and by "
               "sibling folds (post-filters / imports). r2 limits: the max/min limit functions and collect_fold_elements "
               "are abstractly evaluated for every set of one or two count filters over small values and every true fold "
               "size: the early-terminated outcome (discard / kept with count') must equal the outcome of full "
               "materialisation. r3: every post-filter is applied after materialisation, unconditionally. r4: the maximum "
               "path discards only after pulling exactly one element beyond the limit, and never pulls more.")
ASSUMPTIONS = ["count filters compare integers (ensured by the frontend's type check of @filter on a fold count)",
               "collection / iterator model of tfv/stdmodel.py"]

EXE = "trustfall_core::interpreter::execution::"
IR = "trustfall_core::ir::"
FV = IR + "value::FieldValue"
OPS = {"Equals": lambda c, v: c == v, "NotEquals": lambda c, v: c != v, "LessThan": lambda c, v: c < v,
       "LessThanOrEqual": lambda c, v: c <= v, "GreaterThan": lambda c, v: c > v, "GreaterThanOrEqual": lambda c, v: c >= v,
       "OneOf": lambda c, v: c in v, "NotOneOf": lambda c, v: c not in v}


def fv_int(x):
    return A.Enum(FV, "Uint64" if x % 2 else "Int64", [x])


def fv_val(v):
    if isinstance(v, tuple):
        return A.Enum(FV, "List", [A.VecV([fv_int(x) for x in v])])
    return fv_int(v)


def mk_filter(op, name):
    vref = A.Struct(IR + "VariableRef", {"variable_name": name})
    return A.Enum(IR + "Operation", op, [A.Enum(IR + "FoldSpecificFieldKind", "Count"), A.Enum(IR + "Argument", "Variable", [vref])])


def truncation_decision_table(C, R, cf, fcol, intr):
    """r5: the expression that decides whether a fold may be cut off at its minimum size is abstractly evaluated on sample IR
    with exactly one observer of the fold present at a time; with any observer present it must decide `no truncation`."""
    from tfv.tast import pat_binds
    R.rule("r5", "decision table of the truncation decision: None (no truncation) whenever anything observes the fold's elements or count; "
                 "Some(min) when nothing does (controls: observers of *other* folds do not block it)")
    site = [c for c in calls_in(cf["body"]) if c.get("callee") == fcol["path"]]
    lets = [n for n in walk(cf["body"]) if n.get("k") == "let" and "init" in n and
            any((c.get("callee") or "").endswith("get_min_fold_count_limit") for c in calls_in(n["init"]))]
    if len(lets) != 1 or len(site) != 1:
        R.fail("r5", "anchor", C.loc(cf["sp"]), "expected one binding initialised from get_min_fold_count_limit in compute_fold (found %d)" % len(lets))
        return
    init = lets[0]["init"]
    bound = {b for n in walk(init) for key in ("pat",) if isinstance(n.get(key), dict) for b, _ in pat_binds(n[key])}
    for n in walk(init):
        if n.get("k") == "match":
            for a in n["arms"]:
                bound |= {b for b, _ in pat_binds(a["pat"])}
        if n.get("k") == "closure":
            for p in n["params"]:
                bound |= {b for b, _ in pat_binds(p)}
    free = {}
    for n in walk(init):
        if n.get("k") == "local" and n["bid"] not in bound:
            free[n["bid"]] = (n["name"], C.S(n.get("ty")) or "")
    roles = {}
    for bid, (name, ty) in free.items():
        if "IRFold" in ty:
            roles["fold"] = bid
        elif ty.endswith("IRQueryComponent") or "IRQueryComponent>" in ty:
            roles["parent"] = bid
        elif "QueryCarrier" in ty:
            roles["carrier"] = bid
        else:
            R.fail("r5", "anchor:free-variable/%s" % name, C.loc(lets[0]["sp"]), "the truncation decision reads the local `%s: %s`, which the sample IR does not provide (fail closed)" % (name, ty))
            return
    if set(roles) != {"fold", "parent", "carrier"}:
        R.fail("r5", "anchor:roles", C.loc(lets[0]["sp"]), "the truncation decision must read the fold, the parent component and the carrier (found %s)" % sorted(roles))
        return

    COUNT = lambda: A.Enum(IR + "FoldSpecificFieldKind", "Count")

    def fsf(eid, root):
        return A.Struct(IR + "FoldSpecificField", {"fold_eid": eid, "fold_root_vid": root, "kind": COUNT()})

    def count_tag(eid, root):
        return A.Enum(IR + "Argument", "Tag", [A.Enum(IR + "FieldRef", "FoldSpecificField", [fsf(eid, root)])])

    def cf_(vid, name):
        return A.Struct(IR + "ContextField", {"vertex_id": vid, "field_name": name, "field_type": A.Sym("ty")})

    def comp(outputs=(), folds=()):
        return A.Struct(IR + "IRQueryComponent", {"root": 0, "vertices": S.MapV([]), "edges": S.MapV([]),
                                                  "folds": S.MapV(list(folds)), "outputs": S.MapV(list(outputs))})

    def mkfold(eid, to_vid, component=None, fso=(), post=(), imported=()):
        return A.Struct(IR + "IRFold", {"eid": eid, "from_vid": 1, "to_vid": to_vid, "edge_name": "e", "parameters": A.Sym("params"),
                                        "component": component or comp(), "imported_tags": A.VecV(list(imported)),
                                        "post_filters": A.VecV(list(post)), "fold_specific_outputs": S.MapV(list(fso))})

    def vertex(vid, filters=()):
        return A.Struct(IR + "IRVertex", {"vid": vid, "type_name": "T", "coerced_from_type": S.none(), "filters": A.VecV(list(filters))})

    def lf(name):
        return A.Struct(IR + "LocalField", {"field_name": name, "field_type": A.Sym("ty")})

    THIS, OTHER = (7, 20), (8, 30)          # (eid, root vid) of the fold under test and of a sibling
    own_filter = mk_filter("GreaterThanOrEqual", "v0")

    def build(case):
        nested = mkfold(9, 40, component=comp(outputs=[("deep", cf_(40, "x"))])) if case == "output in a nested fold" else None
        nested_cnt = mkfold(9, 40, fso=[("deepcount", COUNT())]) if case == "count output of a nested fold" else None
        inner_folds = [(9, f) for f in (nested, nested_cnt) if f is not None]
        component = comp(outputs=[("o", cf_(20, "p"))] if case == "output inside the fold" else [], folds=inner_folds)
        fold = mkfold(THIS[0], THIS[1], component=component, post=[own_filter],
                      fso=[("cnt", COUNT())] if case == "count output" else [])
        sib_imp = [A.Enum(IR + "FieldRef", "FoldSpecificField", [fsf(*THIS)])] if case == "count tag imported into a sibling fold" else \
            [A.Enum(IR + "FieldRef", "FoldSpecificField", [fsf(*OTHER)]), A.Enum(IR + "FieldRef", "ContextField", [cf_(1, "q")])] if case == "control: sibling imports other tags" else []
        sib_post = [A.Enum(IR + "Operation", "LessThan", [COUNT(), count_tag(*THIS)])] if case == "count tag in a sibling fold's count filter" else \
            [A.Enum(IR + "Operation", "LessThan", [COUNT(), count_tag(*OTHER)])] if case == "control: sibling filters on another count tag" else []
        sibling = mkfold(OTHER[0], OTHER[1], post=sib_post, imported=sib_imp)
        vfilters = [A.Enum(IR + "Operation", "Equals", [lf("a"), count_tag(*THIS)])] if case == "count tag in a parent vertex filter" else \
            [A.Enum(IR + "Operation", "Equals", [lf("a"), count_tag(*OTHER)])] if case == "control: parent filter on another count tag" else []
        parent = A.Struct(IR + "IRQueryComponent", {"root": 1, "vertices": S.MapV([(1, vertex(1, vfilters))]), "edges": S.MapV([]),
                                                    "folds": S.MapV([(THIS[0], fold), (OTHER[0], sibling)]), "outputs": S.MapV([])})
        carrier = A.Struct(EXE + "QueryCarrier", {"query": S.some(A.Struct("trustfall_core::interpreter::InterpretedQuery",
                                                                          {"arguments": S.MapV([("v0", fv_int(2))])}))})
        return fold, parent, carrier
    cases = {
        "nothing observes the fold": True,
        "output inside the fold": False, "output in a nested fold": False, "count output of a nested fold": False, "count output": False,
        "count tag in a parent vertex filter": False, "count tag imported into a sibling fold": False,
        "count tag in a sibling fold's count filter": False,
        "control: sibling imports other tags": True, "control: sibling filters on another count tag": True,
        "control: parent filter on another count tag": True,
    }
    for case, may_truncate in cases.items():
        fold, parent, carrier = build(case)
        env = {roles["fold"]: A.Cell(fold), roles["parent"]: A.Cell(parent), roles["carrier"]: A.Cell(carrier)}
        try:
            ip = A.Interp(C, intrinsics=intr, max_steps=200000)
            res = A.deref(ip.ev(init, env))
        except A.Unsupported as e:
            R.fail("r5", "unanalysable/%s" % case, C.loc(lets[0]["sp"]), "abstract evaluation of the truncation decision failed: %s (fail closed)" % e)
            continue
        except A.PanicReached as e:
            R.fail("r5", "panic/%s" % case, C.loc(lets[0]["sp"]), "the truncation decision panics: %s" % e.what)
            continue
        got = isinstance(res, A.Enum) and res.variant == "Some"
        if may_truncate:
            # not truncating here is always safe (only the optimisation is lost), so this is recorded, never an alarm
            R.ok("r5", "control/%s" % case, {"truncates": got})
        else:
            R.check(not got, "r5", "decision/%s" % case, C.loc(lets[0]["sp"]),
                    "with `%s` the engine still materialises only the minimum number of fold elements: that observer sees a truncated fold / a clamped count" % case)


def run(ctx, R):
    C = ctx.core
    R.rule("r1", "the minimum-size (truncation) decision depends on every observer of the fold")
    R.rule("r2", "early termination decides exactly like full materialisation, for all filter sets x fold sizes")
    R.rule("r3", "all post-filters applied after materialisation, unconditionally")
    R.rule("r4", "max path: discard only after one element beyond the limit; never pull more")
    intr = S.intrinsics()
    fmax, fmin, fcol, fusz = (C.fn(EXE + n) for n in ("get_max_fold_count_limit", "get_min_fold_count_limit", "collect_fold_elements", "usize_from_field_value"))
    cf = C.fn(EXE + "compute_fold")
    if None in (fmax, fmin, fcol, cf):
        R.fail("anchor", "functions", "-", "fold limit functions / collect_fold_elements / compute_fold not found")
        return

    # ---------------- r2 + r4
    vals = [0, 1, 2, 3]
    single = [(op, v) for op in ("Equals", "NotEquals", "LessThan", "LessThanOrEqual", "GreaterThan", "GreaterThanOrEqual") for v in vals]
    single += [("OneOf", (0, 2)), ("OneOf", (3,)), ("OneOf", (1, 2, 3)), ("NotOneOf", (1,))]
    sets = [(s,) for s in single] + list(itertools.combinations(single, 2))
    sizes = list(range(0, 7))
    bad = None
    n = 0
    pulled_bad = None
    try:
        for fs in sets:
            args = S.MapV([("v%d" % i, fv_val(v)) for i, (_, v) in enumerate(fs)])
            fold = A.Struct(IR + "IRFold", {"post_filters": A.VecV([mk_filter(op, "v%d" % i) for i, (op, _) in enumerate(fs)])})
            carrier = A.Struct(EXE + "QueryCarrier", {"query": S.some(A.Struct("trustfall_core::interpreter::InterpretedQuery", {"arguments": args}))})
            ip = A.Interp(C, intrinsics=intr)
            mx = A.deref(ip.call_by_type(fmax, [("QueryCarrier", carrier), ("IRFold", fold)]))
            ip = A.Interp(C, intrinsics=intr)
            mn = A.deref(ip.call_by_type(fmin, [("QueryCarrier", carrier), ("IRFold", fold)]))
            mxv = None if mx.variant == "None" else A.deref(mx.fields[0])
            mnv = None if mn.variant == "None" else A.deref(mn.fields[0])
            passes = lambda c: all(OPS[op](c, v) for op, v in fs)
            for k in sizes:
                pulled = [0]
                def gen():
                    for i in range(k):
                        pulled[0] += 1
                        yield A.Sym("elem%d" % i)
                ip = A.Interp(C, intrinsics=intr)
                res = A.deref(ip.call_by_type(fcol, [("Iterator", S.IterV(gen())), ("name:max", mx), ("name:min", mn)]))
                n += 1
                full = passes(k)
                if res.variant == "None":
                    early = False            # discarded
                    if mxv is None or pulled[0] != mxv + 1:
                        pulled_bad = pulled_bad or {"filters": fs, "size": k, "max": mxv, "pulled": pulled[0], "what": "discarded without pulling exactly limit+1"}
                else:
                    cnt = len(A.deref(res.fields[0]).items)
                    early = passes(cnt)
                    limit = mxv + 1 if mxv is not None else (mnv if mnv is not None else k)
                    if pulled[0] > min(k, limit):
                        pulled_bad = pulled_bad or {"filters": fs, "size": k, "max": mxv, "min": mnv, "pulled": pulled[0], "what": "pulled more than needed"}
                if early != full and bad is None:
                    bad = {"filters": fs, "true_size": k, "max_limit": mxv, "min_limit": mnv,
                           "full_materialisation_keeps_row": full, "early_termination_keeps_row": early}
    except A.Unsupported as e:
        R.fail("r2", "unanalysable", C.loc(fcol["sp"]), "cannot evaluate the fold limit functions abstractly: %s (fail closed)" % e)
        bad = "skip"
    except A.PanicReached as e:
        R.fail("r2", "panic", C.loc(fmax["sp"]), "fold limit computation panics on integer count filters: %s" % e.what)
        bad = "skip"
    if bad != "skip":
        R.extra["r2_cases"] = n
        R.check(bad is None, "r2", "outcome-equals-full-materialisation", C.loc(fcol["sp"]),
                "early termination changes the outcome: %s" % (bad,), {"filter_sets": len(sets), "sizes": len(sizes)})
        for op in OPS:
            R.ok("r2", "operator/%s" % op)
        R.check(pulled_bad is None, "r4", "pull-budget", C.loc(fcol["sp"]), "collect_fold_elements pulls the wrong number of elements: %s" % (pulled_bad,))
        # boundary: a count filter against the largest representable value (`<= u64::MAX`, `= u64::MAX`, one_of [.., u64::MAX]) gives
        # max limit usize::MAX; materialisation must still behave like full materialisation (no `limit + 1` arithmetic that overflows)
        UMAX = (1 << 64) - 1
        bbad = None
        for mxl, mnl in ((UMAX, None), (UMAX, 1), (UMAX - 1, None), (None, UMAX)):
            for k in (0, 1, 3):
                try:
                    res = A.deref(A.Interp(C, intrinsics=intr).call_by_type(fcol, [
                        ("Iterator", S.IterV([A.Sym("elem%d" % i) for i in range(k)])),
                        ("name:max", S.some(mxl) if mxl is not None else S.none()), ("name:min", S.some(mnl) if mnl is not None else S.none())]))
                    if res.variant != "Some" or len(A.deref(res.fields[0]).items) != k:
                        bbad = bbad or {"max_limit": mxl, "min_limit": mnl, "size": k, "got": repr(res)}
                except A.PanicReached as e:
                    bbad = bbad or {"max_limit": mxl, "min_limit": mnl, "size": k, "panic": e.what}
                except A.Unsupported as e:
                    bbad = bbad or {"max_limit": mxl, "min_limit": mnl, "size": k, "unanalysable": str(e)}
        R.check(bbad is None, "r2", "limits-at-the-integer-boundary", C.loc(fcol["sp"]),
                "collect_fold_elements with a limit at the top of the integer range does not materialise the fold as full materialisation "
                "would: %s" % (bbad,))

    # ---------------- r1
    sc = Scope(C, cf)
    sc.follow_local_calls = True
    sc.qualified = True
    site = [c for c in calls_in(cf["body"]) if c.get("callee") == fcol["path"]]
    # roles of compute_fold's parameters, by type (not by name)
    fold_p = [p["name"] for p in cf["params"] if "IRFold" in (C.S(p.get("ty")) or "")]
    parent_p = [p["name"] for p in cf["params"] if (C.S(p.get("ty")) or "").endswith("IRQueryComponent")]
    if len(site) != 1 or len(fold_p) != 1 or len(parent_p) != 1:
        R.fail("r1", "anchor:collect-call", C.loc(cf["sp"]), "expected one call of collect_fold_elements and one fold / one parent-component "
               "parameter in compute_fold (found %d, %s, %s)" % (len(site), fold_p, parent_p))
    else:
        F, P = fold_p[0], parent_p[0]
        toks = sc.tokens(site[0]["args"][2], control=True)
        q = sorted(t[2:] for t in toks if t.startswith("q:"))
        R.units["min_size_decision_reads"] = q

        def has(pred):
            return any(pred(x) for x in q)
        need = {
            "outputs inside the fold": lambda: has(lambda x: x == "%s.component.outputs" % F),
            "count output": lambda: has(lambda x: x == "%s.fold_specific_outputs" % F),
            "count tag in the parent's vertex filters": lambda: has(lambda x: x == "%s.vertices" % P) and has(lambda x: x.endswith(".filters"))
            and ("variant:%sFieldRef::FoldSpecificField" % IR) in toks,
            "outputs of nested folds": lambda: has(lambda x: x == "%s.component.folds" % F)
            and has(lambda x: x.endswith(".fold_specific_outputs") and x != "%s.fold_specific_outputs" % F)
            and has(lambda x: "@{closure" in x and (x.endswith(".component") or x.endswith(".component.outputs"))),
            "count tag used by sibling folds": lambda: has(lambda x: x == "%s.folds" % P) and has(lambda x: x.endswith(".post_filters"))
            and has(lambda x: x.endswith(".imported_tags")),
        }
        for what, pred in need.items():
            R.check(pred(), "r1", "observer/%s" % what, C.loc(site[0]["sp"]),
                    "the decision to materialise only a minimum number of fold elements does not depend on `%s`: a query that "
                    "observes the fold this way sees truncated data (the decision reads: %s)" % (what, q))

    truncation_decision_table(C, R, cf, fcol, intr)

    # ---------------- r3
    loops = []
    for nnode, anc in walk_with_ctx(cf["body"]):
        if nnode.get("k") == "call" and (nnode.get("callee") or "").endswith("apply_fold_specific_filter"):
            in_if = any(a.get("k") == "if" for a in anc if a.get("k") in ("if",))
            fl = [a for a in anc if a.get("k") == "match" and a.get("src") == "ForLoopDesugar"]
            src = None
            for m in reversed(fl):
                if strip(m["scrut"]).get("name") == "into_iter":
                    src = ekey(m["scrut"])
                    break
            loops.append((nnode, in_if, src))
    fold_name = ([p["name"] for p in cf["params"] if "IRFold" in (C.S(p.get("ty")) or "")] or ["fold"])[0]
    accepted = ("core::iter::traits::collect::IntoIterator::into_iter(%s.post_filters.iter())" % fold_name,
                "core::iter::traits::collect::IntoIterator::into_iter(%s.post_filters)" % fold_name)
    R.check(len(loops) == 1 and not loops[0][1] and loops[0][2] in accepted, "r3", "post-filters-applied",
            C.loc(cf["sp"]), "compute_fold must apply apply_fold_specific_filter for every element of fold.post_filters, unconditionally (%s)"
            % [(l[1], l[2]) for l in loops])
