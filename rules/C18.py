"""C18 — decoding rows into structs is faithful (RK1 sibling tables, cast scan)."""
from tfv.tast import walk, strip, calls_in, ekey, comparison
from tfv.tables import matches_over, variant_table, arm_value, is_panic_arm

EXPLANATION = ("r1: no integer-narrowing / sign-changing / float-to-int `as` cast anywhere in trustfall_core::serialization "
               "(MIR cast scan). r2: each sized-integer entry point deserialize_T converts with TryInto<T>, propagates "
               "the conversion error and hands the result to visit_T of the same T for both integer variants; everything "
               "else forwards to deserialize_any, whose variant table is the identity (Null->none, Int64->i64, Uint64->u64, "
               "Float64->f64, String->str, Boolean->bool, List->seq of the same elements). r3: deserialize_tuple rejects a "
               "length mismatch before forwarding.")
ASSUMPTIONS = ["serde's own integer visitors (visit_i64 into a narrower field) report out-of-range values as errors",
               "std's TryFrom between integer types is exact"]

FV = "trustfall_core::ir::value::FieldValue"
DES = "trustfall_core::serialization::deserializers::FieldValueDeserializer"
SIZED = ("i8", "i16", "i32", "u8", "u16", "u32")
ANY_TABLE = {"Null": "visit_none", "Int64": "visit_i64", "Uint64": "visit_u64", "Float64": "visit_f64",
             "String": "visit_str", "Boolean": "visit_bool", "List": "visit_seq"}
INT_W = {"i8": (8, True), "i16": (16, True), "i32": (32, True), "i64": (64, True), "i128": (128, True), "isize": (64, True),
         "u8": (8, False), "u16": (16, False), "u32": (32, False), "u64": (64, False), "u128": (128, False), "usize": (64, False)}


def lossy_int_cast(frm, to):
    if frm not in INT_W or to not in INT_W:
        return False
    (wf, sf), (wt, st) = INT_W[frm], INT_W[to]
    if sf == st:
        return wt < wf
    if sf and not st:
        return True            # signed -> unsigned loses negatives
    return wt <= wf            # unsigned -> signed needs a strictly wider target


def run(ctx, R):
    C = ctx.core
    R.rule("r1", "no lossy numeric `as` cast in the serialization module")
    R.rule("r2", "deserialize_T -> TryInto<T> + error propagation + visit_T; deserialize_any is the identity table")
    R.rule("r3", "deserialize_tuple rejects a length mismatch before forwarding")

    # r1
    ncasts = 0
    nbodies = 0
    for m in C.mir:
        if "::serialization::" not in m["path"] or "::tests::" in m["path"]:
            continue
        nbodies += 1
        for c in m["casts"]:
            if c["kind"] not in ("IntToInt", "FloatToInt", "IntToFloat", "FloatToFloat"):
                continue
            ncasts += 1
            key = "%s/%s->%s" % (m["path"].split("::")[-1], c["from"], c["to"])
            if c["kind"] == "FloatToFloat":
                R.ok("r1", key, {"audited": "f64 -> f32 on an explicit f32 request; the property speaks of integers"})
                continue
            if c["kind"] == "IntToFloat":
                R.fail("r1", key, C.loc(c.get("sp")), "integer converted to float with `as` in %s (rounds above 2^53)" % m["path"])
                continue
            bad = c["kind"] == "FloatToInt" or lossy_int_cast(c["from"], c["to"])
            R.check(not bad, "r1", key, C.loc(c.get("sp")),
                    "`%s as %s` in %s silently truncates / wraps; decode must fail instead" % (c["from"], c["to"], m["path"]))
    R.floor("r1", "MIR bodies scanned in serialization", nbodies, 20)
    R.units["casts_seen"] = ncasts

    # r2
    fns = {f["name"]: f for f in C.fns if f.get("impl_trait", "").endswith("de::Deserializer") and (f.get("self_ty") or "") == DES}
    R.floor("r2", "hand-written Deserializer methods", len([n for n in fns if n.startswith("deserialize_")]), 10)
    for t in SIZED:
        f = fns.get("deserialize_" + t)
        if f is None:
            R.fail("r2", "missing/deserialize_%s" % t, "-", "no deserialize_%s on FieldValueDeserializer: the request falls back to the "
                   "64-bit visitor path" % t)
            continue
        ms = matches_over(f["body"], FV, 2)
        if not ms:
            R.fail("r2", "anchor/deserialize_%s" % t, C.loc(f["sp"]), "no match over FieldValue")
            continue
        vt = variant_table(ms[0], FV)
        for v in ("Int64", "Uint64"):
            arms = vt.get(v, [])
            key = "deserialize_%s/%s" % (t, v)
            if len(arms) != 1:
                R.fail("r2", key, C.loc(ms[0]["sp"]), "expected one arm for %s" % v)
                continue
            body = arms[0]["body"]
            visits = [c for c in calls_in(body) if (c.get("name") or "").startswith("visit_")]
            convs = [c for c in calls_in(body) if c.get("name") in ("try_into", "try_from")]
            tries = [n for n in walk(body) if n.get("k") == "match" and n.get("src") == "TryDesugar"]
            ok = len(visits) == 1 and visits[0]["name"] == "visit_" + t
            conv_ok = False
            if len(convs) == 1:
                rty = C.S(convs[0].get("ty")) or ""
                conv_ok = rty.startswith("core::result::Result<%s," % t)
            # the visited argument is the `?`-propagated conversion
            arg_ok = False
            if ok and visits[0]["args"]:
                a = strip(visits[0]["args"][-1])
                arg_ok = a.get("k") == "match" and a.get("src") == "TryDesugar" and any(c in list(calls_in(a)) for c in convs)
            R.check(ok and conv_ok and arg_ok and tries, "r2", key, C.loc(arms[0]["sp"]),
                    "deserialize_%s on %s must be visit_%s(value.try_into()?) with TryInto<%s>: visit=%s conversion=%s propagated=%s"
                    % (t, v, t, t, [x["name"] for x in visits], [C.S(c.get("ty")) for c in convs], arg_ok))
        other = vt.get("_", [])
        fw = other and any(c.get("name") == "deserialize_any" for c in calls_in(other[0]["body"]))
        R.check(bool(fw), "r2", "deserialize_%s/other" % t, C.loc(ms[0]["sp"]), "non-integer values must be forwarded to deserialize_any")
    f = fns.get("deserialize_any")
    if f is None:
        R.fail("r2", "anchor/deserialize_any", "-", "deserialize_any not found")
    else:
        ms = matches_over(f["body"], FV, 4)
        vt = variant_table(ms[0], FV) if ms else {}
        for v, want in ANY_TABLE.items():
            arms = vt.get(v, [])
            if len(arms) != 1:
                R.fail("r2", "any/%s" % v, C.loc(f["sp"]), "expected one arm for %s in deserialize_any" % v)
                continue
            visits = [c for c in calls_in(arms[0]["body"]) if (c.get("name") or "").startswith("visit_")]
            binds = [s for s in arms[0]["pat"].get("sub", []) if s.get("k") == "bind"]
            payload = True
            if binds and visits:
                # locals the visited value depends on, through `let` bindings of the arm (`let elements = v.to_vec();`)
                used = {x.get("bid") for x in walk(visits[0]) if x.get("k") == "local"}
                lets = [x for x in walk(arms[0]["body"]) if x.get("k") == "let" and "init" in x and x.get("pat", {}).get("k") == "bind"]
                grew = True
                while grew:
                    grew = False
                    for l in lets:
                        if l["pat"]["bid"] in used:
                            more = {x.get("bid") for x in walk(l["init"]) if x.get("k") == "local"} - used
                            if more:
                                used |= more
                                grew = True
                payload = binds[0]["bid"] in used
            R.check(len(visits) == 1 and visits[0]["name"] == want and payload, "r2", "any/%s" % v, C.loc(arms[0]["sp"]),
                    "deserialize_any: %s must go to %s with its own payload (got %s)" % (v, want, [x["name"] for x in visits]))
        for v, arms in vt.items():
            if v in ANY_TABLE or v == "_":
                continue
            for a in arms:
                if is_panic_arm(C, a["body"]):
                    R.fail("r2", "any/%s-panics" % v, C.loc(a["sp"]),
                           "deserialize_any panics for FieldValue::%s: decoding a row that holds such a value crashes instead of returning a value or an error" % v)
                else:
                    R.ok("r2", "any/%s" % v)

    # r4: a value the target does not declare is skipped without being decoded. serde asks for that with deserialize_ignored_any; if
    # the request is funnelled into deserialize_any, every arm of deserialize_any that panics (today: Enum -> todo!(), a listed
    # finding for *declared* fields) also fires for undeclared keys, and rows that decode today stop decoding.
    R.rule("r4", "skipped (undeclared) values are not decoded: deserialize_ignored_any does not reach a panicking arm of deserialize_any")
    ig = fns.get("deserialize_ignored_any")
    anyf = fns.get("deserialize_any")
    panicking = []
    if anyf is not None:
        ms_ = matches_over(anyf["body"], FV, 4)
        for v, arms in (variant_table(ms_[0], FV) if ms_ else {}).items():
            panicking += [v for a in arms if is_panic_arm(C, a["body"])]
    if ig is None:
        R.fail("r4", "anchor/deserialize_ignored_any", "-", "FieldValueDeserializer has no deserialize_ignored_any")
    else:
        forwards = any(c.get("name") == "deserialize_any" for c in calls_in(ig["body"]))
        R.check(not (forwards and panicking), "r4", "ignored-values-not-decoded", C.loc(ig["sp"]),
                "deserialize_ignored_any forwards to deserialize_any, which panics for FieldValue::%s: a row / parameter map with an "
                "undeclared key holding such a value no longer decodes its declared fields" % "/".join(sorted(set(panicking))),
                {"forwards": forwards, "panicking_arms": sorted(set(panicking))})

    # r5: the row-level MapAccess hands every entry to the visitor exactly once, in order, each key followed by its own value -
    # also when the value is null (a present null and an absent key are different things to serde: defaults apply only to the latter)
    R.rule("r5", "MapAccess of a row / parameter map: every entry, in order, key then its own value, null values included (effect table)")
    from tfv import absint as A
    from tfv import stdmodel as M
    mk = [f_ for f_ in C.fns if f_.get("impl_trait", "").endswith("de::MapAccess") and "serialization" in f_["path"] and "::tests" not in f_["path"]]
    nk = [f_ for f_ in mk if f_["name"] == "next_key_seed"]
    nv = [f_ for f_ in mk if f_["name"] == "next_value_seed"]
    if len(nk) != 1 or len(nv) != 1:
        R.fail("r5", "anchor", "-", "expected one MapAccess impl (next_key_seed / next_value_seed) in the serialization module")
    else:
        I5 = M.intrinsics()
        I5["serde_core::de::DeserializeSeed::deserialize"] = lambda ip, n, a: M.ok(A.deref(a[1]))
        I5["serde::de::DeserializeSeed::deserialize"] = I5["serde_core::de::DeserializeSeed::deserialize"]
        I5["deserialize"] = I5["serde_core::de::DeserializeSeed::deserialize"]
        I5["into_deserializer"] = lambda ip, n, a: A.deref(a[0])
        entries = [("k1", A.Enum(FV, "Int64", [A.Sym("1")])), ("k2", A.Enum(FV, "Null")), ("k3", A.Enum(FV, "String", [A.Sym("s")])),
                   ("k4", A.Enum(FV, "Null"))]
        adt = (nk[0].get("self_ty") or "").split("<")[0]
        me = A.Struct(adt, {"iter": M.IterV([A.Tuple([k, v]) for k, v in entries]), "next_value": M.none()})
        cell = A.Cell(me)
        ref = A.Ref(lambda: cell.v, lambda v: setattr(cell, "v", v))
        got = []
        try:
            for _ in range(len(entries) + 1):
                r = A.deref(A.Interp(C, I5).call_fn(nk[0], [ref, A.Sym("seed")]))
                if r.variant != "Ok":
                    got.append("Err")
                    break
                o = A.deref(r.fields[0])
                if o.variant == "None":
                    got.append(None)
                    break
                key = A.deref(o.fields[0])
                v = A.deref(A.Interp(C, I5).call_fn(nv[0], [ref, A.Sym("seed")]))
                val = A.deref(v.fields[0]) if isinstance(v, A.Enum) and v.variant == "Ok" else v
                got.append((key, getattr(val, "variant", repr(val))))
            want = [(k, v.variant) for k, v in entries] + [None]
            R.check(got == want, "r5", "map-access-yields-every-entry", C.loc(nk[0]["sp"]),
                    "a row with entries %s is handed to the visitor as %s: an entry that is skipped (e.g. a null value) is treated by serde "
                    "as an absent key, so a field default replaces the value the row holds" % ([(k, v.variant) for k, v in entries], got))
        except A.Unsupported as e:
            R.fail("r5", "unanalysable", C.loc(nk[0]["sp"]), "cannot evaluate the MapAccess impl abstractly: %s (fail closed)" % e)
        except A.PanicReached as e:
            R.fail("r5", "panic", C.loc(nk[0]["sp"]), "the MapAccess impl panics in key / value order: %s" % e.what)

    # r3
    f = fns.get("deserialize_tuple")
    if f is None:
        R.fail("r3", "anchor", "-", "deserialize_tuple not found")
    else:
        from tfv.prov import Scope
        sc3 = Scope(C, f)
        stmts = f["body"].get("stmts", []) + ([f["body"]["tail"]] if "tail" in f["body"] else [])
        guard_i = fw_i = None
        for i, s in enumerate(stmts):
            if s.get("k") == "if" and guard_i is None:
                # the comparison may sit in the condition (let-chain) or in a nested `if`; its sides are compared after expanding
                # single-definition locals (`let list_len = v.len();`)
                cmps = [comparison(x) for x in walk(s) if comparison(x)]
                sides = [(c[0], sc3.canon(c[1]), sc3.canon(c[2])) for c in cmps]
                has_len = any(op == "!=" and ({"len"} & {a, b}) and any(k.endswith(".len()") for k in (a, b)) for op, a, b in sides)
                rets = [x for x in walk(s["then"]) if x.get("k") == "ret" and "e" in x and strip(x["e"]).get("variant") == "Err"]
                if has_len and rets:
                    guard_i = i
            if any(c.get("name") == "deserialize_any" for c in calls_in(s)) and fw_i is None:
                fw_i = i
        R.check(guard_i is not None and fw_i is not None and guard_i < fw_i, "r3", "length-guard", C.loc(f["sp"]),
                "deserialize_tuple must return Err when `len != list.len()` before forwarding (guard stmt %s, forward stmt %s)" % (guard_i, fw_i))
