"""Bit-level evaluation of trustfall's `Type` (base name + modifier mask).

Unlike rules/tymodel.py (which abstracts `Type` algebraically and models its primitive accessors), this module gives the
abstract interpreter *concrete* `Type { base, modifiers: Modifiers { mask } }` values and lets it interpret the real accessor
code (`mask & 1`, `mask >> 2`, `LIST_MASK << i`, ...), `Display::fmt` (through a Formatter model) and `Type::parse` (through a
model of async-graphql-parser's documented `Type::new` grammar). Used by C16 r5 (Display / parse round trip for every list
depth) and C17 r6 (the lattice operations agree with the algebraic tables on the real bit representation).
"""
from tfv import absint as A
from tfv import stdmodel as M
from . import tymodel as T

TY = T.TY
MODS = "trustfall_core::ir::types::base::Modifiers"
AGT = "async_graphql_parser::types::Type"
AGB = "async_graphql_parser::types::BaseType"
MAX_DEPTH = 30


def mask_of(tv):
    m = 0 if tv.nullable else 1
    if tv.inner is not None:
        m |= 2 | (mask_of(tv.inner) << 2)
    return m


class ArcStr(str):
    """An `Arc<str>`: equal by text, but every allocation is a distinct object (`Arc::ptr_eq` is identity)."""
    __slots__ = ()


INTERNED = {"Int": ArcStr("Int"), "String": ArcStr("String")}     # from_name_and_modifiers shares these two; others are fresh


def arc_name(base):
    return INTERNED.get(base) or ArcStr(base)


def concrete(tv):
    return A.Struct(TY, {"base": arc_name(tv.base), "modifiers": A.Struct(MODS, {"mask": mask_of(tv)})})


def decode_mask(base, mask):
    nullable = not (mask & 1)
    if mask & 2:
        return T.listof(decode_mask(base, mask >> 2), nullable)
    if mask >> 2:
        raise ValueError("garbage above the base layer: %#x" % mask)
    return T.named(base, nullable)


def decode(v):
    v = A.deref(v)
    if not isinstance(v, A.Struct) or v.adt != TY:
        raise ValueError("not a Type: %r" % (v,))
    return decode_mask(A.deref(v.fields["base"]), A.deref(A.deref(v.fields["modifiers"]).fields["mask"]))


def render(tv):
    """The GraphQL text of a type (reference)."""
    s = tv.base if tv.inner is None else "[%s]" % render(tv.inner)
    return s + ("" if tv.nullable else "!")


def nested(depth, pattern, base="Int"):
    """Type with `depth` list layers; pattern(i) -> nullable? for layer i (0 = outermost ... depth = the base)."""
    t = T.named(base, pattern(depth))
    for i in range(depth - 1, -1, -1):
        t = T.listof(t, pattern(i))
    return t


class FormatterV:
    def __init__(self):
        self.buf = ""

    def __repr__(self):
        return "Formatter(%r)" % self.buf


def ag_parse(s):
    """async_graphql_parser::types::Type::new (7.x): strip one '!' suffix; '[' ... ']' is a list; else a name."""
    nullable = True
    if s.endswith("!"):
        nullable, s = False, s[:-1]
    if s.startswith("["):
        if not s.endswith("]"):
            return None
        inner = ag_parse(s[1:-1])
        if inner is None:
            return None
        base = A.Enum(AGB, "List", [inner])
    else:
        base = A.Enum(AGB, "Named", [s])
    return A.Struct(AGT, {"base": base, "nullable": nullable})


def intrinsics():
    I = M.intrinsics()
    I.update(M.string_intrinsics())
    d = A.deref

    def write_fmt(ip, n, a):
        f = d(a[0])
        if not isinstance(f, FormatterV):
            raise A.Unsupported("write on %r" % (f,))
        s = d(a[1])
        if not isinstance(s, str):
            raise A.Unsupported("formatted argument %r" % (s,))
        f.buf += s
        return M.ok(M.unit())
    I["core::fmt::Formatter::<'a>::write_fmt"] = write_fmt
    I["core::fmt::Formatter::<'a>::write_str"] = write_fmt
    I["core::fmt::Write::write_str"] = write_fmt
    I["core::fmt::Write::write_char"] = write_fmt
    I["core::num::<impl u64>::count_ones"] = lambda ip, n, a: bin(d(a[0])).count("1")
    I["core::cmp::Ord::max"] = lambda ip, n, a: max(d(a[0]), d(a[1]))
    I[AGT + "::new"] = lambda ip, n, a: (lambda r: M.some(r) if r is not None else M.none())(ag_parse(d(a[0])))
    I["async_graphql_value::Name::as_str"] = lambda ip, n, a: d(a[0])
    I["trustfall_core::ir::types::base::get_string_type_name_arc"] = lambda ip, n, a: "String"
    I["trustfall_core::ir::types::base::get_int_type_name_arc"] = lambda ip, n, a: "Int"
    I["alloc::sync::Arc::<T, A>::clone"] = lambda ip, n, a: d(a[0])
    I["alloc::sync::Arc::<T, A>::ptr_eq"] = lambda ip, n, a: d(a[0]) is d(a[1])
    I["core::convert::From::from"] = lambda ip, n, a: d(a[0])
    I["core::convert::Into::into"] = lambda ip, n, a: d(a[0])
    return I


def find_display(C):
    fs = [f for f in C.fns if f.get("impl_trait") == "core::fmt::Display" and f.get("self_ty") == TY and f["name"] == "fmt"]
    return fs[0] if fs else None


def display(C, I, tv_struct, fmt_fn):
    f = FormatterV()
    ip = A.Interp(C, I, max_steps=400000)
    res = A.deref(ip.call_fn(fmt_fn, [tv_struct, f]))
    if not (isinstance(res, A.Enum) and res.variant == "Ok"):
        raise A.Unsupported("Display returned %r" % (res,))
    return f.buf


def parse(C, I, s, parse_fn):
    ip = A.Interp(C, I, max_steps=400000)
    return A.deref(ip.call_fn(parse_fn, [s]))
