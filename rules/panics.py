"""RK3 — panic-site inventory: reachable panic-capable constructs, keyed without line numbers."""
from tfv.tast import walk, walk_with_ctx, strip, ekey

PANIC_MACROS = ("unreachable", "panic", "unimplemented", "todo", "assert", "assert_eq", "assert_ne",
                "debug_assert", "debug_assert_eq", "debug_assert_ne")
UNWRAPS = {"unwrap", "expect", "unwrap_err", "expect_err"}
PANICKY_METHODS = {
    "alloc::vec::Vec::<T, A>::remove", "alloc::vec::Vec::<T, A>::swap_remove", "alloc::vec::Vec::<T, A>::insert",
    "alloc::vec::Vec::<T, A>::split_off", "alloc::vec::Vec::<T, A>::drain", "core::slice::<impl [T]>::split_at",
    "core::slice::<impl [T]>::copy_from_slice", "core::str::<impl str>::split_at", "core::cell::RefCell::<T>::borrow_mut",
    "core::cell::RefCell::<T>::borrow", "core::iter::traits::iterator::Iterator::step_by", "core::slice::<impl [T]>::chunks",
    "core::slice::<impl [T]>::windows", "alloc::collections::vec_deque::VecDeque::<T, A>::remove",
    "std::process::exit", "std::process::abort", "core::cell::RefCell::<T>::replace",
}
OP_TRAITS = {"core::fmt::Display", "core::fmt::Debug", "core::cmp::PartialEq", "core::cmp::PartialOrd", "core::cmp::Ord",
             "core::clone::Clone", "core::hash::Hash", "core::default::Default", "core::convert::From", "core::convert::TryFrom",
             "core::ops::index::Index", "core::ops::deref::Deref", "core::ops::drop::Drop", "core::iter::traits::iterator::Iterator",
             "core::convert::AsRef", "core::borrow::Borrow", "core::iter::traits::collect::FromIterator",
             "core::iter::traits::collect::IntoIterator", "core::cmp::Eq", "core::error::Error", "core::str::traits::FromStr"}


def short_ty(s):
    if not s:
        return "?"
    s = s.replace("alloc::collections::btree::map::", "").replace("alloc::collections::btree::set::", "") \
        .replace("std::collections::hash::map::", "").replace("alloc::vec::", "").replace("alloc::sync::", "") \
        .replace("trustfall_core::", "").replace("alloc::string::", "").replace("core::option::", "")
    return s[:90]


def producer(n):
    """Describe what produced the unwrapped value: the callee of the receiver expression (no variable names)."""
    r = strip(n.get("recv") or (n.get("args") or [{}])[0])
    hops = 0
    while r.get("k") in ("mcall", "call") and r.get("name") in ("as_ref", "as_mut", "clone", "cloned", "copied", "as_deref", "map_err", "ok") and hops < 4:
        r = strip(r.get("recv") or (r.get("args") or [{}])[0])
        hops += 1
    k = r.get("k")
    if k in ("mcall", "call"):
        c = (r.get("callee") or r.get("name") or "?")
        return c.split("::<")[0].split("::")[-2:] and "::".join((r.get("callee") or r.get("name") or "?").replace("::<T>", "").replace("::<K, V, A>", "").replace("::<T, A>", "").split("::")[-2:])
    if k == "field":
        return "field:%s.%s" % ((r.get("adt") or "?").split("::")[-1], r["name"])
    if k == "local":
        return "local"
    if k == "index":
        return "index"
    return k or "?"


def first_str_lit(n):
    for x in walk(n):
        if x.get("k") == "lit" and x.get("lk") == "str" and x.get("v"):
            return x["v"]
    return None


def sites_in_fn(C, f):
    """[(kind-key, node)] panic-capable constructs in the AST of f (incl. nested closures)."""
    out = []
    seen_macro_spans = set()
    for n, anc in walk_with_ctx(f["body"]):
        k = n.get("k")
        mac = C.S(n.get("mac")) if n.get("mac") is not None else None
        chain = mac.split(">") if mac else []
        pm = [m for m in chain if m in PANIC_MACROS]
        if pm:
            # one site per macro invocation: take the outermost node of the expansion
            parent_mac = C.S(anc[-1].get("mac")) if anc and anc[-1].get("mac") is not None else None
            if parent_mac == mac:
                continue
            name = pm[-1]
            # derive-generated asserts (e.g. Eq's assert_fields_are_eq) are not panics
            if any(m in chain for m in ("Eq", "Serialize", "Deserialize", "Clone", "Debug", "PartialEq", "Hash", "PartialOrd", "Ord", "Default", "Error")):
                continue
            sp = tuple(n.get("sp") or ())
            if (name, sp) in seen_macro_spans:
                continue
            seen_macro_spans.add((name, sp))
            msg = first_str_lit(n) if name not in ("assert", "debug_assert", "assert_eq", "debug_assert_eq", "assert_ne", "debug_assert_ne") else None
            if name.startswith(("assert", "debug_assert")):
                # identify the assertion by what it tests (callee / field names, no variable names)
                cond = n.get("cond") or n.get("scrut") or n
                names = []
                for x in walk(cond):
                    if x.get("k") in ("call", "mcall") and x.get("name") and not (x.get("callee") or "").startswith("core::panicking"):
                        nm = x["name"]
                        if nm not in names and nm not in ("new", "new_const", "new_display", "new_debug", "none", "fmt", "as_str", "new_v1"):
                            names.append(nm)
                    elif x.get("k") == "field" and x["name"] not in names:
                        names.append("." + x["name"])
                msg = ",".join(names[:4])
            key = "%s!(%s)" % (name, (msg or "")[:60])
            out.append((key, n))
            continue
        if mac and not any(m.startswith("desugar") for m in chain) and any(m in chain for m in ("Serialize", "Deserialize")):
            continue
        if k in ("mcall", "call") and n.get("name") in UNWRAPS:
            c = n.get("callee") or ""
            if c.startswith("core::option::Option") or c.startswith("core::result::Result"):
                if n["name"] in ("expect", "expect_err"):
                    a = n["args"][-1] if n.get("args") else {}
                    msg = strip(a).get("v") if strip(a).get("k") == "lit" else None
                    key = 'expect("%s")<-%s' % ((msg or "?")[:60], producer(n))
                else:
                    key = "%s<-%s" % (n["name"], producer(n))
                out.append((key, n))
                continue
        if k == "index":
            if "callee" in n:
                key = "index %s" % short_ty(C.S(n.get("base_ty")))
            else:
                key = "bounds %s" % short_ty(C.S(n.get("base_ty")))
            out.append((key, n))
            continue
        if k in ("mcall", "call"):
            c = n.get("resolved") or n.get("callee") or ""
            c0 = n.get("callee") or ""
            if c in PANICKY_METHODS or c0 in PANICKY_METHODS:
                out.append(("call %s" % "::".join(c0.split("::")[-2:]), n))
    return out


def arithmetic_sites(C, f):
    """Overflow / division asserts from MIR (root fn + its closures)."""
    out = {}
    for m in C.mir:
        if m["path"] == f["path"] or m.get("root") == f["path"]:
            for a in m["asserts"]:
                if a["kind"].startswith(("overflow", "div_zero", "rem_zero")):
                    mac = C.S(a.get("mac")) if a.get("mac") is not None else ""
                    if any(x in mac for x in ("Serialize", "Deserialize", "Hash", "Debug")):
                        continue
                    out[a["kind"]] = out.get(a["kind"], 0) + 1
    return out


class Graph:
    """Call graph at root-function granularity (closures folded into their root fn)."""
    def __init__(self, C):
        self.C = C
        self.root_of = {}
        for m in C.mir:
            self.root_of[m["path"]] = m.get("root") or m["path"]
        self.local = {f["path"] for f in C.fns}
        # local impls of operator-like traits per ADT (reached through std generic code)
        self.op_impls = {}
        for f in C.fns:
            t = f.get("impl_trait")
            if t in OP_TRAITS and f.get("self_ty"):
                adt = f["self_ty"].split("<")[0].lstrip("&")
                self.op_impls.setdefault(adt, []).append(f["path"])
        self.edges = {}
        for m in C.mir:
            src = self.root_of[m["path"]]
            dst = self.edges.setdefault(src, set())
            for c in m["calls"] + m.get("fnrefs", []):
                tgt = c.get("resolved") or c.get("callee") or ""
                if tgt in self.root_of:
                    dst.add(self.root_of[tgt])
                elif tgt in self.local:
                    dst.add(tgt)
                else:
                    # foreign generic code instantiated with local types may call their operator impls
                    for g in c.get("gargs", []) or []:
                        base = g.split("<")[0].lstrip("&").replace("mut ", "")
                        for p in self.op_impls.get(base, ()):
                            dst.add(p)
                    st = (c.get("self_ty") or "").split("<")[0].lstrip("&")
                    for p in self.op_impls.get(st, ()):
                        dst.add(p)

    def reach(self, entries, stop=()):
        seen = set()
        todo = [e for e in entries]
        parent = {}
        while todo:
            x = todo.pop()
            if x in seen or x in stop:
                continue
            seen.add(x)
            for y in self.edges.get(x, ()):
                if y not in seen:
                    parent.setdefault(y, x)
                    todo.append(y)
        return seen, parent

    def path_to(self, parent, x, limit=8):
        p = [x]
        while x in parent and len(p) < limit:
            x = parent[x]
            p.append(x)
        return list(reversed(p))


def inventory(C, entries, stop=()):
    g = Graph(C)
    seen, parent = g.reach(entries, stop)
    inv = {}
    for f in C.fns:
        if f["path"] not in seen or "::tests::" in f["path"] or "::test::" in f["path"]:
            continue
        for key, n in sites_in_fn(C, f):
            inv.setdefault((f["path"], key), []).append(n)
        for kind, cnt in arithmetic_sites(C, f).items():
            inv.setdefault((f["path"], kind), []).extend([{"sp": f["sp"]}] * cnt)
    return inv, seen, parent, g
