"""Per-property metadata for MANIFEST.json (tools/gen_manifest.py)."""

ENGINE = "factgen+tfv"

NOT_APPLICABLE = {
    "C01": "functional equivalence of the lazy interpreter with the declarative semantics over all queries x "
           "datasets is not a property of the code's shape; its structural clauses are claimed under C07, C13, "
           "C21, C22 (DESIGN.md section 8)",
    "C23": "metamorphic relations between the results of different query executions; no static clause implies "
           "them (DESIGN.md section 8)",
}

# id -> dict(text, note, technique, design_ref, category)
CHECKS = {
    "C02": dict(
        category="other",
        text="Decides the discipline that makes adapter read-ahead harmless, not result equality: every carrier.query.take() "
             "and its restore are sibling statements of one block (restore post-dominates take) with no early exit, no use / "
             "clone / read of the carrier in between, every one of the 11 adapter calls lies inside such a bracket and gets "
             "the taken query through Resolve(Edge)Info whose into_inner() is restored; no engine closure or struct captures "
             "or stores Rc/RefCell/Cell/locks/atomics; closures calling adapters own a carrier clone (by value) made outside "
             "every bracket.",
        note="trusted: rustc borrow checking (no aliasing of &mut carrier), the adapter preserves context order",
        technique="static analysis: pairing / path rule over structured typed HIR + closure capture and ADT field walks",
        design_ref="DESIGN.md section 4 C02"),
    "C03": dict(
        category="other",
        text="Phase/effect analysis: construction-phase code (function bodies outside closures, reachable while interpret_ir "
             "builds the pipeline) never calls a consuming method on an iterator of contexts/vertices (only lazy std adapters); "
             "no closure captures and no engine struct stores an upstream context iterator, so lazy-phase consumers drain only "
             "per-context data; the two hand-written expanders pull at most once per next(), never in a loop; the "
             "starting-vertex iterator is wrapped in lazy adapters only.",
        note="trusted: laziness of std iterator adapters; the adapter itself does not read ahead",
        technique="static analysis: phase labelling of functions/closures + effect (iterator consumption) rules over typed HIR",
        design_ref="DESIGN.md section 4 C03"),
    "C05": dict(
        category="other",
        text="Every resolve_property call site of the engine is classified by the provenance of its property-name argument "
             "(followed through parameters to all internal call sites): output, filter subject, tag in vertex filter, tag in "
             "fold post-filter, imported tag; unclassifiable sites fail. For each class that occurs, the data flow into the "
             "iterator returned by VertexInfo::required_properties must include the IR source of that class, restricted to the "
             "asked vertex; required_properties is also abstractly evaluated on sample IR holding one request of every class at "
             "every position (own vertex, later vertex, fold count filter, imported into a fold): each must be listed for the "
             "vertex that owns it and for no other. Decides that no class / position of request is invisible to the hint, not "
             "set equality for every query.",
        note="trusted: rustc resolution; provenance closure is intra-crate with call-site substitution (depth 5)",
        technique="static analysis: inter-procedural provenance of call arguments + result data-flow footprint",
        design_ref="DESIGN.md section 4 C05"),
    "C11": dict(
        category="other",
        text="frontend::parse goes through IndexedQuery::try_from on every success path; the indexer is abstractly evaluated "
             "on a well-formed two-component query and on one malformed variant per structural invariant (18 variants), each "
             "rejected with its own code; id generators advance in lockstep (+1 from 1, root vid unpaired); complete decision "
             "table of TagHandler::reference_tag (224 cases: defining / using path x order x property tag or fold-count tag - "
             "defined from the fold's root vertex on - x tag already used elsewhere, incl. import level); begin/end_subcomponent pairing; "
             "variable collection sources; the tag table is evaluated with and without the tag already used elsewhere (history "
             "independence); the two component stacks (ComponentPath, tag handler) are advanced and unwound in lockstep with no early "
             "exit between; fill_in_query_variables is evaluated with one variable used at two places (two vertices, vertex + "
             "fold count filter, vertex + vertex inside a fold) for every ordered pair of inferred types: the recorded type is "
             "the greatest common subtype of the uses or the incompatible-requirements error. Not decided: invariants beyond "
             "what indexer + lockstep imply.",
        note="trusted: collection model (stdmodel.py), Type model; the indexer's checks are the definition of well-formed",
        technique="static analysis: abstract interpretation of indexer / tag handler over IR shapes + structural pairing rules",
        design_ref="DESIGN.md section 4 C11"),
    "C13": dict(
        category="other",
        text="Narrow: complete table of the output-type wrapper (optional -> nullable; one list per enclosing fold, outermost "
             "first, list nullable iff that fold is under @optional) by abstract evaluation; optional-vertex closure over "
             "component shapes; push/recursive-call/pop pairing of the fold-optional stack; fold count declared Int! and "
             "produced as Uint64(len), null only for non-existent folds; engine and indexer read the same output sources; "
             "decision table of the context suspension methods (suspending is idempotent, un-suspending restores the saved vertex, "
             "nothing else changes) - the vertex a suspended context is restored to is what its outputs are read from; a fold "
             "element without a nested value contributes null, one with a value contributes it unchanged; the worklist that fills "
             "the defaults of an empty fold reaches every output of every nested fold. "
             "Not decided: validity of adapter-supplied values.",
        note="trusted: Type model (C17), collection model",
        technique="static analysis: abstract interpretation of indexer helpers + pairing / footprint rules",
        design_ref="DESIGN.md section 4 C13"),
    "C04": dict(
        category="other",
        text="Decides structural clauses: all three places that turn a filter operator into a candidate value use a "
             "shape containing every value that satisfies the operator (sibling tables + reference of sound shapes); "
             "hint entry points return no information before reading filters when filters do not bind; the "
             "within_optional_scope formula of every look-ahead NeighborInfo (truth table over inherited scope, "
             "edge optionality, fold-needs-an-element); is_mandatory and fold_requires_at_least_one_element tables; the "
             "static hint is abstractly evaluated on every set of one or two filters over a small ordered universe and must "
             "contain every satisfying value; in dynamically_required_property the operator and the tag come from one "
             "@filter and tags of vertices not yet computed are not used. Range/CandidateValue algebra itself rests on C06.",
        note="trusted: rustc resolution/typeck; Range/CandidateValue operations as decided under C06; one genuine "
             "defect is listed in known_findings.json (a pinned test asserts the defective hint)",
        technique="static analysis: dispatch-table and boolean-formula extraction over rustc typed HIR, provenance of struct fields",
        design_ref="DESIGN.md section 4 C04"),
    "C06": dict(
        category="other",
        text="Complete decision tables: Range/CandidateValue code touches payload values only through comparisons, "
             "is_null, clone and move (anything else makes the evaluator fail closed), so the behaviour is a function "
             "of the order type of the values involved. The check abstractly evaluates the typed AST of contains, "
             "intersect, degenerate, normalize, exclude_single_value on representatives of every order class "
             "(114 candidate shapes, 12996 pairs) and compares membership over a dense universe with the set definitions.",
        note="trusted: rustc typed HIR; the payload order is total on non-null values (C08); membership compared over a "
             "dense order abstraction; the mini-evaluator's model of Vec::retain/contains/pop, mem::swap, vec!",
        technique="static analysis: abstract interpretation of the typed HIR over order classes (exhaustive decision tables)",
        design_ref="DESIGN.md section 4 C06"),
    "C07": dict(
        category="other",
        text="Both Operation dispatch tables map each operator to a function with the right role, negated forms to `!f`; "
             "the operator-name tables are inverse bijections; the functions dispatched for =,<,<=,>,>= are decided "
             "semantically: their typed AST is abstractly evaluated on boundary representatives of every integer class "
             "(negative, zero, i64::MAX, beyond i64::MAX, u64::MAX; mixed signed/unsigned), same-type scalars and null, "
             "and compared with the mathematical definition; optional pass-through truth table. Not decided: string "
             "primitives and regex (std / regex crate), list operands.",
        note="trusted: rustc resolution/typeck, std integer comparisons and TryFrom, str primitives, regex crate",
        technique="static analysis: dispatch-table extraction + abstract interpretation of comparison functions over integer classes",
        design_ref="DESIGN.md section 4 C07"),
    "C12": dict(
        category="other",
        text="InterpretedQuery::from_query_and_arguments is abstractly evaluated (typed AST; BTreeMap/Vec/iterators modelled) "
             "on every combination of per-variable status (missing/valid/invalid) for up to two variables plus an optional "
             "unused argument: Ok exactly when nothing is missing, unused or ill-typed, otherwise exactly the offending names in "
             "the right error kinds; complete table of Type::is_valid_value (depth <= 2, four scalar bases, nested lists) and of "
             "the per-operator variable-type inference against their definitions; a variable's type is the greatest common subtype "
             "of its uses (C17's intersect table and C11's collection rule re-evaluated as guards). Uniformity in the number of "
             "variables is assumed.",
        note="trusted: the std collection model in tfv/stdmodel.py, the algebraic Type model (tymodel.py)",
        technique="static analysis: abstract interpretation of the typed HIR over status / type classes (decision tables)",
        design_ref="DESIGN.md section 4 C12"),
    "C15": dict(
        category="other",
        text="Narrow structural clauses: the serialized mirror of DataContext has the same fields/types and both conversions "
             "move every field; per resolver the set of trace operations the recording adapter writes equals the set the "
             "replaying reader accepts (the readers end in `_ => unreachable!()`, so rustc does not check this); the recording "
             "closures return the inner adapter's items unchanged; every replay reader buffers pending input contexts first-in-"
             "first-out (needed when the recorded adapter had several contexts in flight); no RefMut of the tracer cell is alive "
             "across a call into the wrapped adapter (a nested recording adapter call would panic on the second borrow); the "
             "two helper iterators that write AdvanceInputIterator / *IteratorExhausted are evaluated with an effect counter: the "
             "action runs exactly at the pull that calls for it, and nothing else (no Drop impl) runs it; no exit of a recording "
             "closure precedes its record(..) and every inner iterator handed back is the tapped one. Not decided: equality "
             "of rows.",
        note="trusted: Iterator::inspect/map semantics; serde round-trip of the trace (C16)",
        technique="static analysis: ADT mirror comparison + writer/reader variant-set agreement over typed HIR",
        design_ref="DESIGN.md section 4 C15"),
    "C16": dict(
        category="other",
        text="Narrow structural clauses read from the expanded serde derives in the typed HIR: every field omitted under "
             "predicate P is read back through a default D with P(D) true (47 fields); Type serializes via Display and "
             "deserializes via Type::parse; TransparentValue is untagged and tries Null, Int64, Uint64, Float64 in that order; "
             "FieldValue <-> TransparentValue are identities on variants and payloads; Display(Type) is the GraphQL text and "
             "Type::parse(Display(t)) == t for every list depth 0..30 (both interpreted on the real bit-mask representation, "
             "async-graphql-parser's Type::new modelled from its source); the equality the round trip is judged by is numeric on "
             "integers, also inside lists (the untagged form does not keep Int64 vs Uint64; C08 r5/r7 re-evaluated); custom "
             "deserialize_with / serialize_with hooks are inventoried (none today) and float hooks evaluated over every float "
             "class. Not decided: "
             "serde/serde_json/ron themselves.",
        note="trusted: serde's derive semantics as seen in its expansion; std Default impls",
        technique="static analysis: facts extracted from expanded derive code in typed HIR + variant tables",
        design_ref="DESIGN.md section 4 C16"),
    "C17": dict(
        category="other",
        text="Complete tables of Type::intersect, is_scalar_only_subtype, equal_ignoring_nullability, is_valid_value over all "
             "types of list depth <= 2 (base case and inductive step of the structural recursion) by abstract evaluation of "
             "their typed AST over the algebraic model of types; lattice laws checked on the tables (meet: commutative, "
             "idempotent, lower bound, greatest, None iff shapes differ; partial order; upward-closed validity; equivalence). "
             "The operations are interpreted on the real representation (base name + modifier bit mask, the accessors' own "
             "mask arithmetic included; base names as separately allocated Arc<str>, so a pointer-equality shortcut is not "
             "mistaken for name equality) and also on deep types (list depth 3, 10, 29, 30).",
        note="trusted: the primitive accessors implement the algebraic view; recursion uniform in depth",
        technique="static analysis: abstract interpretation over an algebraic type model + law checking on finite tables",
        design_ref="DESIGN.md section 4 C17"),
    "C18": dict(
        category="other",
        text="No lossy numeric `as` cast in the serialization module (MIR cast scan); sibling table: every sized-integer entry "
             "point deserialize_T uses TryInto<T>, propagates the error and calls visit_T for both integer variants, everything "
             "else forwards to deserialize_any whose variant table is the identity; deserialize_tuple rejects a length mismatch "
             "first; undeclared (skipped) values are not decoded - deserialize_ignored_any does not reach a panicking arm of "
             "deserialize_any; the row-level MapAccess hands over every entry once, in order, key then its own value, null values "
             "included (effect table). One known finding (Enum -> todo!()).",
        note="trusted: serde visitors, std TryFrom",
        technique="static analysis: MIR cast scan + sibling dispatch-table agreement over typed HIR",
        design_ref="DESIGN.md section 4 C18"),
    "C14": dict(
        category="other",
        text="Decides that no process-dependent input can reach a compiled query, an error or a row: no hash container "
             "inside compared/serialized/returned types (field walk from IRQuery, IndexedQuery, the error enums, traces); "
             "every HashMap/HashSet iteration in trustfall_core (found by receiver type, local or foreign) flows into an "
             "order-insensitive consumer (sort, BTree/Hash collection, len/any/all/min/max, collect+sort) or an audited "
             "site; no call into time/env/thread-id/RandomState::new, no pointer-to-integer cast; rows are BTreeMaps. "
             "Not decided: determinism of the adapter itself.",
        note="trusted: BTreeMap key order, itertools::sorted*, std sort; three audited iteration sites carry their reason in the rule table",
        technique="static analysis: type-structure walk + consumer classification of hash iterations over typed HIR + MIR call scan",
        design_ref="DESIGN.md section 4 C14"),
    "C24": dict(
        category="proof",
        text="r1 is the property's first clause itself: Send + Sync (+ 'static) obligations for Schema, IndexedQuery, IRQuery, "
             "IRQueryComponent, InterpretedQuery, FieldValue, Type, EdgeParameters, FrontendError, Output (and Arc of the first "
             "two) are discharged by rustc's trait solver on a witness crate type-checked against the current tree; "
             "compile_fail,E0277 twins (thorough) show the witness can fail. r2/r3 (structural): no cell/lock/atomic/Rc/raw "
             "pointer in any local ADT reachable from those types and no mutable/thread-local statics, so concurrent use only "
             "reads shared values and equals sequential use.",
        note="trusted: rustc's auto-trait solver; foreign types are opaque to r2 (listed in evidence); r2/r3 are structural, not a proof of result equality",
        technique="type-level witness (rustc trait solver, compile_fail twins) + ADT field walk",
        design_ref="DESIGN.md section 4 C24"),
    "C08": dict(
        category="other",
        text="Complete table of <FieldValue as PartialEq>::eq and PartialOrd::partial_cmp over boundary representatives "
             "of every scalar class, by abstract evaluation of the typed AST; the algebraic laws (totality, eq iff Equal, "
             "reflexive/symmetric/transitive, antisymmetry, transitivity, numeric agreement on mixed integers) are "
             "checked on the table; discriminant table equals declaration order; lists (mixed Int64/Uint64 elements, nulls, "
             "nested) compare like the tuples of their numeric values.",
        note="trusted: std integer comparison / TryFrom; floats finite (both zeros included, f64::total_cmp modelled); slice comparison is lexicographic over the element order",
        technique="static analysis: abstract interpretation of the typed HIR over value classes + law checking on the finite table",
        design_ref="DESIGN.md section 4 C08"),
    "C09": dict(
        category="other",
        text="Panic-site inventory: every panic-capable construct (unwrap/expect, indexing, panic-family macros, asserts, "
             "overflow checks) in functions reachable (MIR call graph, closures included) from interpret_ir and from the hint API "
             "an adapter may call during execution must carry an audit entry (function, construct, count -> class + reason) or be a "
             "listed known finding; an unaudited or additional site is a violation. The guards the audit leans on are checked "
             "structurally: arguments validated before the first adapter call (G-ARGS) and validation admits exactly the values of "
             "the variable's type (G-ARGS-TABLE: C12 r1/r2 re-evaluated), carrier bracket discipline (C02 r1/r3), "
             "operand types validated by the frontend (G-OPTYPES). Decides that the reachable set equals the audited set and that "
             "guards are in place, not that every audited reason is true for all inputs. The comparison functions' own panic sites "
             "are discharged semantically: evaluated on every operand pair the frontend admits (null on either side included) they "
             "never reach a panic; the @recurse entry / exit closures are evaluated in sequence on every arriving context shape "
             "(source vertex absent included): no panic and the context is restored.",
        note="trusted: the hand-made audit reasons; the curated list of panicking std APIs; the adapter honours its contract; "
             "nine genuine defects are listed in known_findings.json (three more were repaired in /repo)",
        technique="static analysis: call-graph reachability + panic-site inventory against an audit table + structural guard rules",
        design_ref="DESIGN.md section 4 C09"),
    "C10": dict(
        category="other",
        text="Panic-site inventory as in C09 with entries frontend::parse / parse_to_ir (query text + schema): the reachable set "
             "of panic-capable constructs must equal the audited set; guards checked structurally (validation against the schema "
             "before lowering, root directives rejected before the root assertions, operand types validated and errors "
             "propagated; the well-formedness tables of C11 re-evaluated, because later `unreachable!`s lean on them; the root "
             "field must be an edge; duplicate vertex / output names reported before the maps that assume uniqueness are built; "
             "string slicing only at char boundaries); operand_types_valid and its five validity functions are abstractly "
             "evaluated for every operator x property type x right-hand side and never reach a panic; every recursive cycle "
             "reachable from parse is inventoried and classified (bounded / one level per nesting level of the query text) - the "
             "missing nesting limit is a listed known finding.",
        note="trusted: audit reasons made by reading; async-graphql-parser returns well-formed documents and does not panic itself",
        technique="static analysis: call-graph reachability + panic-site inventory + abstract evaluation of the operand-type validators",
        design_ref="DESIGN.md section 4 C10"),
    "C19": dict(
        category="other",
        text="Panic-site inventory with entries Schema::parse / Schema::new (reachable set = audited set + listed known findings); "
             "Schema::new calls all seven validation passes, merges their errors and returns Ok exactly when none was reported; "
             "every InvalidSchemaError variant is still constructed (no rule silently dropped); validation loops examine every "
             "element (early exits inside them are `return Err` or audited); every name scope of a schema document has a "
             "duplicate check (two scopes without one are listed known findings); get_field_origins waits for exactly the "
             "implemented types it later looks up (same predicate on both sides). Not decided: that the implemented rules are "
             "exactly the documented ones.",
        note="trusted: audit reasons; async-graphql-parser rejects empty documents; nine genuine defects (seven panics, two missing duplicate checks) are listed in known_findings.json",
        technique="static analysis: call-graph reachability + panic-site inventory + must-call / merge path rule",
        design_ref="DESIGN.md section 4 C19"),
    "C20": dict(
        category="other",
        text="Narrow: the (type, property), (type, edge) and entry-point names declared in the introspection schema file are "
             "exactly the string-dispatch arms of the introspection adapter (both directions); every property arm reads the "
             "accessor of the same name on its own vertex kind; every arm is built by the contract helpers "
             "resolve_property_with / resolve_neighbors_with and no coercion is reachable; the semantic accessors read what "
             "they name (to_many = list, at_least_one = non-null, is_interface = interface kind), properties/edges partition "
             "fields by vertex-typedness, entry points are the root query type's fields and the root type is not a vertex type; "
             "decision table of the computed EdgeParameter.default (declared default, else null if nullable, else none); the "
             "property / edge resolvers evaluated over every field-type shape (scalars, lists nested up to three levels, vertices): "
             "every field is listed exactly once, on the right side, with its exact type; the implements / implementer resolvers "
             "evaluated on an interface hierarchy (interfaces implementing interfaces): declared list, itself + every declaring "
             "type, inverse relations; every exit of the adapter's resolvers hands `contexts` to a contract helper.",
        note="trusted: async-graphql-parser's TypeDefinition/FieldDefinition meaning; exactness for a concrete schema is not decided beyond these clauses",
        technique="static analysis: string-dispatch table extraction vs the schema file + accessor footprint rules over typed HIR",
        design_ref="DESIGN.md section 4 C20"),
    "C21": dict(
        category="other",
        text="For each adapter call site of the engine: the vertex id used for the type name, the one the contexts were activated "
             "on and the one in ResolveInfo/ResolveEdgeInfo have the same origin; property/edge/parameters come from the same IR "
             "node; coercion is called with (coerced_from_type, type_name) of one vertex and recursion re-coerces with (edge "
             "endpoint type, coerce_to); make_edge_parameters is abstractly evaluated over declared (nullable?, default?) x "
             "supplied (absent/valid/ill-typed) plus an undeclared argument: result holds exactly the declared names with explicit, "
             "default or null values, otherwise the matching errors; expand_recursive_edge is abstractly evaluated for depth 1..5 x "
             "implicit coercion x destination coercion with the context iterator abstracted to the type of its active vertices: "
             "the type named at every resolve_neighbors / resolve_coercion equals that typestate (coerce_to only after a "
             "suspending re-coercion before that very expansion); decision table of get_recurse_implicit_coercion over one schema "
             "per documented case x recursion depth (the decision does not depend on the depth from depth 2 on); Type::is_valid_value "
             "equals its definition (C12 r2 re-evaluated), so a parameter value is of the declared type.",
        note="trusted: well-formed IR (C11); Type / collection models; uniformity of the recursion loop beyond depth 5",
        technique="static analysis: same-origin provenance of call arguments + abstract evaluation of edge-parameter construction",
        design_ref="DESIGN.md section 4 C21"),
    "C22": dict(
        category="other",
        text="The data flow into the minimum-size argument of fold materialisation depends on every observer of the fold (outputs "
             "inside, nested fold outputs, count output, count tags used by parent filters and sibling folds); the max/min limit "
             "functions and collect_fold_elements are abstractly evaluated for every set of one or two count filters over small "
             "values and every true fold size, and with limits at the top of the integer range: early-terminated outcome equals the "
             "full-materialisation outcome; every post-filter "
             "is applied after materialisation; the maximum path discards only after pulling exactly one element beyond the limit; "
             "the truncation decision itself is evaluated on sample IR with one observer present at a time (no truncation whenever "
             "anything observes the fold; controls show the table is not vacuous).",
        note="trusted: count filters compare integers (frontend type check); collection/iterator model (stdmodel.py); uniformity beyond the small values enumerated",
        technique="static analysis: data-flow dependence of the truncation decision + abstract interpretation of the limit functions",
        design_ref="DESIGN.md section 4 C22"),
    "C25": dict(
        category="other",
        text="Narrow: check_adapter_invariants runs the three sibling checkers; each (located as the function calling the resolver "
             "under test) holds the same three obligations: an outcome assertion on every yielded item inside the loop, an equality "
             "assertion on the number of contexts, and an equality assertion on the order tags of given vs received contexts; probe "
             "contexts have no active vertex and a distinct order tag from the loop variable; the items the checkers skip are "
             "inventoried (one known finding: edges with a parameter that has no default) and a null default counts as a default; "
             "the property checker's probe query reaches every vertex type (the `property` edge is folded or optional, so a type "
             "without properties does not hide the others) and adds __typename for each; the rows of each introspection query reach "
             "the probing loop through count-preserving steps only (no filter / take / dedup / collect into a map or set). "
             "Not decided: that each assertion is strong enough for every adapter.",
        note="trusted: assert macros' expansion as seen in HIR; edges with required parameters are skipped by the checker itself",
        technique="static analysis: sibling-agreement of assertion obligations over typed HIR",
        design_ref="DESIGN.md section 4 C25"),
    "C26": dict(
        category="other",
        text="Narrow: identifier hygiene of the stub generator, decided for every schema name. Each emitted identifier is "
             "Ident::new(f(name)); f is extracted from the typed HIR as a term over the crate's string helpers (format! decoded "
             "from its lowered template) and evaluated by abstract evaluation of the helpers on every string over the character "
             "classes they distinguish up to a length bound plus every Rust keyword in every folding capitalisation: the result is "
             "always a legal non-keyword identifier; the escape table covers the Rust Reference's strict and reserved keywords; "
             "two names of one namespace that produce one identifier are always rejected by a conflict guard that runs before "
             "generation; fixed parameter names cannot be produced from schema parameter names; every generated reference (path "
             "call, as_<variant>() method via the derive crate's own naming function) names a generated definition; the scalar "
             "type tables agree with FieldValue's accessor signatures; for every parameter type (4 scalars x list depth <= 2 x "
             "all nullability patterns) the declared Rust type and the type of the generated conversion expression (quote!'s token "
             "pushes modelled as a token list, typed as a method chain) both equal the type the Trustfall type denotes. Not "
             "decided: that the remaining token streams are well-formed Rust (the three pinned stub tests compile them).",
        note="trusted: string/char model in stdmodel.py (ASCII class behaviour of is_uppercase/to_lowercase), the frozen "
             "namespace table of generator sites, syn/quote/prettyplease; four genuine parameter-name collisions are listed in known_findings.json",
        technique="static analysis: term extraction from typed HIR + abstract interpretation of the naming helpers over character classes",
        design_ref="DESIGN.md section 4 C26"),
    "C27": dict(
        category="other",
        text="Narrow: the value conversions and the shim wiring of the Python bindings. Complete decision table of "
             "<FieldValue as FromPyObject>::extract by abstract evaluation over one Python object per class the conversions can "
             "distinguish (None, bools, integers at every 64-bit boundary, floats: finite, +-0, subnormal, nan, +-inf; str, str with a lone surrogate, unsupported objects, "
             "lists incl. nested, with nulls, mixed and failing elements) against the faithful conversion; table of into_pyobject "
             "and the round trip; both From conversions with trustfall_core's FieldValue are identities (lists elementwise); "
             "arguments and rows are converted entry by entry with errors propagated as Python exceptions; every AdapterShim "
             "resolver calls the Python method of its own name with arguments in API order and pairs tuple element 0 (context) "
             "with element 1 (value); no numeric `as` cast in the bindings. Not decided: equality of rows across the language "
             "boundary, the Python-side adapter, pyo3 itself.",
        note="trusted: the pyo3 0.29 conversion model written from its documentation (bool exact; integer extraction by range; f64 "
             "extraction accepts ints); integers outside 64 bits are outside the property's value kinds",
        technique="static analysis: abstract interpretation of the conversion impls over Python object classes + structural wiring rules over typed HIR + MIR cast scan",
        design_ref="DESIGN.md section 4 C27"),
}
