"""Per-property metadata for MANIFEST.json (tools/gen_manifest.py)."""

ENGINE = "factgen+tfv"

NOT_APPLICABLE = {
    "C01": "functional equivalence of the lazy interpreter with the declarative semantics over all queries x "
           "datasets is not a property of the code's shape; its structural clauses are claimed under C07, C13, "
           "C21, C22 (DESIGN.md section 8)",
    "C23": "metamorphic relations between the results of different query executions; no static clause implies "
           "them (DESIGN.md section 8)",
}

# id -> dict(text, note, technique, design_ref, category)
CHECKS = {
    "C07": dict(
        category="other",
        text="Decides structural clauses only: both Operation dispatch tables map each operator to the function "
             "whose role (read off its body: which comparison / std string primitive it uses) is the operator's "
             "definition, negated forms to `!f`; name tables are inverse bijections; each ordering function and "
             "its slow path use one comparison operator; mixed-sign branch constants and null arms; optional "
             "pass-through truth table. Not decided: the 2^128 integer pairs themselves (std's conversions are trusted).",
        note="trusted: rustc resolution/typeck, std integer/str primitives, regex crate; roles are recognised "
             "from resolved callees, not names",
        technique="static analysis: dispatch-table extraction over rustc typed HIR (custom rustc_private driver) + truth tables",
        design_ref="DESIGN.md section 4 C07"),
}
