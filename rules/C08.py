"""C08 — field values: consistent equality and total order.

The PartialEq / PartialOrd impls of FieldValue touch their payloads only through comparisons and checked
integer conversions, so their result is a function of (variant pair, sign / range class, order relation).
The rule abstractly evaluates the typed AST of `eq` and `partial_cmp` on boundary representatives of every
such class and checks the algebraic laws on the resulting complete table.
"""
import itertools

from tfv import absint as A
from tfv.tast import walk
from tfv.tables import matches_over, variant_table, arm_value
from . import fvalue as F

EXPLANATION = ("Complete decision table of <FieldValue as PartialEq>::eq and <FieldValue as PartialOrd>::partial_cmp "
               "over boundary representatives of every scalar class (null, i64 min/-2/-1/0/1/2/max, u64 0/1/2/i64max/"
               "i64max+1/max, two ranked floats, strings, booleans, enum names), obtained by abstract evaluation of the "
               "typed AST; laws checked on the table: totality, eq <=> Equal, reflexive/symmetric/transitive equality, "
               "antisymmetry and transitivity of the order, agreement with numeric order on integers. List values are "
               "not enumerated (their comparison delegates to std's slice comparison over the same element order).")
ASSUMPTIONS = ["std's i64/u64 comparisons and TryFrom conversions behave as documented",
               "floats are finite (FieldValue constructors reject NaN/inf; the impl asserts it)",
               "list comparison is std's lexicographic slice comparison over the element order decided here"]

FV = F.FV


def run(ctx, R):
    C = ctx.core
    R.rule("r1", "partial_cmp is total: Some(_) for every pair of scalar representatives")
    R.rule("r2", "eq(a,b) holds exactly when partial_cmp(a,b) is Equal")
    R.rule("r3", "equality is reflexive, symmetric and transitive on the table")
    R.rule("r4", "order is antisymmetric (cmp(b,a) = reverse cmp(a,b)) and transitive on the table")
    R.rule("r5", "on integers (Int64 x Uint64 in any mix) eq / order equal numeric equality / order, incl. values beyond i64::MAX and negatives")
    R.rule("r6", "discriminant() table equals the variant declaration order (cross-variant order is the documented variant order)")

    eq = [f for f in C.fns if f.get("impl_trait") == "core::cmp::PartialEq" and f.get("self_ty") == FV and f["name"] == "eq"]
    pc = [f for f in C.fns if f.get("impl_trait") == "core::cmp::PartialOrd" and f.get("self_ty") == FV and f["name"] == "partial_cmp"]
    if len(eq) != 1 or len(pc) != 1:
        R.fail("anchor", "impls", "-", "expected one hand-written PartialEq::eq and PartialOrd::partial_cmp for FieldValue, found %d / %d" % (len(eq), len(pc)))
        return
    eq, pc = eq[0], pc[0]
    derived = eq.get("body", {}).get("mac") is not None
    reps = F.representatives() + F.list_representatives()
    R.units["representatives"] = len(reps)
    intr = F.intrinsics()
    EQ, CMP = {}, {}
    try:
        for (la, ma, na), (lb, mb, nb) in itertools.product(reps, reps):
            ip = A.Interp(C, intrinsics=intr)
            EQ[(la, lb)] = ip.truth(ip.call_fn(eq, [ma(), mb()]))
            ip = A.Interp(C, intrinsics=intr)
            o = A.deref(ip.call_fn(pc, [ma(), mb()]))
            CMP[(la, lb)] = None if o.variant == "None" else A.deref(o.fields[0]).variant
    except A.Unsupported as e:
        R.fail("engine", "unanalysable", C.loc(eq["sp"]), "abstract evaluation of eq/partial_cmp met an unsupported construct: %s (fail closed)" % e)
        return
    except A.PanicReached as e:
        R.fail("r1", "panic", C.loc(pc["sp"]), "eq/partial_cmp reaches a panic on scalar inputs: %s" % e.what)
        return
    R.extra["pairs_evaluated"] = len(EQ)
    labels = [l for l, _, _ in reps]
    nums = {l: n for l, _, n in reps}
    where = C.loc(pc["sp"])

    def first_bad(it):
        for x in it:
            return x
        return None

    b = first_bad((a, b_) for a in labels for b_ in labels if CMP[(a, b_)] is None)
    R.check(b is None, "r1", "totality", where, "partial_cmp%s is None" % (b,), {"pairs": len(CMP)})
    b = first_bad((a, b_, EQ[(a, b_)], CMP[(a, b_)]) for a in labels for b_ in labels if EQ[(a, b_)] != (CMP[(a, b_)] == "Equal"))
    R.check(b is None, "r2", "eq-iff-Equal", C.loc(eq["sp"]), "eq and partial_cmp disagree: %s" % (b,))
    b = first_bad(a for a in labels if not EQ[(a, a)])
    R.check(b is None, "r3", "reflexive", C.loc(eq["sp"]), "eq(%s, %s) is false" % (b, b))
    b = first_bad((a, b_) for a in labels for b_ in labels if EQ[(a, b_)] != EQ[(b_, a)])
    R.check(b is None, "r3", "symmetric", C.loc(eq["sp"]), "eq is not symmetric for %s" % (b,))
    b = first_bad((a, b_, c) for a in labels for b_ in labels if EQ[(a, b_)] for c in labels if EQ[(b_, c)] and not EQ[(a, c)])
    R.check(b is None, "r3", "transitive", C.loc(eq["sp"]), "eq is not transitive for %s" % (b,))
    rev = {"Less": "Greater", "Greater": "Less", "Equal": "Equal", None: None}
    b = first_bad((a, b_, CMP[(a, b_)], CMP[(b_, a)]) for a in labels for b_ in labels if CMP[(b_, a)] != rev[CMP[(a, b_)]])
    R.check(b is None, "r4", "antisymmetric", where, "cmp(b,a) is not the reverse of cmp(a,b): %s" % (b,))
    le = lambda x, y: CMP[(x, y)] in ("Less", "Equal")
    b = first_bad((a, b_, c) for a in labels for b_ in labels if le(a, b_) for c in labels if le(b_, c) and not le(a, c))
    R.check(b is None, "r4", "transitive", where, "order is not transitive: %s" % (b,))
    ints = [l for l in labels if isinstance(nums[l], int)]
    R.floor("r5", "integer representatives", len(ints), 12)
    def ncmp(x, y):
        return "Less" if x < y else "Greater" if x > y else "Equal"
    b = first_bad((a, b_, CMP[(a, b_)]) for a in ints for b_ in ints if CMP[(a, b_)] != ncmp(nums[a], nums[b_]))
    R.check(b is None, "r5", "numeric-order", where, "integer order differs from numeric order: %s" % (b,))
    b = first_bad((a, b_) for a in ints for b_ in ints if EQ[(a, b_)] != (nums[a] == nums[b_]))
    R.check(b is None, "r5", "numeric-equality", C.loc(eq["sp"]), "integer equality differs from numeric equality: %s" % (b,))
    for cls in ("neg-signed x beyond-i64", "nonneg-signed x beyond-i64", "signed x small-unsigned", "same-type"):
        R.ok("r5", "class/%s" % cls)

    # r7: lists compare elementwise with the same integer semantics (lexicographic numeric order, nested lists included)
    R.rule("r7", "lists of integers (any mix of Int64 / Uint64, nested) are equal / ordered like the tuples of their numeric values")
    lists = [l for l in labels if isinstance(nums[l], tuple)]
    R.floor("r7", "integer-list representatives", len(lists), 10)
    def depth(t):
        return 0 if not t else (1 + max(depth(x) if isinstance(x, tuple) else 0 for x in t))

    def comparable(x, y):            # same nesting depth (an empty list is a prefix of everything)
        return not nums[x] or not nums[y] or depth(nums[x]) == depth(nums[y])
    pairs = [(a, b_) for a in lists for b_ in lists if comparable(a, b_)]
    b = first_bad((a, b_, EQ[(a, b_)]) for a, b_ in pairs if EQ[(a, b_)] != (nums[a] == nums[b_]))
    R.check(b is None, "r7", "list-numeric-equality", C.loc(eq["sp"]),
            "list equality differs from elementwise numeric equality (signed and unsigned integers of the same value must be equal inside lists too): %s" % (b,))
    b = first_bad((a, b_, CMP[(a, b_)]) for a, b_ in pairs if CMP[(a, b_)] != ncmp(nums[a], nums[b_]))
    R.check(b is None, "r7", "list-numeric-order", where, "list order differs from lexicographic numeric order: %s" % (b,))

    # r6: discriminant table
    disc = [f for f in C.fns if f["path"] == FV + "::discriminant"]
    adt = C.adt_by_path.get(FV)
    if not disc or not adt:
        R.fail("r6", "anchor", "-", "FieldValue::discriminant or the FieldValue ADT not found")
        return
    ms = matches_over(disc[0]["body"], FV, 4)
    if not ms:
        R.fail("r6", "anchor:match", C.loc(disc[0]["sp"]), "no match over FieldValue in discriminant()")
        return
    vt = variant_table(ms[0], FV)
    for v in adt["variants"]:
        arms = vt.get(v["name"], [])
        val = arm_value(arms[0]["body"]).get("v") if arms else None
        R.check(val == v["idx"], "r6", "discriminant/%s" % v["name"], C.loc(ms[0]["sp"]),
                "discriminant(%s) = %s but the variant is declared at position %d" % (v["name"], val, v["idx"]))
