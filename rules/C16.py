"""C16 — IR, values and types survive serialization round-trips (narrow: RK6 / RK1)."""
from tfv import serdefacts as SF
from tfv import absint as A
from tfv.tast import walk, strip, calls_in, ekey
from tfv.tables import matches_over, variant_table, arm_value, adt_variants

EXPLANATION = ("Structural clauses read from the *expanded* serde derives in the typed HIR: r1 every field that is "
               "omitted on serialization under predicate P is filled on deserialization by a default D with P(D) true "
               "(so an omitted field reads back as the value that was omitted); r2 Type serializes through Display and "
               "deserializes through Type::parse; r3 TransparentValue is untagged and tries Null, Int64, Uint64, Float64 "
               "in that order (an exact integer is never read as a lossy float, i64 preferred over u64); r4 the two "
               "FieldValue <-> TransparentValue conversions are identities on variants and payloads.")
ASSUMPTIONS = ["serde / serde_json / ron round-trip std types and derived enums faithfully",
               "Display and Type::parse being mutually inverse on the modifier bitmask is not decided here"]

CONSISTENT = {
    ("core::option::Option::<T>::is_none", "<core::option::Option<T> as core::default::Default>::default"),
    ("alloc::vec::Vec::<T, A>::is_empty", "<alloc::vec::Vec<T> as core::default::Default>::default"),
    ("alloc::collections::btree::map::BTreeMap::<K, V, A>::is_empty",
     "<alloc::collections::btree::map::BTreeMap<K, V> as core::default::Default>::default"),
    ("alloc::collections::btree::set::BTreeSet::<T, A>::is_empty",
     "<alloc::collections::btree::set::BTreeSet<T> as core::default::Default>::default"),
    ("smallvec::SmallVec::<A>::is_empty", "<smallvec::SmallVec<A> as core::default::Default>::default"),
    ("alloc::string::String::is_empty", "<alloc::string::String as core::default::Default>::default"),
}
FV = "trustfall_core::ir::value::FieldValue"
TV = "trustfall_core::ir::value::TransparentValue"


def local_pair_consistent(C, pred, dflt):
    """Both local: decide P(D()) by abstract evaluation / structure."""
    pf, df = C.fn(pred), C.fn(dflt)
    if pf is None:
        return False, "predicate %s has no local body" % pred
    if df is not None and not df["params"]:
        try:
            ip = A.Interp(C)
            d = ip.call_fn(df, [])
            ip = A.Interp(C)
            return bool(ip.truth(ip.call_fn(pf, [d]))), "P(D()) evaluated abstractly"
        except (A.Unsupported, A.PanicReached):
            pass   # fall through to the structural argument below
    # derived Default + predicate delegating to is_empty of every field it reads
    if dflt.startswith("<") and " as core::default::Default>::default" in dflt:
        adt = dflt[1:].split(" as ")[0]
        dimpl = [i for i in C.impls if i.get("trait") == "core::default::Default" and i.get("self_adt") == adt
                 and i.get("mac") is not None and "Default" in (C.S(i["mac"]) or "")]
        if dimpl:
            cs = [c for c in calls_in(pf["body"])]
            if cs and all(c.get("name") == "is_empty" for c in cs):
                return True, "derived Default (all fields default) and predicate = is_empty of a field"
        return False, "Default for %s is not derived or predicate is not an emptiness test" % adt
    return False, "unknown pair"


def run(ctx, R):
    C = ctx.core
    R.rule("r1", "skip_serializing_if predicate P and deserialization default D satisfy P(D) for every skipped field")
    R.rule("r2", "Type: Serialize via Display (to_string), Deserialize via Type::parse")
    R.rule("r3", "TransparentValue deserializes untagged, variants tried in declaration order Null < Int64 < Uint64 < Float64")
    R.rule("r4", "FieldValue <-> TransparentValue conversions are identities on variants and payloads")
    type_text_round_trip(ctx, R)
    # r6: "returns an equal value" is FieldValue's own equality. The untagged form does not record whether an integer was Int64 or
    # Uint64 (r3: a small Uint64 reads back as Int64), so the round trip is an identity only because that equality is numeric on
    # integers - also for integers inside lists. C08's numeric-agreement rules are re-evaluated here as a guard.
    R.rule("r6", "the equality the round trip is judged by is numeric on integers, also inside lists (C08 r5 / r7 re-evaluated)")
    from tfv.core import Report
    from . import C08
    R8 = Report("C08", ctx.tier, 0)
    C08.run(ctx, R8)
    bad8 = [v for v in R8.violations if v["rule"] in ("r5", "r7", "engine")]
    R.check(not bad8, "r6", "untagged-integers-compare-equal", "-",
            "an integer that changes representation in the untagged form (Uint64(7) -> 7 -> Int64(7)) no longer compares equal after the "
            "round trip: %s" % (bad8[0]["msg"][:300] if bad8 else ""), {"c08_instances": len(R8.instances)})

    serde_hooks(ctx, R)

    n = 0
    for a in C.adts:
        p = a["path"]
        if "::_::" in p or a["kind"] != "Struct":
            continue
        sk = SF.ser_skips(C, p)
        if not sk:
            continue
        dm = SF.de_missing(C, p)
        for field, (wire, pred) in sorted(sk.items()):
            n += 1
            key = "%s.%s" % (p.split("::")[-1], field)
            where = C.loc(a["sp"])
            if dm is None:
                # serialized-only type: nothing reads it back
                R.ok("r1", key + "/serialize-only", nontrivial=False)
                continue
            d = dm.get(field)
            if d is None or d[0] == "required":
                R.fail("r1", key, where, "field %s.%s is omitted when %s holds but is *required* on deserialization: "
                       "a value serialized without it cannot be read back" % (p, field, pred))
                continue
            dfl = d[1] if d[0] == "default" else (d[1][0] if d[1] else None)
            if (pred, dfl) in CONSISTENT:
                R.ok("r1", key, {"predicate": pred, "default": dfl})
                continue
            ok, why = local_pair_consistent(C, pred, dfl or "")
            R.check(ok, "r1", key, where,
                    "field %s.%s is omitted when %s holds and read back as %s; cannot establish predicate(default) (%s)"
                    % (p, field, pred, dfl, why), {"predicate": pred, "default": dfl, "how": why})
    R.floor("r1", "skipped fields", n, 40)
    # a field with a default but always serialized is fine; a skipped field of the IR must exist at all (anchor)
    for anchor in ("trustfall_core::ir::IRQuery", "trustfall_core::ir::IREdge", "trustfall_core::ir::IRFold"):
        R.check(bool(SF.ser_skips(C, anchor)), "r1", "anchor/%s" % anchor.split("::")[-1], "-",
                "derived Serialize of %s not found or has no skip logic (extractor no longer matches serde's expansion)" % anchor)

    # r2
    TY = "trustfall_core::ir::types::base::Type"
    ser = [f for f in C.fns if f.get("impl_trait", "").endswith("ser::Serialize") and f.get("self_ty") == TY and f["name"] == "serialize"]
    if not ser:
        R.fail("r2", "anchor:Serialize", "-", "hand-written Serialize for Type not found")
    else:
        cs = [(c.get("name"), c.get("callee")) for c in calls_in(ser[0]["body"])]
        to_string = any(nm == "to_string" and "ToString" in (cal or "") for nm, cal in cs) or any(nm == "collect_str" for nm, _ in cs)
        ser_str = any(nm in ("serialize_str", "collect_str") for nm, _ in cs)
        R.check(to_string and ser_str, "r2", "serialize-via-display", C.loc(ser[0]["sp"]),
                "Type::serialize must emit self.to_string() as a string (calls: %s)" % cs)
    vis = [f for f in C.fns if f["name"] == "visit_str" and "types::base" in f["path"] and "Type" in f["path"]]
    if not vis:
        R.fail("r2", "anchor:visit_str", "-", "Type's deserialization visitor not found")
    else:
        cs = [c.get("callee") for c in calls_in(vis[0]["body"])]
        R.check(TY + "::parse" in cs, "r2", "deserialize-via-parse", C.loc(vis[0]["sp"]),
                "Type's visitor must call Type::parse (calls: %s)" % cs)
        de = [f for f in C.fns if f.get("impl_trait", "").endswith("de::Deserialize") and f.get("self_ty") == TY]
        if de:
            cs2 = [c.get("name") for c in calls_in(de[0]["body"])]
            R.check("deserialize_str" in cs2 or "deserialize_string" in cs2, "r2", "deserialize-as-str", C.loc(de[0]["sp"]),
                    "Type::deserialize must ask for a string (calls: %s)" % cs2)

    # r3
    tv = C.adt_by_path.get(TV)
    if tv is None:
        R.fail("r3", "anchor", "-", "TransparentValue not found")
    else:
        order = [v["name"] for v in tv["variants"]]
        want = ["Null", "Int64", "Uint64", "Float64"]
        idx = [order.index(x) if x in order else -1 for x in want]
        R.check(idx == sorted(idx) and -1 not in idx, "r3", "variant-order", C.loc(tv["sp"]),
                "TransparentValue must declare %s in this relative order (untagged deserialization tries variants in "
                "declaration order); declared: %s" % (want, order), {"declared": order})
        de = [f for f in C.fns if f["name"] == "deserialize" and "Deserialize<'de> for %s>" % TV in f["path"] and f["path"].endswith(">::deserialize")]
        if not de:
            R.fail("r3", "anchor:derive", "-", "derived Deserialize for TransparentValue not found")
        else:
            cs = [(c.get("callee") or "") for c in calls_in(de[0]["body"])]
            untagged = any("ContentRefDeserializer" in c or "__deserialize_content" in c or "Content" in c for c in cs)
            R.check(untagged, "r3", "untagged", C.loc(de[0]["sp"]),
                    "TransparentValue's derived Deserialize is not the untagged form (no buffered-content attempts)")
            # order in which variants are attempted in the expansion
            tried = []
            for x in walk(de[0]["body"]):
                if x.get("k") in ("ctor", "path") and x.get("adt") == TV and x.get("variant") and x["variant"] not in tried:
                    tried.append(x["variant"])
            R.check([t for t in tried if t in want] == want, "r3", "attempt-order", C.loc(de[0]["sp"]),
                    "untagged attempts construct variants in order %s; need %s" % (tried, want), {"tried": tried})

    # r4
    for (src, dst) in ((FV, TV), (TV, FV)):
        fs = [f for f in C.fns if f.get("impl_trait") == "core::convert::From" and f.get("self_ty") == dst and f["name"] == "from"
              and C.S(f["params"][0].get("ty")) == src]
        key = "%s->%s" % (src.split("::")[-1], dst.split("::")[-1])
        if not fs:
            R.fail("r4", "anchor:" + key, "-", "From<%s> for %s not found" % (src, dst))
            continue
        ms = matches_over(fs[0]["body"], src, 4)
        if not ms:
            R.fail("r4", "anchor:%s/match" % key, C.loc(fs[0]["sp"]), "no match over %s" % src)
            continue
        vt = variant_table(ms[0], src)
        for v in adt_variants(C, src):
            arms = vt.get(v, [])
            if len(arms) != 1:
                R.fail("r4", "%s/%s" % (key, v), C.loc(ms[0]["sp"]), "variant %s has %d arms" % (v, len(arms)))
                continue
            val = strip(arm_value(arms[0]["body"]))
            same_variant = val.get("adt") == dst and val.get("variant") == v
            payload_ok = True
            binds = [s for s in arms[0]["pat"].get("sub", []) if s.get("k") == "bind"]
            if binds and val.get("k") == "ctor":
                arg = strip(val["args"][0])
                if v == "List":
                    toks = {x.get("bid") for x in walk(val["args"][0]) if x.get("k") == "local"}
                    payload_ok = binds[0]["bid"] in toks
                else:
                    payload_ok = arg.get("k") == "local" and arg.get("bid") == binds[0]["bid"]
            R.check(same_variant and payload_ok, "r4", "%s/%s" % (key, v), C.loc(arms[0]["sp"]),
                    "%s::%s converts to %s::%s(%s); must be the same variant with the same payload"
                    % (src.split("::")[-1], v, (val.get("adt") or "?").split("::")[-1], val.get("variant"),
                       ekey(val["args"][0]) if val.get("args") else ""))


def serde_hooks(ctx, R):
    """r7: `#[serde(deserialize_with / serialize_with = "f")]` puts a user function between the data and the value; the derive
    expands it into a `__DeserializeWith` / `__SerializeWith` helper that calls f. Every such hook on the IR / value types is
    inventoried. A hook that reads back an `f64` is evaluated on every float class the writer can emit (normal, +-0, subnormal;
    nan / inf cannot occur in values): it must return the value unchanged - a hook that refuses any of them breaks the round trip
    for values that serialize fine. Any other hook has no model yet and fails closed (say what it accepts)."""
    from tfv import absint as A
    from tfv import stdmodel as M
    C = ctx.core
    R.rule("r7", "custom serde hooks (deserialize_with / serialize_with) on IR and value types are identities on every value the writer can emit")
    hooks = {}
    for f in C.fns:
        st = f.get("self_ty") or ""
        if not (("__DeserializeWith" in st or "__SerializeWith" in st) and "trustfall_core::ir::" in st):
            continue
        for c in calls_in(f["body"]):
            callee = c.get("resolved") or c.get("callee") or ""
            g = C.fn(callee)
            if g is not None and callee.startswith("trustfall_core::") and not g.get("impl_trait"):
                owner = st.split(" for ")[-1].split(">")[0] if " for " in st else st
                hooks[(owner, callee, "de" if "__DeserializeWith" in st else "ser")] = g
    R.units["serde_hooks"] = sorted("%s %s" % (k[2], k[1].split("::")[-1]) for k in hooks)
    I = M.intrinsics()
    I.update(M.string_intrinsics())
    I["serde_core::de::Deserialize::deserialize"] = lambda ip, n, a: M.ok(A.deref(a[0]))
    I["serde::de::Deserialize::deserialize"] = I["serde_core::de::Deserialize::deserialize"]
    I["serde_core::de::Error::custom"] = lambda ip, n, a: A.Sym("serde-error")
    I["serde::de::Error::custom"] = I["serde_core::de::Error::custom"]
    for (owner, callee, kind), g in sorted(hooks.items(), key=lambda kv: kv[0]):
        key = "hook/%s/%s" % (owner.split("::")[-1], callee.split("::")[-1])
        ret = C.S(g.get("ret_ty")) or ""
        if kind == "de" and ret.startswith("core::result::Result<f64,"):
            bad = None
            try:
                for cls in ("finite", "zero", "subnormal"):
                    v = A.Sym("f64:" + cls, props={"fclass": cls})
                    res = A.deref(A.Interp(C, I).call_fn(g, [v]))
                    if not (res.variant == "Ok" and A.deref(res.fields[0]) is v):
                        bad = bad or (cls, repr(res))
            except A.Unsupported as e:
                R.fail("r7", key + "/unanalysable", C.loc(g["sp"]), "cannot evaluate the deserialize_with hook %s: %s (fail closed)" % (callee, e))
                continue
            except A.PanicReached as e:
                R.fail("r7", key + "/panic", C.loc(g["sp"]), "the deserialize_with hook %s panics: %s" % (callee, e.what))
                continue
            R.check(bad is None, "r7", key, C.loc(g["sp"]),
                    "the deserialize_with hook %s on %s does not return a %s float unchanged (%s): a value that serializes fine (0.0, -0.0, "
                    "5e-324 ...) cannot be read back" % (callee, owner, bad and bad[0], bad and bad[1]))
        else:
            R.fail("r7", key + "/unmodelled", C.loc(g["sp"]),
                   "%s hook %s on %s (returns %s) has no model: state which values it accepts / emits and add it to the rule (fail closed)"
                   % ("deserialize_with" if kind == "de" else "serialize_with", callee, owner, ret[:80]))
    R.ok("r7", "hooks-inventoried", {"hooks": len(hooks)})


def type_text_round_trip(ctx, R):
    """r5: `Type` serializes as its Display text and deserializes through Type::parse (r2), so the round trip of every IR type
    rests on Display and parse being inverse. Both are interpreted on the real bit-mask representation (rules/tybits.py) for
    every list depth 0..=30 with six nullability patterns, all 30 patterns of depth <= 3, and five base names."""
    from tfv import absint as A
    from . import tybits as B
    from . import tymodel as T
    import itertools
    C = ctx.core
    R.rule("r5", "Display(Type) is the GraphQL text of the type, and Type::parse(Display(t)) == t, for every list depth 0..=30")
    fmt, pf = B.find_display(C), C.fn(B.TY + "::parse")
    if fmt is None or pf is None:
        R.fail("r5", "anchor", "-", "Display for Type / Type::parse not found")
        return
    I = B.intrinsics()
    cases = []
    for d in range(0, B.MAX_DEPTH + 1):
        pats = [lambda i: True, lambda i: False, lambda i: i % 2 == 0, lambda i: i % 2 == 1, lambda i, d=d: i != d, lambda i: i != 0]
        for p in pats:
            cases.append(B.nested(d, p))
    for d in range(0, 4):
        for bits in itertools.product((True, False), repeat=d + 1):
            cases.append(B.nested(d, lambda i, bits=bits: bits[i]))
    for base in ("String", "Float", "Boolean", "Custom_Scalar1"):
        cases += [T.named(base, True), T.listof(T.named(base, False), True), B.nested(30, lambda i: i == 30, base=base)]
    seen = set()
    bad = None
    n = 0
    try:
        for tv in cases:
            if tv.key() in seen:
                continue
            seen.add(tv.key())
            n += 1
            want = B.render(tv)
            text = B.display(C, I, B.concrete(tv), fmt)
            if text != want:
                bad = bad or ("Display", tv.depth(), want[:60], text[:60])
                continue
            back = B.parse(C, I, text, pf)
            if back.variant != "Ok":
                bad = bad or ("parse rejects Display's output", tv.depth(), want[:60], repr(back)[:60])
                continue
            try:
                got = B.decode(back.fields[0])
            except ValueError as e:
                bad = bad or ("parse yields a malformed mask", tv.depth(), want[:60], str(e))
                continue
            if got.key() != tv.key():
                bad = bad or ("parse(Display(t)) != t", tv.depth(), want[:60], B.render(got)[:60])
    except A.Unsupported as e:
        R.fail("r5", "unanalysable", C.loc(fmt["sp"]), "abstract evaluation of Display / parse failed: %s (fail closed)" % e)
        return
    except A.PanicReached as e:
        R.fail("r5", "panic", C.loc(fmt["sp"]), "Display / parse panics on a type within the supported depth: %s" % e.what)
        return
    R.floor("r5", "types round-tripped", n, 200)
    R.check(bad is None, "r5", "display-parse-round-trip", C.loc(fmt["sp"]),
            "the text form of a type does not round-trip: %s at list depth %s: expected `%s`, got `%s` - a serialized IR type reads back as a "
            "different type" % (bad or ("", "", "", "")), {"types": n, "max_depth": B.MAX_DEPTH})
