"""C26 — generated adapter stubs compile (narrow: identifier hygiene of the generator, decided for all names)."""
import itertools
import re

from tfv import facts, namex
from tfv import absint as A
from tfv.prov import Scope
from tfv.tast import walk, walk_with_ctx, strip, calls_in

EXPLANATION = (
    "Every identifier the generator emits is `Ident::new(f(name))` for a schema name; f is extracted as a term over the "
    "crate's own string helpers (format! decoded from its lowered form) and evaluated by abstract evaluation of the helpers' "
    "typed AST on a test universe: every string over the character classes the helpers distinguish (lower, upper, "
    "underscore, digit) up to a length bound, plus every Rust keyword in every capitalisation that folds onto it, with and "
    "without underscore affixes. r1: f(name) is always a legal, non-keyword identifier (reference: the Rust Reference's "
    "strict + reserved keywords through edition 2024). r2: generate_rust_stub runs every conflict guard before any "
    "generator, and a guard is a map created outside the loop whose insert-collision branch panics. r3: the escape table "
    "changes every reference keyword and nothing it maps to is a keyword. r4: two distinct names of one namespace (vertex "
    "types; fields of one type; entry points; parameters of one edge) that produce the same identifier at any site are "
    "always rejected by a guard of that namespace. r5: fixed identifiers of a generated parameter list cannot be produced "
    "from a schema parameter name. r6: every generated reference (path call, method call) names a generated definition for "
    "every name - including the `as_<variant>()` methods, whose definition is the derive macro's own naming function applied "
    "to the generated variant name. r7: the two scalar-type mapping tables agree with each other and with FieldValue's "
    "accessor signatures. r8: both type-mapping helpers are evaluated (quote!'s push_* calls modelled as a token list) on "
    "every parameter type up to list depth 2; the declared type's tokens are parsed and the conversion expression's tokens "
    "are typed as a method chain over FieldValue's accessor signatures: both must equal the Rust type the Trustfall type "
    "denotes, else the generated `let`/signature is an E0308.")
ASSUMPTIONS = [
    "names are GraphQL names ([_A-Za-z][_0-9A-Za-z]*); the helpers treat characters only by class (upper/lower/underscore/other), "
    "so strings up to the bound over one representative per class (two for letters) cover their behaviour",
    "which schema entity a site's input ranges over (vertex type, field, entry point, parameter) is a frozen table keyed by "
    "function and leaf; an unclassified site fails closed",
    "explicitly unsupported inputs (`unimplemented!` for non-built-in parameter types, ID) are outside the claim",
    "that the emitted token streams are otherwise well-formed Rust is not decided (the three pinned stub tests compile them)",
]

SG = "trustfall_stubgen::"
IDENT_NEW = "proc_macro2::Ident::new"
DERIVE = "trustfall_derive--trustfall_derive-procmacro.json"

# The Rust Reference, "Keywords": strict (2015 + 2018), reserved (2015 + 2018 + 2024).
KEYWORDS = ("as break const continue crate else enum extern false fn for if impl in let loop match mod move mut pub ref "
            "return self Self static struct super trait true type unsafe use where while async await dyn "
            "abstract become box do final macro override priv typeof unsized virtual yield try gen").split()

# (function, leaf) -> namespace of the names that reach the site
SITE_KIND = {
    ("root::make_vertex_file", "field:ResultRow.name"): "vertex",
    ("edges_creator::make_type_edge_resolver", "param#0"): "vertex",
    ("edges_creator::make_edge_resolver_and_call", "param#0"): "vertex",
    ("edges_creator::make_edge_resolver_and_call", "param#1"): "field",
    ("edges_creator::prepare_call_parameters", "elem.0 of param#0"): "parameter",
    ("entrypoints_creator::make_entrypoint_fn", "param#0"): "entrypoint",
    ("properties_creator::make_resolver_fn", "param#0"): "vertex",
    ("adapter_creator::emit_property_handling", "field:ResultRow.name"): "vertex",
    ("adapter_creator::emit_edge_handling", "field:ResultRow.name"): "vertex",
}
QUERY_ROOT_KIND = {"VertexType": "vertex", "Entrypoint": "entrypoint"}
IDENT_RE = re.compile(r"^[A-Za-z_][A-Za-z0-9_]*$")


def universe(tier):
    n = 4 if tier == "thorough" else 3
    alpha = ["a", "b", "A", "B", "_", "1"]
    out = []
    for ln in range(1, n + 1):
        for t in itertools.product(alpha, repeat=ln):
            s = "".join(t)
            if s[0] != "1":
                out.append(s)
    seen = set(out)

    def add(s):
        if s and s not in seen and IDENT_RE.match(s):
            seen.add(s)
            out.append(s)
    for kw in KEYWORDS:
        caps = {kw, kw.upper(), kw.capitalize(), kw[0].upper() + kw[1:], kw.lower()}
        for i in range(1, len(kw)):
            caps.add(kw[:i].upper() + kw[i:])            # upper-case prefix folds onto kw under snake-casing
            caps.add(kw[:i] + kw[i].upper() + kw[i + 1:])
        for c in caps:
            for pre in ("", "_"):
                for suf in ("", "_", "__"):
                    add(pre + c + suf)
    return out


def short(p):
    return p[len(SG):] if p.startswith(SG) else p


def is_test_fn(f):
    return "::tests::" in f["path"] or f["path"].startswith(SG + "tests")


def ident_sites(C):
    """[(fn, scope, call node, term)] for every Ident::new in non-test code."""
    out = []
    for f in C.fns:
        if is_test_fn(f):
            continue
        sc = None
        for n in walk(f["body"]):
            if n.get("k") == "call" and n.get("callee") == IDENT_NEW and n.get("args"):
                if sc is None:
                    sc = Scope(C, f)
                out.append((f, sc, n, namex.extract(sc, n["args"][0])))
    return out


def query_root(f):
    for n in walk(f["body"]):
        if n.get("k") == "lit" and isinstance(n.get("v"), str):
            m = re.match(r"\s*\{\s*(\w+)\s*[\{(]", n["v"])
            if m:
                return m.group(1)
    return None


def classify(f, term):
    ls = namex.leaves(term)
    if len(ls) != 1:
        return None, ls
    leaf = ls[0]
    kind = SITE_KIND.get((short(f["path"]), leaf))
    if kind is not None and leaf.startswith("field:ResultRow."):
        qk = QUERY_ROOT_KIND.get(query_root(f))
        if qk != kind:
            return None, ls
    return kind, ls


def quote_contexts(f, ident_bid):
    """How the local holding an Ident is interpolated in quote! templates: set of context tags."""
    out = set()
    for n in walk(f["body"]):
        if n.get("k") != "block":
            continue
        st = n.get("stmts", [])
        for i, s in enumerate(st):
            s0 = strip(s)
            if s0.get("k") == "call" and (s0.get("callee") or "").endswith("ToTokens::to_tokens") and s0.get("args"):
                a0 = strip(s0["args"][0])
                if a0.get("k") == "local" and a0.get("bid") == ident_bid:
                    prev = strip(st[i - 1]) if i > 0 else {}
                    pc = (prev.get("callee") or "") if prev.get("k") == "call" else ""
                    if pc.endswith("push_ident"):
                        lit = strip(prev["args"][1]).get("v") if len(prev.get("args", [])) > 1 else None
                        out.add("def:%s" % lit if lit in ("fn", "mod", "struct", "enum", "let") else "after-ident")
                    elif pc.endswith("push_colon2"):
                        out.add("use:path")
                    elif pc.endswith("push_dot"):
                        out.add("use:method")
                    else:
                        out.add("other")
    return out


def binding_of(sc, f, call):
    """bid of the local initialised with this Ident::new call, if any."""
    for n in walk(f["body"]):
        if n.get("k") == "let" and "init" in n and strip(n["init"]) is call and n["pat"].get("k") == "bind":
            return n["pat"]["bid"]
    return None


def guards(C, R, gen):
    """Conflict guards called by generate_rust_stub: [(fn, kind, key term, checks ok)]"""
    out = []
    called = []
    for n in walk(gen["body"]):
        if n.get("k") == "call" and (n.get("callee") or "").startswith(SG):
            g = C.fn(n["callee"])
            if g is not None:
                called.append((n, g))
    for n, g in called:
        inserts = [x for x in calls_in(g["body"]) if (x.get("callee") or "").startswith("std::collections::hash::map::HashMap")
                   and x.get("name") == "insert"]
        has_panic = any(C.S(x.get("mac")) and "panic" in C.S(x["mac"]).split(">") for x in walk(g["body"]) if x.get("mac") is not None)
        if not inserts or not has_panic:
            continue
        sc = Scope(C, g)
        for ins in inserts:
            term = namex.extract(sc, ins["args"][0])
            ls = namex.leaves(term)
            kind = None
            if len(ls) == 1:
                if ls[0] == "field:ResultRow.name":
                    kind = QUERY_ROOT_KIND.get(query_root(g))
                elif "field:ResultRow.edge_names" in ls[0]:
                    kind = "field"
            # shape: the insert's result is tested and the collision branch panics; the map lives outside the loop of the insert
            ok_shape = False
            for x, anc in walk_with_ctx(g["body"]):
                if x is ins:
                    loops = [a for a in anc if a.get("k") == "loop"]
                    recv = strip(ins["recv"])
                    map_in_loop = False
                    if loops and recv.get("k") == "local":
                        inner = loops[-1]
                        for y in walk(inner):
                            if y.get("k") == "let" and y["pat"].get("k") == "bind" and y["pat"]["bid"] == recv["bid"]:
                                map_in_loop = True
                    tested = False
                    for y in walk(g["body"]):
                        if y.get("k") != "if":
                            continue
                        if not any(C.S(z.get("mac")) and "panic" in C.S(z["mac"]).split(">") for z in walk(y["then"]) if z.get("mac") is not None):
                            continue
                        for z in walk(y["cond"]):
                            if z is ins:
                                tested = True
                            elif z.get("k") == "local":
                                dd = sc.single_def(z["bid"])
                                if dd and dd[1] is not None and strip(dd[1]) is ins:
                                    tested = True
                    ok_shape = tested and not map_in_loop
            out.append((n, g, kind, term, ok_shape, sc))
    return out


def fixed_param_names(C, f):
    """Literal identifiers followed by `:` in a parenthesised quote! group that also interpolates FnCall.fn_params."""
    sc = Scope(C, f)
    res = []
    for n in walk(f["body"]):
        if not (n.get("k") == "call" and (n.get("callee") or "").endswith("push_group") and len(n.get("args", [])) >= 3):
            continue
        delim = strip(n["args"][1])
        if delim.get("variant") != "Parenthesis":
            continue
        blk = strip(n["args"][2])
        if blk.get("k") != "block":
            continue
        st = [strip(s) for s in blk.get("stmts", [])]
        interp = False
        for s in st:
            if s.get("k") == "call" and (s.get("callee") or "").endswith("ToTokens::to_tokens") and s.get("args"):
                a0 = strip(s["args"][0])
                if a0.get("k") == "local":
                    d = sc.single_def(a0["bid"])
                    if d and any(step[0] == "field" and step[2] == "fn_params" for step in d[2]):
                        interp = True
        if not interp:
            continue
        for i, s in enumerate(st[:-1]):
            if s.get("k") == "call" and (s.get("callee") or "").endswith("push_ident") and \
                    st[i + 1].get("k") == "call" and (st[i + 1].get("callee") or "").endswith("push_colon"):
                v = strip(s["args"][1]).get("v")
                if isinstance(v, str):
                    res.append(v)
    return res


def scalar_tables(C, R):
    """r7: the two type-mapping helpers: literal arms and the tokens they emit."""
    out = {}
    for fn in ("util::trustfall_type_to_rust_type", "util::field_value_to_rust_type"):
        f = C.fn(SG + fn)
        if f is None:
            R.fail("r7", "anchor:%s" % fn, "-", "%s not found" % fn)
            continue
        table = {}
        for m in walk(f["body"]):
            if m.get("k") != "match":
                continue
            for a in m["arms"]:
                pats = a["pat"]["alts"] if a["pat"].get("k") == "por" else [a["pat"]]
                for p in pats:
                    if p.get("k") == "plit" and isinstance(p.get("v"), str):
                        idents = [strip(c["args"][1]).get("v") for c in calls_in(a["body"])
                                  if (c.get("callee") or "").endswith("push_ident") and len(c.get("args", [])) > 1]
                        amp = any((c.get("callee") or "").endswith("push_and") for c in calls_in(a["body"]))
                        table[p["v"]] = (("&" if amp else "") + " ".join(str(i) for i in idents))
        out[fn] = table
    return out


# ---- r8: declared parameter type = type of the conversion expression, for every parameter type -------------------------
class TS(list):
    """A proc_macro2::TokenStream built by quote!: a list of tokens; a delimited group is ("group", delim, TS)."""


PUNCT = {"lt": "<", "gt": ">", "and": "&", "dot": ".", "comma": ",", "colon2": "::", "colon": ":", "or": "|", "semi": ";", "eq": "=",
         "fat_arrow": "=>", "bang": "!", "star": "*", "rarrow": "->", "pound": "#", "question": "?", "underscore": "_", "or_or": "||", "and_and": "&&"}


def quote_intrinsics():
    from tfv import stdmodel as M
    I = M.intrinsics()
    I.update(M.string_intrinsics())
    d = A.deref
    I["proc_macro2::TokenStream::new"] = lambda ip, n, a: TS()

    def ts_of(ref):
        v = d(ref)
        if not isinstance(v, TS):
            raise A.Unsupported("token stream expected, got %r" % (v,))
        return v
    I["quote::__private::push_ident"] = lambda ip, n, a: (ts_of(a[0]).append(d(a[1])), M.unit())[1]
    for nm, sym in PUNCT.items():
        I["quote::__private::push_" + nm] = (lambda sym: lambda ip, n, a: (ts_of(a[0]).append(sym), M.unit())[1])(sym)

    def push_group(ip, n, a):
        delim = d(a[1])
        ts_of(a[0]).append(("group", getattr(delim, "variant", "?"), ts_of(a[2])))
        return M.unit()
    I["quote::__private::push_group"] = push_group

    def parse(ip, n, a):      # quote! pushes literals (here: the expect() messages) by re-parsing their source text
        src = d(a[1])
        if not (isinstance(src, str) and src.startswith('"') and src.endswith('"')):
            raise A.Unsupported("quote::__private::parse of %r" % (src,))
        ts_of(a[0]).append(("lit", src))
        return M.unit()
    I["quote::__private::parse"] = parse

    def to_tokens(ip, n, a):
        v, s = d(a[0]), ts_of(a[1])
        if isinstance(v, TS):
            s.extend(v)
        elif isinstance(v, str):
            s.append(("lit", v))
        else:
            raise A.Unsupported("interpolation of %r" % (v,))
        return M.unit()
    I["quote::to_tokens::ToTokens::to_tokens"] = to_tokens
    return I


def parse_decl(ts):
    """Token list of a Rust type -> nested tuple: ("Option", t) | ("Vec", t) | ("prim", name)."""
    toks = list(ts)

    def ty(i):
        t = toks[i]
        if t in ("Option", "Vec") and toks[i + 1] == "<":
            inner, j = ty(i + 2)
            if toks[j] != ">":
                raise ValueError("expected >")
            return (t, inner), j + 1
        if t == "&":
            inner, j = ty(i + 1)
            return ("prim", "&" + inner[1]), j
        if isinstance(t, str) and t.isidentifier():
            return ("prim", t), i + 1
        raise ValueError("unexpected token %r" % (t,))
    r, j = ty(0)
    if j != len(toks):
        raise ValueError("trailing tokens")
    return r


def infer_expr(ts, accessors, env=None):
    """Type of the conversion expression emitted by field_value_to_rust_type (a method chain with closures)."""
    toks = list(ts)
    env = env or {}
    if toks and toks[0] == "|":                       # closure: | x | body   -> ("fn", param, body tokens)
        return ("closure", toks[1], toks[3:])
    if len(toks) == 1 and isinstance(toks[0], tuple) and toks[0][0] == "group" and toks[0][1] in ("Brace", "Parenthesis"):
        return infer_expr(toks[0][2], accessors, env)
    if not toks or not isinstance(toks[0], str):
        raise ValueError("expression does not start with an identifier: %r" % (toks[:1],))
    i = 0
    # base: identifier(s) up to the first '.'
    base = toks[0]
    cur = env.get(base, ("FV?",) if base == "parameters" else None)
    if base == "parameters":
        cur = ("ParamMap",)
    elif cur is None:
        raise ValueError("unknown base %r" % (base,))
    i = 1
    while i < len(toks):
        if toks[i] != ".":
            raise ValueError("expected `.` at %r" % (toks[i],))
        m = toks[i + 1]
        grp = toks[i + 2]
        if not (isinstance(grp, tuple) and grp[0] == "group"):
            raise ValueError("expected call arguments after %s" % m)
        args = grp[2]
        i += 3
        if cur == ("ParamMap",) and m == "get":
            cur = ("Option", ("FV",))
        elif m in ("expect", "unwrap", "unwrap_or_default") and cur[0] == "Option":
            cur = cur[1]
        elif cur == ("FV",) and m in accessors:
            cur = accessors[m]
        elif cur[0] == "Option" and m == "map":
            c = infer_expr(args, accessors, env)
            if c[0] != "closure":
                raise ValueError("map expects a closure")
            cur = ("Option", infer_expr(c[2], accessors, dict(env, **{c[1]: cur[1]})))
        elif cur == ("Slice",) and m == "iter":
            cur = ("Iter", ("FV",))
        elif cur[0] == "Iter" and m == "map":
            c = infer_expr(args, accessors, env)
            if c[0] != "closure":
                raise ValueError("map expects a closure")
            cur = ("Iter", infer_expr(c[2], accessors, dict(env, **{c[1]: cur[1]})))
        elif cur[0] == "Iter" and m == "collect":
            cur = ("Vec", cur[1])
        else:
            raise ValueError("method %s on %r" % (m, cur))
    return cur


def spec_type(t):
    """The Rust type a Trustfall parameter type denotes."""
    nullable = not t.endswith("!")
    core_ = t[:-1] if not nullable else t
    if core_.startswith("["):
        inner = ("Vec", spec_type(core_[1:-1]))
    else:
        inner = ("prim", {"Int": "i64", "String": "&str", "Float": "f64", "Boolean": "bool"}[core_])
    return ("Option", inner) if nullable else inner


def parameter_type_table(ctx, R, C, core):
    R.rule("r8", "for every parameter type (4 scalars x list depth <= 2 x all nullability patterns): the declared Rust type is the type the "
                 "Trustfall type denotes, and the generated conversion expression has exactly that type")
    fd, fe = C.fn(SG + "util::trustfall_type_to_rust_type"), C.fn(SG + "util::field_value_to_rust_type")
    if fd is None or fe is None:
        R.fail("r8", "anchor", "-", "type mapping helpers not found")
        return
    FV = "trustfall_core::ir::value::FieldValue::"
    accessors = {}
    for acc in ("as_i64", "as_str", "as_f64", "as_bool", "as_slice", "as_u64"):
        g = core.fn(FV + acc)
        if g is None:
            continue
        ret = (core.S(g.get("ret_ty")) or "").replace("&'_ ", "&").replace("&'a ", "&")
        m = re.match(r"core::option::Option<(.*)>$", ret)
        inner = m.group(1) if m else ret
        accessors[acc] = ("Option", ("Slice",) if inner.startswith("&[") else ("prim", inner.replace(" ", "")))
    I = quote_intrinsics()
    types = []
    for base in ("Int", "String", "Float", "Boolean"):
        level = [base, base + "!"]
        types += level
        for _ in range(2):
            level = ["[%s]%s" % (t, s) for t in level for s in ("", "!")]
            types += level
    bad = None
    n = 0
    for t in types:
        try:
            decl = A.deref(A.Interp(C, I, max_steps=200000).call_fn(fd, [t]))
            base = TS(["parameters", ".", "get", ("group", "Parenthesis", TS([("lit", "x")])), ".", "expect", ("group", "Parenthesis", TS([("lit", "m")]))])
            expr = A.deref(A.Interp(C, I, max_steps=200000).call_by_type(fe, [("str", t), ("TokenStream", base)]))
            got_decl = parse_decl(decl)
            got_expr = infer_expr(expr, accessors)
        except A.Unsupported as e:
            R.fail("r8", "unanalysable/%s" % t, C.loc(fd["sp"]), "abstract evaluation of the type mapping failed for `%s`: %s (fail closed)" % (t, e))
            return
        except A.PanicReached as e:
            bad = bad or (t, "panics: %s" % e.what, "", "")
            continue
        except (ValueError, IndexError) as e:
            R.fail("r8", "unanalysable/%s" % t, C.loc(fe["sp"]), "cannot type the generated tokens for `%s`: %s (fail closed)" % (t, e))
            return
        n += 1
        want = spec_type(t)
        if (got_decl != want or got_expr != want) and bad is None:
            bad = (t, got_decl, got_expr, want)
    R.floor("r8", "parameter types evaluated", n, 50)

    def show(x):
        if not isinstance(x, tuple):
            return str(x)
        return x[1] if x[0] == "prim" else "%s<%s>" % (x[0], show(x[1])) if len(x) > 1 else x[0]
    R.check(bad is None, "r8", "declared-type-matches-conversion", C.loc(fd["sp"]),
            "for a parameter of Trustfall type `%s` the stub declares `%s` and converts the value with an expression of type `%s`; the type "
            "denotes `%s` - the generated `let x: T = ..` / function signature does not type-check (E0308)"
            % (bad and bad[0], bad and show(bad[1]), bad and show(bad[2]), bad and show(bad[3])), {"types": n})


def run(ctx, R):
    C = ctx.crate(facts.STUBGEN)
    core = ctx.core
    try:
        D = ctx.crate(DERIVE)
    except SystemExit:
        D = None
    for r, t in (("r1", "every emitted identifier is legal and not a keyword, for every name"),
                 ("r2", "conflict guards run before generation and panic on collision"),
                 ("r3", "escape table covers the reference keywords"),
                 ("r4", "identifier collisions within a namespace are always rejected by a guard"),
                 ("r5", "fixed parameter names cannot be produced from schema parameter names"),
                 ("r6", "generated references name generated definitions (incl. derive-generated methods)"),
                 ("r7", "scalar type tables agree with each other and with FieldValue accessors")):
        R.rule(r, t)
    U = universe(ctx.tier)
    R.units["universe_strings"] = len(U)
    ev = namex.Evaluator(C)

    gen = C.fn(SG + "root::generate_rust_stub")
    if gen is None:
        R.fail("r2", "anchor:generate_rust_stub", "-", "generate_rust_stub not found")
        return
    esc = C.fn(SG + "util::escaped_rust_name")
    if esc is None:
        R.fail("r3", "anchor:escaped_rust_name", "-", "escaped_rust_name not found")
        return

    # ---- r3 escape table vs the reference
    for kw in KEYWORDS:
        v = ev.call(esc["path"], [kw])
        R.check(isinstance(v, str) and v != kw and v not in KEYWORDS and IDENT_RE.match(v or ""), "r3", "keyword:%s" % kw, C.loc(esc["sp"]),
                "escaped_rust_name(%r) = %r: `%s` is a Rust keyword (Rust Reference, Keywords) and cannot be used as an identifier; a schema "
                "name that becomes `%s` makes the generated stub fail to parse" % (kw, v, kw, kw))

    # ---- sites
    sites = ident_sites(C)
    R.floor("r1", "Ident::new sites in the generator", len(sites), 10)
    table = []       # (fn, kind, term, values by name, contexts, node)
    for f, sc, n, term in sites:
        where = C.loc(n["sp"])
        key = "%s %s" % (short(f["path"]), namex.show(term))
        why = namex.opaque_reasons(term)
        if why:
            R.fail("r1", "unanalysable:%s" % key, where, "cannot express the identifier as a function of a schema name (%s); fail closed" % "; ".join(why))
            continue
        kind, ls = classify(f, term)
        if kind is None:
            R.fail("r1", "unclassified:%s" % key, where,
                   "identifier site with input %s is not in the namespace table (new generator site: say which schema names reach it)" % ls)
            continue
        vals = {}
        bad = None
        try:
            for s in U:
                v = ev.ev(term, s)
                vals[s] = v
                if bad is None and not (isinstance(v, str) and IDENT_RE.match(v) and v not in KEYWORDS and v != "_"):
                    bad = (s, v)
        except A.Unsupported as e:
            R.fail("r1", "unanalysable:%s" % key, where, "abstract evaluation of the naming helpers failed: %s (fail closed)" % e)
            continue
        R.check(bad is None, "r1", "ident:%s" % key, where,
                "for the %s name %r the generator emits the identifier %r, which is not a legal non-keyword Rust identifier: the stub does not parse"
                % (kind, bad[0] if bad else None, bad[1] if bad else None),
                {"kind": kind, "term": namex.show(term), "names": len(U)})
        bid = binding_of(sc, f, n)
        ctxs = quote_contexts(f, bid) if bid is not None else set()
        table.append((f, kind, term, vals, ctxs, n))

    # ---- r2 guards
    gs = guards(C, R, gen)
    R.floor("r2", "conflict guards (uniqueness maps) reached from generate_rust_stub", len(gs), 3)
    stmts = [strip(s) for s in gen["body"].get("stmts", [])]

    def stmt_index(node):
        for i, s in enumerate(gen["body"].get("stmts", [])):
            if any(x is node for x in walk(s)):
                return i
        return None
    gen_calls = [i for i, s in enumerate(gen["body"].get("stmts", []))
                 for x in walk(s) if x.get("k") == "call" and (x.get("callee") or "").startswith(SG)
                 and re.search(r"::make_\w+$", x["callee"])]
    first_gen = min(gen_calls) if gen_calls else None
    R.check(first_gen is not None, "r2", "generators", C.loc(gen["sp"]), "no generator call (make_*) found in generate_rust_stub")
    gk = {}
    for call, g, kind, term, ok_shape, sc in gs:
        key = "%s %s" % (short(g["path"]), namex.show(term))
        i = stmt_index(call)
        R.check(i is not None and first_gen is not None and i < first_gen, "r2", "before:%s" % key, C.loc(call["sp"]),
                "the conflict guard %s must run before the first generator; otherwise colliding names reach code generation" % short(g["path"]))
        R.check(ok_shape, "r2", "shape:%s" % key, C.loc(g["sp"]),
                "the guard must keep one map across the names of its namespace and panic when insert() reports a collision")
        why = namex.opaque_reasons(term)
        if kind is None or why:
            R.fail("r2", "unclassified-guard:%s" % key, C.loc(g["sp"]), "cannot tell which names this guard ranges over (%s)" % (why or namex.leaves(term)))
            continue
        try:
            gk.setdefault(kind, []).append((g, term, {s: ev.ev(term, s) for s in U}))
        except A.Unsupported as e:
            R.fail("r2", "unanalysable-guard:%s" % key, C.loc(g["sp"]), "abstract evaluation failed: %s" % e)

    # ---- r4 collisions
    for f, kind, term, vals, ctxs, n in table:
        key = "%s %s" % (short(f["path"]), namex.show(term))
        groups = {}
        for s, v in vals.items():
            groups.setdefault(v, []).append(s)
        colliding = [g for g in groups.values() if len(g) > 1]
        if not colliding:
            R.ok("r4", "injective:%s" % key, {"kind": kind, "names": len(vals)})
            continue
        gl = gk.get(kind, [])
        if not gl:
            ex = colliding[0][:2]
            R.fail("r4", "unguarded:%s:%s" % (kind, key), C.loc(n["sp"]),
                   "%s names %r and %r both become the identifier %r, and no conflict guard ranges over %s names: the stub "
                   "defines the item twice" % (kind, ex[0], ex[1], vals[ex[0]], kind))
            continue
        miss = None
        for g in colliding:
            # all members must fall into one class of some guard's key... pairwise: every pair must collide under at least one guard
            for a, b in itertools.combinations(g[:40], 2):
                if not any(gv[a] == gv[b] for _, _, gv in gl):
                    miss = (a, b)
                    break
            if miss:
                break
        R.check(miss is None, "r4", "guarded:%s:%s" % (kind, key), C.loc(n["sp"]),
                "%s names %r and %r both become the identifier %r but no guard (%s) treats them as conflicting: the generated stub "
                "defines the same item twice" % (kind, miss and miss[0], miss and miss[1], miss and vals[miss[0]],
                                                 ", ".join(short(g["path"]) for g, _, _ in gl)),
                {"kind": kind, "colliding_groups": len(colliding), "guards": [namex.show(t) for _, t, _ in gl]})

    # ---- r5 fixed parameter names
    ptab = [(f, term, vals) for f, kind, term, vals, ctxs, n in table if kind == "parameter"]
    fixed_total = 0
    for f in C.fns:
        if is_test_fn(f):
            continue
        names = fixed_param_names(C, f)
        for nm in names:
            fixed_total += 1
            hit = None
            for pf, pterm, pvals in ptab:
                try:
                    if ev.ev(pterm, nm) == nm:
                        hit = pterm
                except A.Unsupported:
                    hit = pterm
            R.check(hit is None, "r5", "fixed-name:%s:%s" % (short(f["path"]), nm), C.loc(f["sp"]),
                    "the generated parameter list of %s contains the fixed identifier `%s` next to identifiers made from schema parameter "
                    "names; a parameter named `%s` yields a duplicate binding (E0415) / shadows it" % (short(f["path"]), nm, nm))
    R.floor("r5", "fixed identifiers in generated parameter lists", fixed_total, 3)

    # ---- r6 references resolve to definitions
    defs_fn = [(f, kind, term, vals) for f, kind, term, vals, ctxs, n in table if "def:fn" in ctxs]
    variant_sites = [(f, term, vals) for f, kind, term, vals, ctxs, n in table
                     if kind == "vertex" and ctxs and ctxs <= {"other"} and short(f["path"]).startswith("root::")]
    uses = 0
    for f, kind, term, vals, ctxs, n in table:
        key = "%s %s" % (short(f["path"]), namex.show(term))
        if "use:path" in ctxs and "def:fn" not in ctxs:
            uses += 1
            cands = [(g, t2, v2) for g, k2, t2, v2 in defs_fn if k2 == kind]
            ok = None
            for g, t2, v2 in cands:
                if all(v2[s] == vals[s] for s in U):
                    ok = g
                    break
            diff = None
            if ok is None and cands:
                g, t2, v2 = cands[0]
                diff = next(((s, vals[s], v2[s]) for s in U if v2[s] != vals[s]), None)
            R.check(ok is not None, "r6", "path-use:%s" % key, C.loc(n["sp"]),
                    "the generated call names `%s` for the %s name %r, but the generated definition is `%s`: unresolved name in the stub"
                    % (diff and diff[1], kind, diff and diff[0], diff and diff[2]) if diff else
                    "no generated `fn` definition site for the %s-derived function this call site refers to" % kind,
                    {"definition": short(ok["path"]) if ok else None})
        if "use:method" in ctxs:
            uses += 1
            if D is None:
                R.fail("r6", "anchor:derive", "-", "facts for trustfall_derive are missing")
                continue
            dsites = [(g, namex.extract(Scope(D, g), x["args"][0])) for g in D.fns if "::tests::" not in g["path"]
                      for x in walk(g["body"]) if x.get("k") == "call" and x.get("callee") == IDENT_NEW and x.get("args")]
            dsites = [(g, t) for g, t in dsites if not namex.opaque_reasons(t) and len(namex.leaves(t)) == 1]
            if len(dsites) != 1 or len(variant_sites) != 1:
                R.fail("r6", "anchor:method-def", C.loc(n["sp"]),
                       "cannot locate the single derive-side naming site (%d) / the single Vertex-variant site (%d)" % (len(dsites), len(variant_sites)))
                continue
            dg, dterm = dsites[0]
            dev = namex.Evaluator(D)
            vf, vterm, vvals = variant_sites[0]
            diff = None
            try:
                for s in U:
                    want = dev.ev(dterm, vvals[s])
                    if want != vals[s]:
                        diff = (s, vvals[s], vals[s], want)
                        break
            except A.Unsupported as e:
                R.fail("r6", "unanalysable:derive", C.loc(dg["sp"]), "abstract evaluation of the derive's naming failed: %s" % e)
                continue
            R.check(diff is None, "r6", "method-use:%s" % key, C.loc(n["sp"]),
                    "for the vertex type %r the stub's Vertex variant is `%s`; the generated code calls `.%s()` but "
                    "#[derive(TrustfallEnumVertex)] (%s) defines `%s()`: no such method, the stub does not compile"
                    % (diff and diff[0], diff and diff[1], diff and diff[2], namex.show(dterm), diff and diff[3]),
                    {"derive_term": namex.show(dterm), "variant_term": namex.show(vterm)})
    R.floor("r6", "generated references to generated definitions", uses, 3)

    # ---- r7 scalar tables
    tabs = scalar_tables(C, R)
    if len(tabs) == 2:
        a = tabs["util::trustfall_type_to_rust_type"]
        b = tabs["util::field_value_to_rust_type"]
        R.floor("r7", "scalar arms", min(len(a), len(b)), 4)
        R.check(set(a) == set(b), "r7", "same-domain", "-", "the two scalar tables differ in the scalar names they accept: %s vs %s" % (sorted(a), sorted(b)))
        FV = "trustfall_core::ir::value::FieldValue::"
        for sname in sorted(set(a) & set(b)):
            acc = b[sname].split(" ")[0]
            g = core.fn(FV + acc)
            if g is None:
                R.fail("r7", "accessor:%s" % sname, "-", "FieldValue::%s (emitted for %s) does not exist: the stub does not compile" % (acc, sname))
                continue
            ret = core.S(g.get("ret_ty")) or ""
            m = re.match(r"core::option::Option<(.*)>$", ret)
            inner = (m.group(1) if m else ret).replace("&'_ ", "&").replace("&'a ", "&")
            R.check(inner.replace(" ", "") == a[sname].replace(" ", ""), "r7", "scalar:%s" % sname, core.loc(g["sp"]) if g.get("sp") else "-",
                    "Trustfall type %s is declared as Rust type `%s` but converted with FieldValue::%s() -> %s: type mismatch in the stub"
                    % (sname, a[sname], acc, ret), {"rust_type": a[sname], "accessor": acc, "returns": ret})
    parameter_type_table(ctx, R, C, core)
    R.units["helper_evaluations"] = ev.calls
    R.units["sites"] = len(table)
