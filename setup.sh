#!/bin/sh
# Build the fact extractor and warm the dependency cache + quick fact set (offline).
set -e
cd "$(dirname "$0")"
export CARGO_NET_OFFLINE=true
(cd engine/factgen && cargo build --release --offline)
python3 - <<'PY'
import sys
sys.path.insert(0, "engine")
from tfv import facts
d, th, n = facts.ensure_facts("quick")
print("facts ready:", d, "tree", th, "files", n)
PY
